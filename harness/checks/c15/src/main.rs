//! C15 — scalar and fixed-point types encode, convert and round exactly as specified.
//!
//! Exhaustive value-space sweeps of the real font-types / write-fonts::round code against
//! i128 / exact references. See DESIGN.md §3 C15.

use font_types::*;
use rayon::prelude::*;
use serde_json::{json, Value};
use std::collections::HashSet;
use vcore::*;
use write_fonts::OtRound;

fn main() {
    main_for("C15", body)
}

/// boundary alphabet W over i32
fn alphabet() -> Vec<i32> {
    let mut w: Vec<i64> = vec![0, 0x8000, -0x8000, i32::MIN as i64, i32::MAX as i64];
    for k in 0..=31u32 {
        let p = 1i64 << k;
        for v in [p - 1, p, p + 1] {
            w.push(v);
            w.push(-v);
        }
    }
    // a few non-boundary values so that rounding has work to do
    w.extend([3, -3, 0x18000, -0x18000, 0x12345, -0x12345, 0x00FF_FF00, 1000 << 16, 7 << 6]);
    let mut out: Vec<i32> = w
        .into_iter()
        .filter(|v| *v >= i32::MIN as i64 && *v <= i32::MAX as i64)
        .map(|v| v as i32)
        .collect();
    out.sort();
    out.dedup();
    out
}

/// W plus finer neighbourhoods and non-power-of-two structure (thorough only)
fn alphabet_ext(w: &[i32]) -> Vec<i32> {
    let mut x: Vec<i64> = w.iter().map(|v| *v as i64).collect();
    for k in 0..=31u32 {
        let p = 1i64 << k;
        for d in -3..=3i64 {
            x.push(p + d);
            x.push(-(p + d));
        }
        for m in [3i64, 5] {
            x.push(m * p);
            x.push(-m * p);
            x.push(m * p - 1);
            x.push(-(m * p) + 1);
        }
    }
    x.extend([0x5555_5555, -0x5555_5555, 0x2AAA_AAAA, -0x2AAA_AAAA, 0x0000_5555, 0x5555_0000, 0x7FFF_0001, -0x7FFF_0001]);
    x.extend([7, -7, 11, 13, 97, 251, 257, 65521, 65537, -65537, 46340, 46341, -46340, -46341, 0xB504, 0xB505]);
    let mut out: Vec<i32> = x
        .into_iter()
        .filter(|v| *v >= i32::MIN as i64 && *v <= i32::MAX as i64)
        .map(|v| v as i32)
        .collect();
    out.sort();
    out.dedup();
    out
}

/// `BigEndian<T>` compares exactly like `T`
fn be_ord<T: Scalar + Copy + Ord>(x: T, y: T) -> bool
where
    T::Raw: Eq,
{
    let (bx, by): (BigEndian<T>, BigEndian<T>) = (x.into(), y.into());
    let want = x.cmp(&y);
    bx.cmp(&by) == want
        && bx.partial_cmp(&by) == Some(want)
        && (bx < by) == (x < y)
        && (bx >= by) == (x >= y)
        && (bx == by) == (x == y)
        && (bx == y) == (x == y)
        && bx.max(by).get() == x.max(y)
        && bx.min(by).get() == x.min(y)
}

/// The whole `BigEndian<T>` / `Scalar` surface for one value: `new`/`from`/`set` + `get`, `be_bytes`,
/// `from_slice` and `Scalar::read` (exact length only), `== T`, `RAW_BYTE_LEN`. `other` seeds the cell
/// that `set` overwrites. No allocation (the thorough tier calls this 2^32 times).
fn be_api<T: Scalar + Copy + PartialEq>(v: T, other: T, size: usize) -> bool
where
    T::Raw: AsRef<[u8]> + PartialEq,
{
    let raw = v.to_raw();
    let mut buf = [0xA5u8; 10];
    if raw.as_ref().len() != size {
        return false;
    }
    buf[..size].copy_from_slice(raw.as_ref());
    let (exact, longer, shorter) = (&buf[..size], &buf[..size + 1], &buf[..size - 1]);
    let a = BigEndian::<T>::new(raw);
    let b = BigEndian::<T>::from(v);
    let mut c = BigEndian::<T>::from(other);
    c.set(v);
    <T as FixedSize>::RAW_BYTE_LEN == size
        && <BigEndian<T> as FixedSize>::RAW_BYTE_LEN == size
        && a.get() == v
        && a.be_bytes() == exact
        && a == v
        && (a == other) == (v == other)
        && b.be_bytes() == exact
        && c.get() == v
        && c.be_bytes() == exact
        && a == b
        && (BigEndian::<T>::from(other) == a) == (other.to_raw() == raw)
        && BigEndian::<T>::from_slice(exact).map(|x| x.get() == v && x.be_bytes() == exact) == Some(true)
        && BigEndian::<T>::from_slice(longer).is_none()
        && BigEndian::<T>::from_slice(shorter).is_none()
        && T::read(exact).map(|x| x == v) == Some(true)
        && T::read(longer).is_none()
        && T::read(shorter).is_none()
        && T::from_raw(raw) == v
}

/// round(num/den) half away from zero, exact
fn div_round_haz(num: i128, den: i128) -> i128 {
    assert!(den != 0);
    let neg = (num < 0) != (den < 0);
    let n = num.unsigned_abs();
    let d = den.unsigned_abs();
    let q = ((2 * n + d) / (2 * d)) as i128;
    if neg {
        -q
    } else {
        q
    }
}

fn fits_i32(v: i128) -> bool {
    v >= i32::MIN as i128 && v <= i32::MAX as i128
}

struct Local {
    all: HashSet<u64>,
    nontrivial: HashSet<u64>,
}

fn body(run: &Run, replay: Option<&Value>) {
    run.rule("cases are (operation, operand tuple) over exhaustive value spaces (8/16/24-bit types; 32-bit unary conversions: 2^32 in thorough, a 2^20+ boundary set in quick) and the boundary alphabet W for binary/ternary arithmetic; a case is non-trivial when the exact result is representable and non-zero; distinct = distinct (op, result) digests");
    run.assume("reference semantics: i128 exact arithmetic with round-half-away-from-zero for *, /, mul_div; floor((raw + half) / 2^k) for fixed-to-fixed conversions (the OpenType/FreeType formulas)");
    run.assume("F26Dot6 `*` and `/` share the 16.16 scaling macro (FT_MulFix/FT_DivFix idiom) and are not judged against 26.6 semantics; F26Dot6::mul_div (scale free) is");
    if let Some(case) = replay {
        replay_case(run, case);
        return;
    }
    let w = alphabet();
    run.bound("W_size", json!(w.len()));
    // thorough: binary ops over the extended alphabet W+ (every 2^k +/- 0..=3, 3*2^k, 5*2^k, alternating-bit
    // patterns and a few primes), ternary ops over W as before plus W+ thinned to keep the cube below 2*10^8
    // (quick now also uses W+ for the binary operations: 644^2 pairs cost well under a second)
    let wx = alphabet_ext(&w);
    run.bound("W_binary_size", json!(wx.len()));
    binary_ops(run, &wx);
    ternary_ops(run, &w);
    if run.tier == Tier::Thorough {
        let thin: Vec<i32> = wx.iter().copied().filter(|v| !w.contains(v)).step_by(2).chain([i32::MIN, -1, 0, 1, i32::MAX]).collect();
        run.bound("mul_div_ext_alphabet_size", json!(thin.len()));
        ternary_over(run, &thin);
    }
    small_types(run);
    conversions(run);
    float_saturation(run);
    unary32(run);
    ot_round(run);
    int24(run, &w);
}

fn replay_case(run: &Run, case: &Value) {
    let op = case["op"].as_str().unwrap_or("");
    let a = case["a"].as_i64().unwrap_or(0) as i32;
    let b = case["b"].as_i64().unwrap_or(0) as i32;
    let c = case["c"].as_i64().unwrap_or(0) as i32;
    match op {
        "mul" | "div" | "be_ord" | "cmp" | "f26_sum" | "op_assign" | "cmp_majorminor" | "cmp16" | "cmp24" | "cmp26" | "cmp_tag" | "cmp_version" | "cmp_offset32" | "cmp_glyphid" | "cmp_ldt" => check_binary(run, a, b, &mut None),
        "mul_div" | "mul_div_26_6" => check_ternary(run, a, b, c, &mut None),
        "conv16" => conversions(run),
        "float_sat" => float_saturation(run),
        "unary32" => {
            let mut l = Local { all: HashSet::new(), nontrivial: HashSet::new() };
            check_unary32(run, a, &mut l);
        }
        _ => println!("replay: unsupported op {op}; re-run the tier"),
    }
}

fn check_binary(run: &Run, a: i32, b: i32, local: &mut Option<&mut Local>) {
    let fa = Fixed::from_bits(a);
    let fb = Fixed::from_bits(b);
    // multiplication
    let exact = div_round_haz(a as i128 * b as i128, 1 << 16);
    if fits_i32(exact) {
        match guard(|| (fa * fb).to_bits()) {
            Ok(got) => {
                if got as i128 != exact {
                    run.violation(
                        &format!("Fixed::mul a={a:#x} b={b:#x}"),
                        &format!("Fixed({a}) * Fixed({b}) = {got}, exact round-half-away = {exact}"),
                        json!({"op":"mul","a":a,"b":b}),
                    );
                }
                if let Some(l) = local {
                    let mut h = Fnv::new();
                    h.str("mul");
                    h.i64(got as i64);
                    l.all.insert(h.finish());
                    if exact != 0 {
                        l.nontrivial.insert(h.finish());
                    }
                }
            }
            Err(p) => run.violation(
                &format!("Fixed::mul panic {}", p.kind()),
                &format!("a={a} b={b}: {}", p.message),
                json!({"op":"mul","a":a,"b":b}),
            ),
        }
    }
    // division
    if b == 0 {
        match guard(|| (fa / fb).to_bits()) {
            Ok(got) => {
                let ok = if a >= 0 {
                    got == i32::MAX
                } else {
                    got == -i32::MAX || got == i32::MIN
                };
                if !ok {
                    run.violation(
                        &format!("Fixed::div by zero a={a:#x}"),
                        &format!("Fixed({a}) / 0 = {got}, expected saturation"),
                        json!({"op":"div","a":a,"b":b}),
                    );
                }
            }
            Err(p) => run.violation(
                &format!("Fixed::div panic {}", p.kind()),
                &format!("a={a} b={b}: {}", p.message),
                json!({"op":"div","a":a,"b":b}),
            ),
        }
    } else {
        let exact = div_round_haz((a as i128) << 16, b as i128);
        if fits_i32(exact) {
            match guard(|| (fa / fb).to_bits()) {
                Ok(got) => {
                    if got as i128 != exact {
                        let ident = if a == i32::MIN || b == i32::MIN {
                            "Fixed::div operand i32::MIN".to_string()
                        } else {
                            format!("Fixed::div a={a:#x} b={b:#x}")
                        };
                        run.violation(
                            &ident,
                            &format!("Fixed({a}) / Fixed({b}) = {got}, exact round-half-away = {exact}"),
                            json!({"op":"div","a":a,"b":b}),
                        );
                    }
                    if let Some(l) = local {
                        let mut h = Fnv::new();
                        h.str("div");
                        h.i64(got as i64);
                        l.all.insert(h.finish());
                        if exact != 0 {
                            l.nontrivial.insert(h.finish());
                        }
                    }
                }
                Err(p) => run.violation(
                    &format!("Fixed::div panic {}", p.kind()),
                    &format!("a={a} b={b}: {}", p.message),
                    json!({"op":"div","a":a,"b":b}),
                ),
            }
        }
    }
    // ordering equals ordering of raw bits; add/sub wrap; checked/saturating agree with i32
    if fa.cmp(&fb) != a.cmp(&b) || (fa == fb) != (a == b) || fa.partial_cmp(&fb) != Some(a.cmp(&b)) {
        run.violation(
            &format!("Fixed::cmp a={a:#x} b={b:#x}"),
            "ordering differs from raw-bit ordering",
            json!({"op":"cmp","a":a,"b":b}),
        );
    }
    // ordering of every other Ord scalar equals ordering of its raw (big-endian) bits
    {
        let (ua, ub) = (a as u32, b as u32);
        let (ta, tb) = (Tag::from_u32(ua), Tag::from_u32(ub));
        if ta.cmp(&tb) != ua.cmp(&ub) || ta.partial_cmp(&tb) != Some(ua.cmp(&ub)) || (ta == tb) != (ua == ub) {
            run.violation(
                "Tag::cmp differs from the ordering of its big-endian bytes",
                &format!("Tag({ua:#010x}).cmp(Tag({ub:#010x})) = {:?}, raw order {:?}", ta.cmp(&tb), ua.cmp(&ub)),
                json!({"op":"cmp_tag","a":a,"b":b}),
            );
        }
        let (va, vb) = (Version16Dot16::from_raw(ua.to_be_bytes()), Version16Dot16::from_raw(ub.to_be_bytes()));
        if va.cmp(&vb) != ua.cmp(&ub) {
            run.violation("Version16Dot16::cmp differs from raw-bit ordering", "", json!({"op":"cmp_version","a":a,"b":b}));
        }
        let (oa, ob) = (Offset32::new(ua), Offset32::new(ub));
        if oa.cmp(&ob) != ua.cmp(&ub) {
            run.violation("Offset32::cmp differs from raw-bit ordering", "", json!({"op":"cmp_offset32","a":a,"b":b}));
        }
        let (ga, gb) = (GlyphId::new(ua), GlyphId::new(ub));
        if ga.cmp(&gb) != ua.cmp(&ub) {
            run.violation("GlyphId::cmp differs from raw-bit ordering", "", json!({"op":"cmp_glyphid","a":a,"b":b}));
        }
        let (la, lb) = (LongDateTime::new((a as i64) << 24), LongDateTime::new((b as i64) << 24));
        if la.cmp(&lb) != a.cmp(&b) {
            run.violation("LongDateTime::cmp differs from value ordering", "", json!({"op":"cmp_ldt","a":a,"b":b}));
        }
        // 16- and 24-bit types on the low bits
        let (sa, sb) = (a as u16, b as u16);
        let ord16 = [
            (GlyphId16::new(sa).cmp(&GlyphId16::new(sb)), sa.cmp(&sb), "GlyphId16"),
            (NameId::new(sa).cmp(&NameId::new(sb)), sa.cmp(&sb), "NameId"),
            (Offset16::new(sa).cmp(&Offset16::new(sb)), sa.cmp(&sb), "Offset16"),
            (UfWord::new(sa).cmp(&UfWord::new(sb)), sa.cmp(&sb), "UfWord"),
            (FWord::new(sa as i16).cmp(&FWord::new(sb as i16)), (sa as i16).cmp(&(sb as i16)), "FWord"),
            (F2Dot14::from_bits(sa as i16).cmp(&F2Dot14::from_bits(sb as i16)), (sa as i16).cmp(&(sb as i16)), "F2Dot14"),
        ];
        for (got, want, name) in ord16 {
            if got != want {
                run.violation(&format!("{name}::cmp differs from raw-bit ordering"), "", json!({"op":"cmp16","type":name,"a":a,"b":b}));
            }
        }
        let (xa, xb) = (ua & 0xFF_FFFF, ub & 0xFF_FFFF);
        if Uint24::new(xa).cmp(&Uint24::new(xb)) != xa.cmp(&xb)
            || Offset24::new(Uint24::new(xa)).cmp(&Offset24::new(Uint24::new(xb))) != xa.cmp(&xb)
            || Int24::new(((xa << 8) as i32) >> 8).cmp(&Int24::new(((xb << 8) as i32) >> 8)) != (((xa << 8) as i32) >> 8).cmp(&(((xb << 8) as i32) >> 8))
        {
            run.violation("24-bit type cmp differs from value ordering", "", json!({"op":"cmp24","a":a,"b":b}));
        }
    }
    // BigEndian<T> (the in-table representation) must order, and test equality, exactly as T does: cmp,
    // partial_cmp, the comparison operators and max/min all decode first
    {
        let (ua, ub) = (a as u32, b as u32);
        let (sa, sb) = (a as u16, b as u16);
        let (xa, xb) = (ua & 0xFF_FFFF, ub & 0xFF_FFFF);
        let (ia, ib) = (((xa << 8) as i32) >> 8, ((xb << 8) as i32) >> 8);
        let (la, lb) = (((a as i64) << 24) ^ (b as i64 & 0xFF), ((b as i64) << 24) ^ (a as i64 & 0xFF));
        let bad = [
            (be_ord(a, b), "i32"),
            (be_ord(ua, ub), "u32"),
            (be_ord(fa, fb), "Fixed"),
            (be_ord(Tag::from_u32(ua), Tag::from_u32(ub)), "Tag"),
            (be_ord(Version16Dot16::from_raw(ua.to_be_bytes()), Version16Dot16::from_raw(ub.to_be_bytes())), "Version16Dot16"),
            (be_ord(Offset32::new(ua), Offset32::new(ub)), "Offset32"),
            (be_ord(LongDateTime::new(la), LongDateTime::new(lb)), "LongDateTime"),
            (be_ord(la, lb), "i64"),
            (be_ord(sa, sb), "u16"),
            (be_ord(sa as i16, sb as i16), "i16"),
            (be_ord(sa as u8, sb as u8), "u8"),
            (be_ord(sa as i8, sb as i8), "i8"),
            (be_ord(GlyphId16::new(sa), GlyphId16::new(sb)), "GlyphId16"),
            (be_ord(NameId::new(sa), NameId::new(sb)), "NameId"),
            (be_ord(Offset16::new(sa), Offset16::new(sb)), "Offset16"),
            (be_ord(UfWord::new(sa), UfWord::new(sb)), "UfWord"),
            (be_ord(FWord::new(sa as i16), FWord::new(sb as i16)), "FWord"),
            (be_ord(F2Dot14::from_bits(sa as i16), F2Dot14::from_bits(sb as i16)), "F2Dot14"),
            (be_ord(F4Dot12::from_bits(sa as i16), F4Dot12::from_bits(sb as i16)), "F4Dot12"),
            (be_ord(F6Dot10::from_bits(sa as i16), F6Dot10::from_bits(sb as i16)), "F6Dot10"),
            (be_ord(Uint24::new(xa), Uint24::new(xb)), "Uint24"),
            (be_ord(Int24::new(ia), Int24::new(ib)), "Int24"),
            (be_ord(Offset24::new(Uint24::new(xa)), Offset24::new(Uint24::new(xb))), "Offset24"),
        ];
        for (ok, name) in bad {
            if !ok {
                run.violation(
                    &format!("BigEndian<{name}> ordering/equality differs from {name}'s"),
                    &format!("operands derived from a={a:#x} b={b:#x}"),
                    json!({"op":"be_ord","type":name,"a":a,"b":b}),
                );
            }
        }
    }
    let f26a = F26Dot6::from_bits(a);
    let f26b = F26Dot6::from_bits(b);
    if f26a.cmp(&f26b) != a.cmp(&b) {
        run.violation("F26Dot6::cmp", "ordering differs from raw-bit ordering", json!({"op":"cmp26","a":a,"b":b}));
    }
    let sums = [
        ((fa + fb).to_bits(), a.wrapping_add(b), "add"),
        ((fa - fb).to_bits(), a.wrapping_sub(b), "sub"),
        (fa.wrapping_add(fb).to_bits(), a.wrapping_add(b), "wrapping_add"),
        (fa.wrapping_sub(fb).to_bits(), a.wrapping_sub(b), "wrapping_sub"),
        (fa.saturating_add(fb).to_bits(), a.saturating_add(b), "saturating_add"),
        (fa.saturating_sub(fb).to_bits(), a.saturating_sub(b), "saturating_sub"),
    ];
    for (got, want, name) in sums {
        if got != want {
            run.violation(
                &format!("Fixed::{name} a={a:#x} b={b:#x}"),
                &format!("{name}: got {got} want {want}"),
                json!({"op":name,"a":a,"b":b}),
            );
        }
    }
    // F26Dot6 shares the add/sub family (same macro, other parameters): same i32 reference
    let sums26 = [
        ((f26a + f26b).to_bits(), a.wrapping_add(b), "add"),
        ((f26a - f26b).to_bits(), a.wrapping_sub(b), "sub"),
        (f26a.wrapping_add(f26b).to_bits(), a.wrapping_add(b), "wrapping_add"),
        (f26a.wrapping_sub(f26b).to_bits(), a.wrapping_sub(b), "wrapping_sub"),
        (f26a.saturating_add(f26b).to_bits(), a.saturating_add(b), "saturating_add"),
        (f26a.saturating_sub(f26b).to_bits(), a.saturating_sub(b), "saturating_sub"),
        (f26a.checked_add(f26b).map(|v| v.to_bits()).unwrap_or(0x5A5A_5A5A), a.checked_add(b).unwrap_or(0x5A5A_5A5A), "checked_add"),
    ];
    for (got, want, name) in sums26 {
        if got != want {
            run.violation(&format!("F26Dot6::{name} differs from i32::{name}"), &format!("a={a:#x} b={b:#x}: got {got} want {want}"), json!({"op":"f26_sum","fn":name,"a":a,"b":b}));
        }
    }
    // the compound-assignment operators are documented as the binary operator followed by assignment
    {
        let (mut p, mut q) = (fa, fa);
        p += fb;
        q -= fb;
        if p != fa + fb || q != fa - fb {
            run.violation("Fixed += / -= differs from + / -", &format!("a={a:#x} b={b:#x}"), json!({"op":"op_assign","a":a,"b":b}));
        }
        let (mut p26, mut q26) = (f26a, f26a);
        p26 += f26b;
        q26 -= f26b;
        if p26 != f26a + f26b || q26 != f26a - f26b {
            run.violation("F26Dot6 += / -= differs from + / -", &format!("a={a:#x} b={b:#x}"), json!({"op":"op_assign","a":a,"b":b}));
        }
        let ok = guard(|| {
            let (mut r, mut t) = (fa, fa);
            r *= fb;
            t /= fb;
            let (mut r26, mut t26) = (f26a, f26a);
            r26 *= f26b;
            t26 /= f26b;
            r == fa * fb && t == fa / fb && r26 == f26a * f26b && t26 == f26a / f26b
        });
        if !matches!(ok, Ok(true)) {
            run.violation("Fixed/F26Dot6 *= or /= differs from * or /", &format!("a={a:#x} b={b:#x}"), json!({"op":"op_assign","a":a,"b":b}));
        }
    }
    // MajorMinor orders as its four big-endian bytes; so does BigEndian<MajorMinor>
    {
        let (ua, ub) = (a as u32, b as u32);
        let (ma, mb) = (MajorMinor::new((ua >> 16) as u16, ua as u16), MajorMinor::new((ub >> 16) as u16, ub as u16));
        if ma.cmp(&mb) != ua.cmp(&ub) || ma.partial_cmp(&mb) != Some(ua.cmp(&ub)) || (ma == mb) != (ua == ub) || !be_ord(ma, mb) {
            run.violation("MajorMinor (or BigEndian<MajorMinor>) ordering differs from raw-bit ordering", &format!("a={ua:#x} b={ub:#x}"), json!({"op":"cmp_majorminor","a":a,"b":b}));
        }
    }
    if fa.checked_add(fb).map(|v| v.to_bits()) != a.checked_add(b) {
        run.violation("Fixed::checked_add", "differs from i32::checked_add", json!({"op":"checked_add","a":a,"b":b}));
    }
}

fn binary_ops(run: &Run, w: &[i32]) {
    let results: Vec<Local> = w
        .par_iter()
        .map(|&a| {
            let mut l = Local { all: HashSet::new(), nontrivial: HashSet::new() };
            for &b in w {
                check_binary(run, a, b, &mut Some(&mut l));
            }
            run.evals(w.len() as u64);
            run.trans(12 * w.len() as u64);
            l
        })
        .collect();
    for l in results {
        run.observe_many(&l.all, &l.nontrivial);
    }
    run.count("binary_pairs", (w.len() * w.len()) as u64);
    run.sample(json!({"op":"Fixed mul/div/cmp/add/sub", "a": w[w.len()/2+3], "b": w[5]}));
}

fn check_ternary(run: &Run, a: i32, b: i32, c: i32, local: &mut Option<&mut Local>) {
    if c == 0 {
        // documented FreeType behaviour: saturate
        let got = Fixed::from_bits(a).mul_div(Fixed::from_bits(b), Fixed::from_bits(c)).to_bits();
        if got.unsigned_abs() != 0x7FFF_FFFF && got != i32::MIN {
            run.violation(
                &format!("Fixed::mul_div by zero a={a:#x} b={b:#x}"),
                &format!("mul_div({a},{b},0) = {got}, expected saturation"),
                json!({"op":"mul_div","a":a,"b":b,"c":c}),
            );
        }
        return;
    }
    let exact = div_round_haz(a as i128 * b as i128, c as i128);
    if !fits_i32(exact) {
        return;
    }
    for (name, got) in [
        ("mul_div", guard(|| Fixed::from_bits(a).mul_div(Fixed::from_bits(b), Fixed::from_bits(c)).to_bits())),
        ("mul_div_26_6", guard(|| F26Dot6::from_bits(a).mul_div(F26Dot6::from_bits(b), F26Dot6::from_bits(c)).to_bits())),
    ] {
        match got {
            Ok(got) => {
                if got as i128 != exact {
                    run.violation(
                        &format!("{name} a={a:#x} b={b:#x} c={c:#x}"),
                        &format!("{name}({a},{b},{c}) = {got}, exact round-half-away = {exact}"),
                        json!({"op":name,"a":a,"b":b,"c":c}),
                    );
                }
                if let Some(l) = local {
                    let mut h = Fnv::new();
                    h.str(name);
                    h.i64(got as i64);
                    l.all.insert(h.finish());
                    if exact != 0 {
                        l.nontrivial.insert(h.finish());
                    }
                }
            }
            Err(p) => run.violation(
                &format!("{name} panic {}", p.kind()),
                &format!("a={a} b={b} c={c}: {}", p.message),
                json!({"op":name,"a":a,"b":b,"c":c}),
            ),
        }
    }
}

fn ternary_ops(run: &Run, w: &[i32]) {
    // thorough: all triples over W; quick: all triples over every third value of W plus the extremes
    // all triples over W in both tiers (6.7 M triples)
    let sub: Vec<i32> = w.to_vec();
    run.bound("mul_div_alphabet_size", json!(sub.len()));
    ternary_over(run, &sub);
}

fn ternary_over(run: &Run, sub: &[i32]) {
    let results: Vec<Local> = sub
        .par_iter()
        .map(|&a| {
            let mut l = Local { all: HashSet::new(), nontrivial: HashSet::new() };
            for &b in sub {
                for &c in sub {
                    check_ternary(run, a, b, c, &mut Some(&mut l));
                }
            }
            run.evals((sub.len() * sub.len()) as u64);
            run.trans(2 * (sub.len() * sub.len()) as u64);
            l
        })
        .collect();
    for l in results {
        run.observe_many(&l.all, &l.nontrivial);
    }
    run.count("mul_div_triples", (sub.len() as u64).pow(3));
    run.sample(json!({"op":"mul_div","a":sub[1],"b":sub[sub.len()-2],"c":sub[sub.len()/2+1]}));
}

macro_rules! scalar_rt16 {
    ($run:expr, $ty:ty, $name:literal, $mk:expr, $bits:expr) => {{
        let mut bad = 0u64;
        for raw in 0..=u16::MAX {
            let bytes = raw.to_be_bytes();
            let v: $ty = <$ty as Scalar>::from_raw(bytes);
            let back = v.to_raw();
            let be: BigEndian<$ty> = BigEndian::from(v);
            let via_slice = <$ty as Scalar>::read(&bytes).map(|x| x.to_raw());
            let mk: $ty = $mk(raw);
            let bits: u16 = $bits(v);
            if back != bytes
                || be.be_bytes() != bytes
                || be.get().to_raw() != bytes
                || via_slice != Some(bytes)
                || mk.to_raw() != bytes
                || bits != raw
                || <$ty as Scalar>::read(&bytes[..1]).is_some()
                || !be_api::<$ty>(v, $mk(raw.wrapping_mul(40503).wrapping_add(1)), 2)
            {
                bad += 1;
                if bad == 1 {
                    $run.violation(
                        concat!($name, " big-endian round trip"),
                        &format!("raw {:#06x} does not round trip", raw),
                        json!({"op":"scalar16","type":$name,"raw":raw}),
                    );
                }
            }
        }
        $run.evals(65536);
        $run.trans(65536 * 6);
        $run.count(concat!("scalar16_", $name), 65536);
    }};
}

/// value-level conversions between the scalar types (every 16-bit value; tags over a byte alphabet)
fn conversions(run: &Run) {
    let mut bad = |name: &str, v: u32, what: String| {
        run.violation(&format!("{name} v={v:#x}"), &what, json!({"op":"conv16","a":v,"fn":name}));
    };
    for v in 0..=u16::MAX {
        let v32 = v as u32;
        let g16 = GlyphId16::from(v);
        let g = GlyphId::from(g16);
        if g16.to_u16() != v || usize::from(g16) != v as usize || u32::from(g16) != v32 || g16.to_u32() != v32 || g16 != GlyphId16::new(v) {
            bad("GlyphId16 from/into", v32, "value not kept".into());
        }
        if g.to_u32() != v32 || GlyphId::from(v) != g || GlyphId::new(v32) != g {
            bad("GlyphId from GlyphId16/u16", v32, "value not kept".into());
        }
        match GlyphId16::try_from(g) {
            Ok(back) if back == g16 => {}
            other => bad("GlyphId16::try_from(GlyphId)", v32, format!("got {other:?}")),
        }
        // cross-type equality and ordering against neighbours and the first values past 16 bits
        for x in [v32.wrapping_sub(1), v32, v32 + 1, 0x1_0000 + v32, u32::MAX - v32] {
            let gx = GlyphId::new(x);
            let want = x.cmp(&v32);
            if (gx == g16) != (x == v32)
                || (g16 == gx) != (x == v32)
                || gx.partial_cmp(&g16) != Some(want)
                || g16.partial_cmp(&gx) != Some(want.reverse())
            {
                bad("GlyphId <-> GlyphId16 eq/ord", v32, format!("against {x:#x}"));
            }
        }
        let s = v as i16;
        if FWord::from(s).to_i16() != s || i16::from(FWord::new(s)) != s || FWord::new(s).to_fixed() != Fixed::from_i32(s as i32) {
            bad("FWord from/into/to_fixed", v32, "value not kept".into());
        }
        if UfWord::from(v).to_u16() != v || u16::from(UfWord::new(v)) != v || UfWord::new(v).to_fixed() != Fixed::from_i32(v as i32) {
            bad("UfWord from/into/to_fixed", v32, "value not kept".into());
        }
        if FWord::new(s).to_be_bytes() != v.to_be_bytes()
            || UfWord::new(v).to_be_bytes() != v.to_be_bytes()
            || g16.to_be_bytes() != v.to_be_bytes()
            || NameId::new(v).to_be_bytes() != v.to_be_bytes()
            || F2Dot14::from_bits(s).to_be_bytes() != v.to_be_bytes()
            || F4Dot12::from_bits(s).to_be_bytes() != v.to_be_bytes()
            || F6Dot10::from_bits(s).to_be_bytes() != v.to_be_bytes()
        {
            bad("16-bit to_be_bytes", v32, "not the big-endian bytes of the value".into());
        }
        if NameId::from(v).to_u16() != v || NameId::new(v).is_reserved() != (v <= 255) {
            bad("NameId from/is_reserved", v32, "wrong".into());
        }
        for rhs in [0u16, 1, 255, 0x7FFF_u16.wrapping_sub(v), 0x8000_u16.wrapping_sub(v), 0xFFFF - v, 0xFFFF] {
            let want = (v32 + rhs as u32 <= NameId::LAST_ALLOWED_NAME_ID.to_u16() as u32).then(|| v + rhs);
            if NameId::new(v).checked_add(rhs).map(|n| n.to_u16()) != want {
                bad("NameId::checked_add", v32, format!("rhs {rhs}: want {want:?}"));
            }
        }
        let o = Offset16::new(v);
        let n = <Nullable<Offset16> as Scalar>::from_raw(v.to_be_bytes());
        if o.is_null() != (v == 0) || (o == v32) != true || (o == v32 + 1) || n.is_null() != (v == 0) || !(n == v32) || *n.offset() != o || n.to_raw() != v.to_be_bytes() {
            bad("Offset16 / Nullable<Offset16>", v32, "null test or u32 comparison wrong".into());
        }
        let o24 = Offset24::new(Uint24::new(v32 << 8 | 0x5A));
        if o24.to_u32() != (v32 << 8 | 0x5A) || o24.is_null() || !(o24 == (v32 << 8 | 0x5A)) || u32::from(Uint24::new(v32 << 8)) != v32 << 8 || usize::from(Uint24::new(v32)) != v as usize {
            bad("Offset24/Uint24 into", v32, "value not kept".into());
        }
        if i32::from(Int24::new(s as i32 * 256)) != s as i32 * 256 {
            bad("Int24 into i32", v32, "value not kept".into());
        }
        for minor in 0..=9u16 {
            let ver = Version16Dot16::new(v, minor);
            if ver.to_major_minor() != (v, minor) || ver.to_be_bytes() != ((v32 << 16) | ((minor as u32) << 12)).to_be_bytes() {
                bad("Version16Dot16::new", v32, format!("minor {minor}"));
            }
        }
        let mm = MajorMinor::new(v, !v);
        if mm.to_be_bytes() != ((v32 << 16) | (!v) as u32).to_be_bytes() || <MajorMinor as Scalar>::from_raw(mm.to_raw()) != mm {
            bad("MajorMinor", v32, "bytes wrong".into());
        }
    }
    run.evals(65536 * 30);
    run.trans(65536 * 60);
    run.count("conversions16_values", 65536);
    // tags: every string of 0..=5 bytes over a boundary byte alphabet, against the documented rules
    let alpha = [0x00u8, 0x1F, 0x20, 0x21, 0x41, 0x7A, 0x7E, 0x7F, 0xFF];
    let mut n = 0u64;
    for len in 0..=5usize {
        let total = alpha.len().pow(len as u32);
        for mut k in 0..total {
            let mut buf = Vec::with_capacity(len);
            for _ in 0..len {
                buf.push(alpha[k % alpha.len()]);
                k /= alpha.len();
            }
            n += 1;
            let mut valid = (1..=4).contains(&len) && buf[0] != 0x20;
            let mut seen_space = false;
            for &b in &buf {
                if !(0x20..=0x7E).contains(&b) || (b != 0x20 && seen_space) {
                    valid = false;
                }
                seen_space |= b == 0x20;
            }
            let mut padded = [0x20u8; 4];
            for (i, b) in buf.iter().take(4).enumerate() {
                padded[i] = *b;
            }
            let got = Tag::new_checked(&buf);
            if got.is_ok() != valid || (valid && got.as_ref().map(|t| t.to_be_bytes()) != Ok(padded)) {
                bad("Tag::new_checked", n as u32, format!("{buf:02x?}: got {got:?}, valid per documented rules = {valid}"));
            }
            if let Ok(text) = std::str::from_utf8(&buf) {
                let parsed: Result<Tag, _> = text.parse();
                if parsed.is_ok() != valid || (valid && parsed.map(|t| t.to_be_bytes()).ok() != Some(padded)) {
                    bad("Tag::from_str", n as u32, format!("{buf:02x?}"));
                }
            }
            if len == 4 {
                let arr: [u8; 4] = [buf[0], buf[1], buf[2], buf[3]];
                let t = Tag::new(&arr);
                if AsRef::<[u8]>::as_ref(&t) != &arr[..] || std::borrow::Borrow::<[u8; 4]>::borrow(&t) != &arr || t.to_be_bytes() != arr || Tag::from_u32(u32::from_be_bytes(arr)) != t {
                    bad("Tag as_ref/borrow/to_be_bytes", n as u32, format!("{arr:02x?}"));
                }
                if t != Tag::from_be_bytes(arr) || t.into_bytes() != arr || !(t == arr) || !(t == &arr[..]) || (t == &arr[..3]) || t.validate().is_ok() != valid {
                    bad("Tag new/eq/validate", n as u32, format!("{arr:02x?}: validate {:?}, valid per documented rules = {valid}", t.validate()));
                }
                if let Ok(text) = std::str::from_utf8(&arr) {
                    if !(t == *text) || !(t == text) {
                        bad("Tag == str", n as u32, format!("{arr:02x?}"));
                    }
                }
            }
        }
    }
    run.evals(n);
    run.count("tag_strings", n);
    run.sample(json!({"op":"conv16","a":65535,"fn":"GlyphId16::try_from(GlyphId)"}));
}

/// float -> fixed conversions outside (and at the edge of) the representable range: "rounded to the nearest
/// representable value" means saturation at MIN / MAX, never wrap-around; NaN is not judged
fn float_saturation(run: &Run) {
    let mut n = 0u64;
    let mut grid: Vec<f64> = Vec::new();
    for &base in &[0.0f64, 1.0, 2.0, 4.0, 8.0, 32.0, 32767.0, 32768.0, 65536.0, 2147483647.0, 2147483648.0, 4294967296.0, 33554432.0, 33554431.0] {
        for &d in &[-1.0f64, -0.75, -0.5, -0.25, 0.0, 0.25, 0.5, 0.75, 1.0, 1.5, 2.5] {
            grid.push(base + d);
            grid.push(-(base + d));
        }
    }
    grid.extend([1e9, -1e9, 1e20, -1e20, f32::MAX as f64, f32::MIN as f64, f64::MAX, f64::MIN, f64::INFINITY, f64::NEG_INFINITY]);
    macro_rules! sat {
        ($ty:ident, $from:ident, $fl:ty, $one:expr, $min:expr, $max:expr, $name:literal) => {{
            // raw-unit neighbourhood of both ends of the range and of zero, in quarter units
            let mut xs: Vec<f64> = grid.clone();
            for &edge in &[$min as f64, $max as f64, 0.0] {
                for q in -12..=12 {
                    xs.push((edge + q as f64 * 0.25) / $one);
                }
            }
            for x in xs {
                let xf = x as $fl;
                if xf.is_nan() {
                    continue;
                }
                // exact reference on the value actually passed in
                let v = xf as f64 * $one;
                let r = if v >= 0.0 { (v + 0.5).floor() } else { (v - 0.5).ceil() };
                let want = if r <= $min as f64 { $min as i64 } else if r >= $max as f64 { $max as i64 } else { r as i64 };
                // skip inputs where v +/- 0.5 is not exact in the float type (none on this grid below 2^23 / 2^52)
                n += 1;
                match guard(|| $ty::$from(xf).to_bits() as i64) {
                    Ok(got) => {
                        if got != want {
                            run.violation(
                                &format!(concat!($name, "::", stringify!($from), " out-of-range/edge input not rounded to the nearest representable value")),
                                &format!("{}({xf:e}) = raw {got}, nearest representable raw {want}", stringify!($from)),
                                json!({"op":"float_sat","type":$name,"x":x}),
                            );
                            return;
                        }
                    }
                    Err(p) => {
                        run.violation(&format!(concat!($name, "::", stringify!($from), " panic")), &p.message, json!({"op":"float_sat","type":$name,"x":x}));
                        return;
                    }
                }
            }
        }};
    }
    sat!(F2Dot14, from_f32, f32, 16384.0, i16::MIN, i16::MAX, "F2Dot14");
    sat!(F4Dot12, from_f32, f32, 4096.0, i16::MIN, i16::MAX, "F4Dot12");
    sat!(F6Dot10, from_f32, f32, 1024.0, i16::MIN, i16::MAX, "F6Dot10");
    sat!(Fixed, from_f64, f64, 65536.0, i32::MIN, i32::MAX, "Fixed");
    sat!(F26Dot6, from_f64, f64, 64.0, i32::MIN, i32::MAX, "F26Dot6");
    run.evals(n);
    run.trans(n);
    run.count("float_saturation_cases", n);
}

/// documented constants and defaults, byte-level accessors not covered elsewhere
fn constants(run: &Run) {
    let mut bad = |what: &str| run.violation(&format!("constant/default: {what}"), what, json!({"op":"constants"}));
    macro_rules! fx {
        ($t:ident, $int:ty, $fb:expr, $name:literal) => {{
            if $t::ONE.to_bits() != (1 as $int) << $fb || $t::EPSILON.to_bits() != 1 || $t::ZERO.to_bits() != 0 || $t::MIN.to_bits() != <$int>::MIN || $t::MAX.to_bits() != <$int>::MAX || $t::default() != $t::ZERO {
                bad(concat!($name, " ONE/EPSILON/ZERO/MIN/MAX/default"));
            }
        }};
    }
    fx!(F2Dot14, i16, 14, "F2Dot14");
    fx!(F4Dot12, i16, 12, "F4Dot12");
    fx!(F6Dot10, i16, 10, "F6Dot10");
    fx!(Fixed, i32, 16, "Fixed");
    fx!(F26Dot6, i32, 6, "F26Dot6");
    if F2Dot14::ONE.to_f32() != 1.0 || F4Dot12::ONE.to_f32() != 1.0 || F6Dot10::ONE.to_f32() != 1.0 || Fixed::ONE.to_f64() != 1.0 || F26Dot6::ONE.to_f64() != 1.0 || Fixed::ONE.to_i32() != 1 || F26Dot6::ONE.to_i32() != 1 {
        bad("ONE is not 1.0");
    }
    if Int24::MIN.to_i32() != -0x80_0000 || Int24::MAX.to_i32() != 0x7F_FFFF || Uint24::MIN.to_u32() != 0 || Uint24::MAX.to_u32() != 0xFF_FFFF || Int24::default().to_i32() != 0 || Uint24::default().to_u32() != 0 {
        bad("Int24/Uint24 MIN/MAX/default");
    }
    let versions = [
        (Version16Dot16::VERSION_0_5, 0x0000_5000u32),
        (Version16Dot16::VERSION_1_0, 0x0001_0000),
        (Version16Dot16::VERSION_1_1, 0x0001_1000),
        (Version16Dot16::VERSION_2_0, 0x0002_0000),
        (Version16Dot16::VERSION_2_5, 0x0002_5000),
        (Version16Dot16::VERSION_3_0, 0x0003_0000),
    ];
    for (v, bits) in versions {
        if v.to_be_bytes() != bits.to_be_bytes() {
            bad("Version16Dot16::VERSION_x_y bytes");
        }
    }
    let mms = [(MajorMinor::VERSION_1_0, 0x0001_0000u32), (MajorMinor::VERSION_1_1, 0x0001_0001), (MajorMinor::VERSION_1_2, 0x0001_0002), (MajorMinor::VERSION_1_3, 0x0001_0003), (MajorMinor::VERSION_2_0, 0x0002_0000)];
    for (v, bits) in mms {
        if v.to_be_bytes() != bits.to_be_bytes() {
            bad("MajorMinor::VERSION_x_y bytes");
        }
    }
    if GlyphId16::NOTDEF.to_u16() != 0 || GlyphId::NOTDEF.to_u32() != 0 || GlyphId16::default() != GlyphId16::NOTDEF || GlyphId::default() != GlyphId::NOTDEF {
        bad("GlyphId NOTDEF/default");
    }
    if !<Nullable<Offset16>>::default().is_null() || !<Nullable<Offset24>>::default().is_null() || !<Nullable<Offset32>>::default().is_null() || <Nullable<Offset32>>::default().to_raw() != [0; 4] {
        bad("Nullable<Offset*>::default is not null");
    }
    if BigEndian::<u16>::default().get() != 0 || BigEndian::<Fixed>::default().get() != Fixed::ZERO || BigEndian::<Int24>::default().be_bytes() != [0u8, 0, 0] || BigEndian::<LongDateTime>::default().get().as_secs() != 0 {
        bad("BigEndian::default");
    }
    if NameId::LAST_ALLOWED_NAME_ID.to_u16() != 32767 || NameId::LAST_RESERVED_NAME_ID.to_u16() != 255 {
        bad("NameId limits");
    }
    run.evals(60);
}

fn small_types(run: &Run) {
    constants(run);
    scalar_rt16!(run, u16, "u16", |r: u16| r, |v: u16| v);
    scalar_rt16!(run, i16, "i16", |r: u16| r as i16, |v: i16| v as u16);
    scalar_rt16!(run, F2Dot14, "F2Dot14", |r: u16| F2Dot14::from_bits(r as i16), |v: F2Dot14| v.to_bits() as u16);
    scalar_rt16!(run, F4Dot12, "F4Dot12", |r: u16| F4Dot12::from_bits(r as i16), |v: F4Dot12| v.to_bits() as u16);
    scalar_rt16!(run, F6Dot10, "F6Dot10", |r: u16| F6Dot10::from_bits(r as i16), |v: F6Dot10| v.to_bits() as u16);
    scalar_rt16!(run, FWord, "FWord", |r: u16| FWord::new(r as i16), |v: FWord| v.to_i16() as u16);
    scalar_rt16!(run, UfWord, "UfWord", |r: u16| UfWord::new(r), |v: UfWord| v.to_u16());
    scalar_rt16!(run, GlyphId16, "GlyphId16", |r: u16| GlyphId16::new(r), |v: GlyphId16| v.to_u16());
    scalar_rt16!(run, NameId, "NameId", |r: u16| NameId::new(r), |v: NameId| v.to_u16());
    scalar_rt16!(run, Offset16, "Offset16", |r: u16| Offset16::new(r), |v: Offset16| v.to_u32() as u16);
    // 8-bit
    for raw in 0..=u8::MAX {
        let ok = <u8 as Scalar>::from_raw([raw]).to_raw() == [raw]
            && <i8 as Scalar>::from_raw([raw]).to_raw() == [raw]
            && <i8 as Scalar>::from_raw([raw]) == raw as i8;
        let ok = ok && be_api::<u8>(raw, !raw, 1) && be_api::<i8>(raw as i8, !raw as i8, 1);
        if !ok {
            run.violation("u8/i8 round trip", "8-bit scalar does not round trip", json!({"op":"scalar8","raw":raw}));
        }
    }
    run.evals(256);

    // 16-bit fixed: float round trips, ordering, conversions, all values
    let mut l = Local { all: HashSet::new(), nontrivial: HashSet::new() };
    let mut prev: Option<(F2Dot14, F4Dot12, F6Dot10)> = None;
    for i in i16::MIN..=i16::MAX {
        let a = F2Dot14::from_bits(i);
        let b = F4Dot12::from_bits(i);
        let c = F6Dot10::from_bits(i);
        // lossless float round trip, exact float value
        let checks = [
            (F2Dot14::from_f32(a.to_f32()).to_bits(), a.to_f32() as f64, 16384.0, "F2Dot14"),
            (F4Dot12::from_f32(b.to_f32()).to_bits(), b.to_f32() as f64, 4096.0, "F4Dot12"),
            (F6Dot10::from_f32(c.to_f32()).to_bits(), c.to_f32() as f64, 1024.0, "F6Dot10"),
        ];
        for (back, f, one, name) in checks {
            if back != i || f != i as f64 / one {
                run.violation(
                    &format!("{name} float round trip"),
                    &format!("bits {i}: to_f32 = {f}, back = {back}"),
                    json!({"op":"f16_float","type":name,"raw":i}),
                );
            }
        }
        // from floats rounds to nearest: raw + d for non-tie d stays at raw
        for d in [-0.49f64, -0.25, 0.25, 0.49] {
            let x = ((i as f64 + d) / 16384.0) as f32;
            // f32 has 24 bits of mantissa: (i+d)/16384 is exact enough only when the f32 rounding error
            // (< 2^-24 relative) stays below the distance to the tie (>= 0.01/16384): true for all i16.
            let got = F2Dot14::from_f32(x).to_bits();
            if got != i {
                run.violation(
                    "F2Dot14::from_f32 nearest",
                    &format!("from_f32(({i}+{d})/16384) = {got}"),
                    json!({"op":"f2dot14_from_f32","raw":i,"d":d}),
                );
            }
        }
        // the same for the other two 16-bit formats (the rounding error of the f32 division is far below
        // the distance to the tie here as well)
        for d in [-0.49f64, -0.25, 0.25, 0.49] {
            let g4 = F4Dot12::from_f32(((i as f64 + d) / 4096.0) as f32).to_bits();
            let g6 = F6Dot10::from_f32(((i as f64 + d) / 1024.0) as f32).to_bits();
            if g4 != i || g6 != i {
                run.violation(
                    "F4Dot12/F6Dot10::from_f32 nearest",
                    &format!("from_f32(({i}+{d})/one) = {g4} / {g6}"),
                    json!({"op":"f16_from_f32","raw":i,"d":d}),
                );
            }
        }
        // F2Dot14 -> Fixed is exact (x4)
        if a.to_fixed().to_bits() != (i as i32) * 4 {
            run.violation("F2Dot14::to_fixed", "not raw*4", json!({"op":"f2dot14_to_fixed","raw":i}));
        }
        // FWord/UfWord -> Fixed
        if FWord::new(i).to_fixed().to_bits() != (i as i32) << 16
            || UfWord::new(i as u16).to_fixed().to_bits() != ((i as u16 as i32) << 16)
        {
            run.violation("FWord::to_fixed", "not raw<<16", json!({"op":"fword_to_fixed","raw":i}));
        }
        // round / floor / fract / abs against integer reference (wrapping in the type)
        let rf = |raw: i16, fb: u32| -> (i16, i16, i16) {
            let mask: i16 = !0i16 << fb;
            let round = raw.wrapping_add(1i16 << (fb - 1)) & mask;
            let floor = raw & mask;
            (round, floor, raw - floor)
        };
        let (r, f, fr) = rf(i, 14);
        if a.round().to_bits() != r || a.floor().to_bits() != f || a.fract().to_bits() != fr {
            run.violation("F2Dot14 round/floor/fract", "differs from integer reference", json!({"op":"f2dot14_round","raw":i}));
        }
        let (r, f, fr) = rf(i, 12);
        if b.round().to_bits() != r || b.floor().to_bits() != f || b.fract().to_bits() != fr {
            run.violation("F4Dot12 round/floor/fract", "differs from integer reference", json!({"op":"f4dot12_round","raw":i}));
        }
        let (r, f, fr) = rf(i, 10);
        if c.round().to_bits() != r || c.floor().to_bits() != f || c.fract().to_bits() != fr {
            run.violation("F6Dot10 round/floor/fract", "differs from integer reference", json!({"op":"f6dot10_round","raw":i}));
        }
        if a.abs().to_bits() != i.wrapping_abs() || b.abs().to_bits() != i.wrapping_abs() || c.abs().to_bits() != i.wrapping_abs() {
            run.violation("16-bit fixed abs", "differs from i16::wrapping_abs", json!({"op":"f16_abs","raw":i}));
        }
        // add / sub family of the 16-bit fixed types against i16, partners from a boundary list
        for j in [0i16, 1, -1, 2, 0x3FFF, 0x4000, -0x4000, i16::MAX, i16::MIN, i16::MIN + 1, i, i.wrapping_neg(), !i] {
            macro_rules! fam {
                ($t:ident, $name:literal) => {{
                    let (x, y) = ($t::from_bits(i), $t::from_bits(j));
                    let (mut p, mut q) = (x, x);
                    p += y;
                    q -= y;
                    if (x + y).to_bits() != i.wrapping_add(j)
                        || (x - y).to_bits() != i.wrapping_sub(j)
                        || x.wrapping_add(y).to_bits() != i.wrapping_add(j)
                        || x.wrapping_sub(y).to_bits() != i.wrapping_sub(j)
                        || x.saturating_add(y).to_bits() != i.saturating_add(j)
                        || x.saturating_sub(y).to_bits() != i.saturating_sub(j)
                        || x.checked_add(y).map(|v| v.to_bits()) != i.checked_add(j)
                        || p != x + y
                        || q != x - y
                        || x.cmp(&y) != i.cmp(&j)
                        || (x == y) != (i == j)
                    {
                        run.violation(concat!($name, " add/sub family differs from i16"), &format!("a={i} b={j}"), json!({"op":"f16_sum","type":$name,"a":i,"b":j}));
                    }
                }};
            }
            fam!(F2Dot14, "F2Dot14");
            fam!(F4Dot12, "F4Dot12");
            fam!(F6Dot10, "F6Dot10");
        }
        // ordering equals raw ordering (adjacent values, exhaustive chain)
        if let Some((pa, pb, pc)) = prev {
            if !(pa < a && pb < b && pc < c) {
                run.violation("16-bit fixed ordering", "not monotone in raw bits", json!({"op":"ord16","raw":i}));
            }
        }
        prev = Some((a, b, c));
        let mut h = Fnv::new();
        h.str("f16");
        h.i64(a.to_fixed().to_bits() as i64);
        l.all.insert(h.finish());
        if i != 0 {
            l.nontrivial.insert(h.finish());
        }
    }
    run.observe_many(&l.all, &l.nontrivial);
    run.evals(65536 * 3);
    run.trans(65536 * 14);
    run.sample(json!({"op":"F2Dot14 exhaustive","raw":-16384}));

    // 24-bit exhaustive
    let bad: u64 = (0u32..(1 << 24))
        .into_par_iter()
        .map(|raw| {
            let b = raw.to_be_bytes();
            let bytes = [b[1], b[2], b[3]];
            let u = <Uint24 as Scalar>::from_raw(bytes);
            let s = <Int24 as Scalar>::from_raw(bytes);
            let o = <Offset24 as Scalar>::from_raw(bytes);
            let sval = ((raw << 8) as i32) >> 8;
            let ok = u.to_raw() == bytes
                && s.to_raw() == bytes
                && o.to_raw() == bytes
                && u.to_u32() == raw
                && s.to_i32() == sval
                && o.to_u32() == raw
                && Uint24::new(raw) == u
                && Int24::new(sval) == s
                && Uint24::checked_new(raw) == Some(u)
                && Int24::checked_new(sval) == Some(s)
                && BigEndian::<Uint24>::from(u).get() == u
                && BigEndian::<Int24>::from(s).get() == s
                && Uint24::from_be_bytes(bytes).to_be_bytes() == bytes
                && Int24::from_be_bytes(bytes).to_be_bytes() == bytes
                && i32::from(s) == sval
                && u32::from(u) == raw
                && usize::from(u) == raw as usize
                && Uint24::try_from(raw as usize).ok() == Some(u)
                && Offset24::new(u) == o
                && o.is_null() == (raw == 0)
                && (o == raw)
                && !(o == raw + 1)
                && <Nullable<Offset24> as Scalar>::from_raw(bytes).is_null() == (raw == 0)
                && <Nullable<Offset24> as Scalar>::from_raw(bytes).to_raw() == bytes
                && (raw % 251 != 0 && raw >= 4096 && raw < 0xFF_F000
                    || (be_api::<Uint24>(u, Uint24::new(raw ^ 0x80_0001), 3) && be_api::<Int24>(s, Int24::new(!sval), 3) && be_api::<Offset24>(o, Offset24::new(Uint24::new(raw ^ 0x80_0001)), 3)));
            (!ok) as u64
        })
        .sum();
    if bad > 0 {
        run.violation("24-bit round trip", &format!("{bad} of 2^24 patterns fail"), json!({"op":"scalar24"}));
    }
    run.evals(1 << 24);
    run.trans(14 << 24);
    run.count("scalar24_patterns", 1 << 24);
}

fn int24(run: &Run, w: &[i32]) {
    for &v in w {
        let want = v.clamp(-0x80_0000, 0x7F_FFFF);
        if Int24::new(v).to_i32() != want {
            run.violation(&format!("Int24::new({v:#x})"), "does not saturate", json!({"op":"int24_new","a":v}));
        }
        if Int24::checked_new(v).map(|x| x.to_i32()) != (want == v).then_some(v) {
            run.violation(&format!("Int24::checked_new({v:#x})"), "wrong", json!({"op":"int24_checked","a":v}));
        }
        let u = v as u32;
        let wantu = u.min(0xFF_FFFF);
        if Uint24::new(u).to_u32() != wantu {
            run.violation(&format!("Uint24::new({u:#x})"), "does not saturate", json!({"op":"uint24_new","a":v}));
        }
        if Uint24::checked_new(u).map(|x| x.to_u32()) != (wantu == u).then_some(u) {
            run.violation(&format!("Uint24::checked_new({u:#x})"), "wrong", json!({"op":"uint24_checked","a":v}));
        }
        if Uint24::try_from(u as usize).ok().map(|x| x.to_u32()) != (wantu == u).then_some(u) {
            run.violation(&format!("Uint24::try_from({u:#x})"), "wrong", json!({"op":"uint24_try","a":v}));
        }
        // usize inputs beyond 32 bits must be rejected, not truncated (64-bit hosts)
        #[cfg(target_pointer_width = "64")]
        {
            for big in [(1usize << 32) | u as usize, (1usize << 32) | (u as usize & 0xFF_FFFF), (1usize << 24 << 32) | 5, usize::MAX - (u as usize & 0xFF)] {
                if Uint24::try_from(big).is_ok() {
                    run.violation("Uint24::try_from(usize above u32::MAX) succeeds", &format!("{big:#x}"), json!({"op":"uint24_try_big","a":v}));
                }
            }
        }
        // 64-bit date, 32-bit offsets/version/tag at boundary values
        let secs = (v as i64) << 20 ^ (v as i64);
        let d = LongDateTime::new(secs);
        if <LongDateTime as Scalar>::from_raw(d.to_raw()).as_secs() != secs || d.to_raw() != secs.to_be_bytes() {
            run.violation("LongDateTime round trip", "64-bit scalar does not round trip", json!({"op":"ldt","a":v}));
        }
    }
    run.evals(w.len() as u64 * 6);
}

fn check_unary32(run: &Run, raw: i32, l: &mut Local) -> bool {
    let f = Fixed::from_bits(raw);
    let g = F26Dot6::from_bits(raw);
    let bytes = raw.to_be_bytes();
    let mut ok = true;
    let mut fail = |name: &str, what: String| {
        ok = false;
        run.violation(&format!("{name} raw={raw:#x}"), &what, json!({"op":"unary32","a":raw,"fn":name}));
    };
    // big-endian scalars
    if f.to_raw() != bytes || <Fixed as Scalar>::from_raw(bytes) != f || f.to_be_bytes() != bytes {
        fail("Fixed::raw", "bytes do not round trip".into());
    }
    let ver = <Version16Dot16 as Scalar>::from_raw(bytes);
    if ver.to_raw() != bytes || ver.to_be_bytes() != bytes {
        fail("Version16Dot16::raw", "bytes do not round trip".into());
    }
    let (maj, min) = ver.to_major_minor();
    if maj != (raw as u32 >> 16) as u16 || min != ((raw as u32 >> 12) & 0xF) as u16 {
        fail("Version16Dot16::to_major_minor", format!("got {maj}.{min}"));
    }
    let off = <Offset32 as Scalar>::from_raw(bytes);
    if off.to_raw() != bytes || off.to_u32() != raw as u32 || off.is_null() != (raw == 0) {
        fail("Offset32::raw", "bytes do not round trip".into());
    }
    let tag = <Tag as Scalar>::from_raw(bytes);
    if tag.to_raw() != bytes || Tag::from_u32(raw as u32) != tag || tag.to_be_bytes() != bytes {
        fail("Tag::raw", "bytes do not round trip".into());
    }
    if <u32 as Scalar>::from_raw(bytes) != raw as u32 || <i32 as Scalar>::from_raw(bytes) != raw || (raw as u32).to_raw() != bytes {
        fail("u32/i32 raw", "bytes do not round trip".into());
    }
    let gid = GlyphId::new(raw as u32);
    if gid.to_u32() != raw as u32 || u32::from(gid) != raw as u32 || GlyphId::from(raw as u32) != gid {
        fail("GlyphId", "round trip".into());
    }
    // narrowing to a 16-bit glyph id succeeds exactly for 0..=0xFFFF and keeps the value
    if GlyphId16::try_from(gid).ok().map(|g| g.to_u16()) != u16::try_from(raw as u32).ok() {
        fail("GlyphId16::try_from(GlyphId)", format!("got {:?}", GlyphId16::try_from(gid).ok()));
    }
    // 24-bit narrowing: checked_new / try_from succeed exactly on the representable range
    if Uint24::checked_new(raw as u32).map(|u| u.to_u32()) != ((raw as u32) <= 0xFF_FFFF).then_some(raw as u32)
        || Uint24::try_from(raw as u32 as usize).ok().map(|u| u.to_u32()) != ((raw as u32) <= 0xFF_FFFF).then_some(raw as u32)
        || Int24::checked_new(raw).map(|i| i.to_i32()) != (-0x80_0000..=0x7F_FFFF).contains(&raw).then_some(raw)
    {
        fail("24-bit checked_new/try_from", "wrong range or value".into());
    }
    // float conversions: lossless both ways and exact value
    let x = f.to_f64();
    if x != raw as f64 / 65536.0 {
        fail("Fixed::to_f64", format!("{x} != {}", raw as f64 / 65536.0));
    }
    if Fixed::from_f64(x) != f {
        fail("Fixed::from_f64(to_f64)", format!("back = {}", Fixed::from_f64(x).to_bits()));
    }
    let y = g.to_f64();
    if y != raw as f64 / 64.0 || F26Dot6::from_f64(y) != g {
        fail("F26Dot6::f64 round trip", format!("{y}"));
    }
    // round to nearest: non-tie perturbations (exactly representable in f64) come back to raw
    for d in [-0.4375f64, 0.4375] {
        let xp = (raw as f64 + d) / 65536.0;
        let got = Fixed::from_f64(xp).to_bits();
        if got != raw {
            fail("Fixed::from_f64 nearest", format!("from_f64(({raw}+{d})/65536) = {got}"));
        }
        let yp = (raw as f64 + d) / 64.0;
        let got = F26Dot6::from_f64(yp).to_bits();
        if got != raw {
            fail("F26Dot6::from_f64 nearest", format!("from_f64(({raw}+{d})/64) = {got}"));
        }
    }
    // to_f32 is the nearest f32 of the exact value
    if f.to_f32() != (raw as f64 / 65536.0) as f32 && f.to_f32() != (raw as f32) / 65536.0 {
        fail("Fixed::to_f32", format!("{}", f.to_f32()));
    }
    // fixed-to-fixed and fixed-to-int: floor((raw + half) / 2^k) whenever representable
    let r = raw as i64;
    let to_i32 = (r + 0x8000) >> 16;
    if f.to_i32() as i64 != to_i32 && fits_i32(((r + 0x8000) as i128) & !0xFFFF) {
        fail("Fixed::to_i32", format!("got {} want {}", f.to_i32(), to_i32));
    }
    let to26 = (r + 0x200) >> 10;
    if f.to_f26dot6().to_bits() as i64 != to26 && r + 0x200 <= i32::MAX as i64 {
        fail("Fixed::to_f26dot6", format!("got {} want {}", f.to_f26dot6().to_bits(), to26));
    }
    let to214 = (r + 2) >> 2;
    if to214 >= i16::MIN as i64 && to214 <= i16::MAX as i64 && f.to_f2dot14().to_bits() as i64 != to214 {
        fail("Fixed::to_f2dot14", format!("got {} want {}", f.to_f2dot14().to_bits(), to214));
    }
    let g_i32 = (r + 32) >> 6;
    if g.to_i32() as i64 != g_i32 && r + 32 <= i32::MAX as i64 {
        fail("F26Dot6::to_i32", format!("got {} want {}", g.to_i32(), g_i32));
    }
    // round/floor/fract
    if r + 0x8000 <= i32::MAX as i64 && f.round().to_bits() as i64 != (r + 0x8000) & !0xFFFF {
        fail("Fixed::round", format!("got {}", f.round().to_bits()));
    }
    if f.floor().to_bits() != raw & !0xFFFF || f.fract().to_bits() != raw & 0xFFFF {
        fail("Fixed::floor/fract", "wrong".into());
    }
    if g.floor().to_bits() != raw & !0x3F || g.fract().to_bits() != raw & 0x3F {
        fail("F26Dot6::floor/fract", "wrong".into());
    }
    if raw != i32::MIN && (f.abs().to_bits() != raw.abs() || (-f).to_bits() != -raw) {
        fail("Fixed::abs/neg", "wrong".into());
    }
    // F26Dot6: round, abs, neg, from_i32 (representable only), to_f32 = nearest f32 of the exact value
    if r + 32 <= i32::MAX as i64 && g.round().to_bits() as i64 != (r + 32) & !0x3F {
        fail("F26Dot6::round", format!("got {}", g.round().to_bits()));
    }
    if raw != i32::MIN && (g.abs().to_bits() != raw.abs() || (-g).to_bits() != -raw) {
        fail("F26Dot6::abs/neg", "wrong".into());
    }
    let hi26 = raw >> 6;
    if F26Dot6::from_i32(hi26).to_bits() != hi26 << 6 || F26Dot6::from_i32(hi26).to_i32() != hi26 {
        fail("F26Dot6::from_i32", "wrong".into());
    }
    if g.to_f32() != (raw as f64 / 64.0) as f32 {
        fail("F26Dot6::to_f32", format!("{}", g.to_f32()));
    }
    // MajorMinor, Nullable<Offset32>, 64-bit scalars: every byte pattern round trips field by field
    let mm = <MajorMinor as Scalar>::from_raw(bytes);
    if mm.major != (raw as u32 >> 16) as u16 || mm.minor != raw as u16 || mm.to_raw() != bytes || mm.to_be_bytes() != bytes || mm != MajorMinor::new((raw as u32 >> 16) as u16, raw as u16) {
        fail("MajorMinor::raw", format!("got {}.{}", mm.major, mm.minor));
    }
    let noff = <Nullable<Offset32> as Scalar>::from_raw(bytes);
    if noff.is_null() != (raw == 0) || noff.to_raw() != bytes || *noff.offset() != off || !(noff == raw as u32) || !(off == raw as u32) || (off == (raw as u32).wrapping_add(1)) {
        fail("Nullable<Offset32>", "null test / u32 comparison / bytes wrong".into());
    }
    let wide = ((raw as i64) << 32) | (!raw as u32 as i64).rotate_left(7);
    let ldt = <LongDateTime as Scalar>::from_raw(wide.to_be_bytes());
    if ldt.as_secs() != wide || ldt.to_be_bytes() != wide.to_be_bytes() || ldt != LongDateTime::new(wide) || <i64 as Scalar>::from_raw(wide.to_be_bytes()) != wide {
        fail("LongDateTime/i64 raw", "bytes do not round trip".into());
    }
    let o = !raw;
    if !(be_api::<Fixed>(f, Fixed::from_bits(o), 4)
        && be_api::<i32>(raw, o, 4)
        && be_api::<u32>(raw as u32, o as u32, 4)
        && be_api::<Tag>(tag, Tag::from_u32(o as u32), 4)
        && be_api::<Offset32>(off, Offset32::new(o as u32), 4)
        && be_api::<Version16Dot16>(ver, <Version16Dot16 as Scalar>::from_raw(o.to_be_bytes()), 4)
        && be_api::<MajorMinor>(mm, <MajorMinor as Scalar>::from_raw(o.to_be_bytes()), 4)
        && be_api::<LongDateTime>(ldt, LongDateTime::new(!wide), 8)
        && be_api::<i64>(wide, !wide, 8))
    {
        fail("BigEndian/Scalar API (32/64-bit)", "new/from/set/get/be_bytes/from_slice/read disagree".into());
    }
    // from_i32 (representable only)
    let hi = raw >> 16;
    if Fixed::from_i32(hi).to_bits() != hi << 16 || Fixed::from(hi) != Fixed::from_i32(hi) {
        fail("Fixed::from_i32", "wrong".into());
    }
    // outcome digests are recorded only for values whose low half is a boundary value: the thorough
    // tier sweeps all 2^32 patterns and must not hold 2^32 digests in memory
    if matches!(raw as u32 & 0xFFFF, 0 | 1 | 0x7FFF | 0x8000 | 0x8001 | 0xFFFF) || (raw as u32) < 0x1_0000 {
        let mut h = Fnv::new();
        h.str("u32");
        h.i64(f.to_i32() as i64);
        h.i64(f.to_f2dot14().to_bits() as i64);
        l.all.insert(h.finish());
        if raw != 0 {
            l.nontrivial.insert(h.finish());
        }
    }
    ok
}

fn unary32(run: &Run) {
    match run.tier {
        Tier::Thorough => {
            run.bound("unary32", json!("all 2^32 bit patterns"));
            let chunks = 1usize << 16;
            let results: Vec<Local> = (0..chunks)
                .into_par_iter()
                .map(|hi| {
                    let mut l = Local { all: HashSet::new(), nontrivial: HashSet::new() };
                    let mut okc = true;
                    for lo in 0..(1u32 << 16) {
                        let raw = (((hi as u32) << 16) | lo) as i32;
                        if okc {
                            okc = check_unary32(run, raw, &mut l);
                        } else {
                            // after a first failure in this chunk keep counting but do not flood
                            let mut l2 = Local { all: HashSet::new(), nontrivial: HashSet::new() };
                            let _ = &mut l2;
                        }
                    }
                    run.evals(1 << 16);
                    run.trans(30 << 16);
                    l
                })
                .collect();
            for l in results {
                run.observe_many(&l.all, &l.nontrivial);
            }
            run.count("unary32_patterns", 1u64 << 32);
        }
        Tier::Quick => {
            // boundary set: every value whose low 10 bits or high 10 bits vary around each boundary:
            // {b + d : b in W, |d| <= 2048} plus all values with zero low half and all with zero high half
            let w = alphabet();
            run.bound("unary32", json!("W +/- 2048, all 0xHHHHllll for 26 low halves around 0, 2^5, 2^6, 2^9, 2^10, 2^15, 2^16 - 2^9, 2^16, all 0x0000LLLL"));
            let results: Vec<Local> = w
                .par_iter()
                .map(|&b| {
                    let mut l = Local { all: HashSet::new(), nontrivial: HashSet::new() };
                    let mut n = 0u64;
                    for d in -2048i64..=2048 {
                        let v = b as i64 + d;
                        if v >= i32::MIN as i64 && v <= i32::MAX as i64 {
                            check_unary32(run, v as i32, &mut l);
                            n += 1;
                        }
                    }
                    run.evals(n);
                    run.trans(30 * n);
                    l
                })
                .collect();
            for l in results {
                run.observe_many(&l.all, &l.nontrivial);
            }
            let results: Vec<Local> = (0..(1u32 << 16))
                .into_par_iter()
                .map(|h| {
                    let mut l = Local { all: HashSet::new(), nontrivial: HashSet::new() };
                    for lo in [0u32, 1, 2, 3, 0x1F, 0x20, 0x21, 0x3F, 0x40, 0x1FF, 0x200, 0x201, 0x3FF, 0x400, 0x7FFE, 0x7FFF, 0x8000, 0x8001, 0x8002, 0xFDFF, 0xFE00, 0xFFDF, 0xFFE0, 0xFFFD, 0xFFFE, 0xFFFF] {
                        check_unary32(run, ((h << 16) | lo) as i32, &mut l);
                    }
                    check_unary32(run, h as i32, &mut l);
                    run.evals(27);
                    run.trans(30 * 27);
                    l
                })
                .collect();
            for l in results {
                run.observe_many(&l.all, &l.nontrivial);
            }
        }
    }
    run.sample(json!({"op":"unary32","a":0x7FFF_8000}));
}

fn ot_round(run: &Run) {
    // quarter grid: x = k/4 exactly representable, x + 0.5 exact => floor(x + 1/2) exact reference
    // |x| <= 2^16 + 2: the whole i16 and u16 result ranges and a margin beyond
    let lim: i64 = 4 * (1 << 16) + 8;
    let mut l = Local { all: HashSet::new(), nontrivial: HashSet::new() };
    for k in -lim..=lim {
        let x = k as f64 / 4.0;
        let want = (2 * k + 4).div_euclid(8); // floor((k/4) + 1/2) = floor((2k+4)/8)
        let r64: f64 = x.ot_round();
        let r32: f32 = (x as f32).ot_round();
        if r64 != want as f64 || r32 != want as f32 {
            run.violation(&format!("OtRound f64/f32 k={k}"), &format!("x={x} got {r64}/{r32} want {want}"), json!({"op":"ot_round","k":k}));
        }
        if want >= i16::MIN as i64 && want <= i16::MAX as i64 {
            let a: i16 = x.ot_round();
            let b: i16 = (x as f32).ot_round();
            if a as i64 != want || b as i64 != want {
                run.violation(&format!("OtRound i16 k={k}"), &format!("x={x} got {a}/{b} want {want}"), json!({"op":"ot_round_i16","k":k}));
            }
            let p: (i16, i16) = kurbo::Point::new(x, -x).ot_round();
            let want_neg = (-2 * k + 4).div_euclid(8);
            if p.0 as i64 != want || (want_neg >= i16::MIN as i64 && want_neg <= i16::MAX as i64 && p.1 as i64 != want_neg) {
                run.violation(&format!("OtRound Point k={k}"), &format!("x={x} got {p:?}"), json!({"op":"ot_round_pt","k":k}));
            }
        }
        if want >= 0 && want <= u16::MAX as i64 {
            let a: u16 = x.ot_round();
            let b: u16 = (x as f32).ot_round();
            if a as i64 != want || b as i64 != want {
                run.violation(&format!("OtRound u16 k={k}"), &format!("x={x} got {a}/{b} want {want}"), json!({"op":"ot_round_u16","k":k}));
            }
        }
        // different components, so that a swapped / duplicated component is visible
        let v: kurbo::Vec2 = kurbo::Vec2::new(x, -x).ot_round();
        if v.x != want as f64 || v.y != (-2 * k + 4).div_euclid(8) as f64 {
            run.violation(&format!("OtRound Vec2 k={k}"), "wrong", json!({"op":"ot_round_vec","k":k}));
        }
        // one-ulp neighbours of the ties, where x + 0.5 is still exact (|n| >= 1)
        if k.rem_euclid(4) == 2 && k.abs() >= 6 {
            let n = (k - 2).div_euclid(4); // x = n + 0.5
            let (lo, hi) = (x.next_down(), x.next_up());
            let rlo: f64 = lo.ot_round();
            let rhi: f64 = hi.ot_round();
            if rlo != n as f64 || rhi != (n + 1) as f64 {
                run.violation(&format!("OtRound ulp k={k}"), &format!("{lo}->{rlo} {hi}->{rhi} n={n}"), json!({"op":"ot_round_ulp","k":k}));
            }
        }
        let mut h = Fnv::new();
        h.str("otr");
        h.i64(want);
        l.all.insert(h.finish());
        if k % 4 != 0 {
            l.nontrivial.insert(h.finish());
        }
    }
    run.observe_many(&l.all, &l.nontrivial);
    run.evals((2 * lim + 1) as u64);
    run.trans((2 * lim + 1) as u64 * 8);
    run.sample(json!({"op":"ot_round","x":-0.5,"want":0}));
}
