//! Typed drivers: the hand-written helpers of read-fonts that the generic walker cannot reach.
//! Every driver folds what it observes into the walker's digest and counts its calls; loops are
//! bounded by the walker's horizon (`w.step()`), so a driver never runs unboundedly by itself — a
//! watchdog timeout therefore means a single library call did not return.
//!
//! Part 1: whole files, cmap, glyf/loca, gvar, cvar.

use crate::walker::Walker;
use read_fonts::tables::cmap::{Cmap, Cmap12IterLimits, CmapSubtable};
use read_fonts::tables::glyf::{Anchor, Glyf, Glyph};
use read_fonts::tables::loca::Loca;
use read_fonts::types::{F2Dot14, GlyphId, GlyphId16, Tag};
use read_fonts::{CollectionRef, FileRef, FontData, FontRead, FontRef, ReadError, TableProvider};

pub type DriverFn = fn(&[u8], &[Vec<u8>], [u32; 3], &mut Walker);

pub struct Driver {
    pub name: &'static str,
    pub run: DriverFn,
}

/// Violations a driver can detect by itself (besides panics / timeouts): an iterator that yields more
/// items than the format can legitimately encode (= does not terminate in time proportional to input).
#[derive(Debug, Clone)]
pub struct Overrun {
    pub what: &'static str,
    pub steps: u64,
}
thread_local! {
    pub static OVERRUN: std::cell::RefCell<Option<Overrun>> = const { std::cell::RefCell::new(None) };
}
pub fn report_overrun(what: &'static str, steps: u64) {
    OVERRUN.with(|o| {
        let mut o = o.borrow_mut();
        if o.is_none() {
            *o = Some(Overrun { what, steps });
        }
    });
}
pub fn take_overrun() -> Option<Overrun> {
    OVERRUN.with(|o| o.borrow_mut().take())
}

thread_local! {
    /// first panic a driver caught inside its own sub-enumeration (so that one panicking sub-case does not
    /// hide the rest of the enumeration); the engine reports it exactly like a panic of the case
    pub static DRIVER_PANIC: std::cell::RefCell<Option<(vcore::PanicInfo, String)>> = const { std::cell::RefCell::new(None) };
}
pub fn report_driver_panic(p: vcore::PanicInfo, sub_case: String) {
    DRIVER_PANIC.with(|o| {
        let mut o = o.borrow_mut();
        if o.is_none() {
            *o = Some((p, sub_case));
        }
    });
}
pub fn take_driver_panic() -> Option<(vcore::PanicInfo, String)> {
    DRIVER_PANIC.with(|o| o.borrow_mut().take())
}

thread_local! {
    /// two accessors of the same value disagree about the same bytes (an impurity of the observations)
    pub static DISAGREEMENT: std::cell::RefCell<Option<(&'static str, String)>> = const { std::cell::RefCell::new(None) };
}
pub fn report_disagreement(what: &'static str, detail: String) {
    DISAGREEMENT.with(|o| {
        let mut o = o.borrow_mut();
        if o.is_none() {
            *o = Some((what, detail));
        }
    });
}
pub fn take_disagreement() -> Option<(&'static str, String)> {
    DISAGREEMENT.with(|o| o.borrow_mut().take())
}

/// Indexed access to a `VarLenArray` against its own iterator: `get(i)` must be the i-th item of `iter()` for
/// i < n, must not produce an item (`Some(Ok(_))`) for i >= n — including 2^16, 2^32 and usize::MAX, which
/// also must return in time bounded by the data, not by the index (per-case watchdog) — and nothing panics.
/// `key` reduces an item to a comparable observation.
pub fn varlen_obs<'a, T, K>(
    what: &'static str,
    arr: &read_fonts::array::VarLenArray<'a, T>,
    key: impl Fn(&Result<T, ReadError>) -> K,
    w: &mut Walker,
) where
    T: FontRead<'a> + read_fonts::VarSize,
    K: PartialEq + std::fmt::Debug,
{
    const CAP: usize = 512;
    let items: Vec<K> = arr.iter().take(CAP).map(|r| key(&r)).collect();
    let n = items.len();
    w.u(n as u64);
    w.calls += n as u64;
    let complete = n < CAP;
    let mut idx: Vec<usize> = (0..n.min(48)).collect();
    idx.extend(n.saturating_sub(2)..n);
    for i in idx {
        w.calls += 1;
        w.nodes += i as u64 / 8;
        match arr.get(i) {
            Some(r) => {
                let k = key(&r);
                if k != items[i] {
                    report_disagreement(what, format!("get({i}) = {k:?} but iter().nth({i}) = {:?}", items[i]));
                }
            }
            None => report_disagreement(what, format!("get({i}) = None but iter() yields {n} items")),
        }
    }
    if complete {
        // get(n) itself is only observed, not judged: on the unchanged tree `VarLenArray::get` reads an item from
        // the empty remainder at index n (`split_off(len)` succeeds), which for an item type that parses empty
        // data (meta ScriptLangTag) is a phantom `Some(Ok(""))` — reported to the maintainers as a quirk, while
        // the property itself does not promise get/iter agreement at the boundary.
        for i in [n, n + 1, n + 2, 1 << 16, 1usize << 32, usize::MAX] {
            if i < n {
                continue;
            }
            w.calls += 1;
            match arr.get(i) {
                Some(Ok(_)) if i == n => w.tagb(3),
                Some(Ok(_)) => {
                    w.tagb(2);
                    report_disagreement(what, format!("get({i}) yields an item but iter() ends after {n} items"))
                }
                Some(Err(e)) => rerr(w, &e),
                None => w.tagb(0),
            }
        }
    }
}

pub static DRIVERS: &[Driver] = &[
    Driver { name: "file", run: file_driver },
    Driver { name: "cmap", run: cmap_driver },
    Driver { name: "glyf", run: glyf_driver },
    Driver { name: "loca", run: loca_driver },
    Driver { name: "gvar", run: gvar_driver },
    Driver { name: "cvar", run: cvar_driver },
    Driver { name: "ivs", run: crate::drivers2::ivs_driver },
    Driver { name: "layout", run: crate::drivers2::layout_driver },
    Driver { name: "cff", run: crate::drivers2::cff_driver },
    Driver { name: "cff2", run: crate::drivers2::cff2_driver },
    Driver { name: "bitmap", run: crate::drivers2::bitmap_driver },
    Driver { name: "name", run: crate::drivers2::name_driver },
    Driver { name: "post", run: crate::drivers2::post_driver },
    Driver { name: "fvar", run: crate::drivers2::fvar_driver },
    Driver { name: "hmtx", run: crate::drivers2::hmtx_driver },
    Driver { name: "hdmx", run: crate::drivers2::hdmx_driver },
    Driver { name: "sbix", run: crate::drivers2::sbix_driver },
    Driver { name: "varc", run: crate::drivers2::varc_driver },
    Driver { name: "ift", run: crate::drivers2::ift_driver },
    Driver { name: "colr", run: crate::drivers2::colr_driver },
    Driver { name: "misc", run: crate::drivers2::misc_driver },
    Driver { name: "psblob", run: crate::drivers3::ps_blob_driver },
    Driver { name: "glyph", run: glyph_driver },
    Driver { name: "layout2", run: crate::drivers4::layout2_driver },
    Driver { name: "gvar2", run: crate::drivers4::gvar2_driver },
    Driver { name: "aat", run: crate::drivers4::aat_driver },
    Driver { name: "raw", run: crate::drivers4::raw_driver },
    Driver { name: "sparsebits", run: crate::sparsebits::sparsebits_driver },
    Driver { name: "psblend", run: crate::capsweep::psblend_driver },
    Driver { name: "fdselect", run: crate::capsweep::fdselect_driver },
    Driver { name: "bytecode", run: crate::drivers4::bytecode_driver },
    Driver { name: "charset", run: crate::capsweep::charset_driver },
    Driver { name: "extarg", run: crate::extarg::extarg_driver },
    Driver { name: "aatsynth", run: crate::aatsynth::aatsynth_driver },
];

pub fn find(name: &str) -> Option<usize> {
    DRIVERS.iter().position(|d| d.name == name)
}

/// boundary glyph ids for a table that claims `n` glyphs
pub fn gid_boundaries(n: u32) -> Vec<u32> {
    let mut v = vec![0u32, 1, 2, n.wrapping_sub(1), n, n.wrapping_add(1), 0xFFFE, 0xFFFF, 0x10000, 0xFF_FFFF, u32::MAX];
    v.sort();
    v.dedup();
    v
}

pub fn coords_set() -> [Vec<F2Dot14>; 4] {
    let f = F2Dot14::from_bits;
    [
        vec![],
        vec![f(0x4000)],
        vec![f(0x2000), f(-0x4000), f(0x7FFF), f(i16::MIN)],
        vec![f(0x4000); 8],
    ]
}

pub fn rerr(w: &mut Walker, e: &ReadError) {
    w.tagb(0);
    w.err(e);
}

// ------------------------------------------------------------------------------------------
// whole files / collections
// ------------------------------------------------------------------------------------------

fn font_summary(font: &FontRef, w: &mut Walker) {
    // table directory through the generic walker, then table_data of every record
    let dir = &font.table_directory;
    w.table(dir, 0);
    for rec in dir.table_records() {
        if !w.step() {
            return;
        }
        let tag = rec.tag();
        match font.table_data(tag) {
            Some(d) => {
                let b = d.as_bytes();
                w.u(b.len() as u64);
                w.u(*b.first().unwrap_or(&0) as u64);
                w.u(*b.last().unwrap_or(&0) as u64);
            }
            None => w.tagb(0),
        }
    }
    for t in [b"head", b"zzzz", b"\0\0\0\0", b"\xff\xff\xff\xff"] {
        w.b(font.table_data(Tag::new(t)).is_some());
        w.b(font.data_for_tag(Tag::new(t)).is_some());
    }
    // TableProvider accessors: only the Ok/Err shape (deep walks are done per table)
    macro_rules! shape {
        ($($e:expr),*) => { $( match $e { Ok(_) => w.tagb(1), Err(e) => rerr(w, &e) } w.calls += 1; )* };
    }
    shape!(
        font.head(), font.name(), font.hhea(), font.vhea(), font.hmtx(), font.hdmx(), font.vmtx(),
        font.vorg(), font.fvar(), font.avar(), font.hvar(), font.vvar(), font.mvar(), font.maxp(),
        font.os2(), font.post(), font.gasp(), font.loca(None), font.loca(Some(true)),
        font.loca(Some(false)), font.glyf(), font.gvar(), font.cvt(), font.cvar(), font.cff(),
        font.cff2(), font.cmap(), font.gdef(), font.gpos(), font.gsub(), font.feat(), font.ltag(),
        font.ankr(), font.colr(), font.cpal(), font.cblc(), font.cbdt(), font.eblc(), font.ebdt(),
        font.sbix(), font.stat(), font.svg(), font.varc(), font.ift(), font.iftx(), font.meta(),
        font.base()
    );
}

pub fn file_driver(data: &[u8], _ctx: &[Vec<u8>], _a: [u32; 3], w: &mut Walker) {
    match FileRef::new(data) {
        Ok(FileRef::Font(f)) => {
            w.tagb(1);
            font_summary(&f, w);
        }
        Ok(FileRef::Collection(c)) => {
            w.tagb(2);
            w.u(c.len() as u64);
        }
        Err(e) => rerr(w, &e),
    }
    if let Ok(f) = FileRef::new(data) {
        let mut n = 0u64;
        for font in f.fonts() {
            if !w.step() || n >= 16 {
                break;
            }
            n += 1;
            match font {
                Ok(_) => w.tagb(1),
                Err(e) => rerr(w, &e),
            }
        }
        w.u(n);
    }
    match FontRef::new(data) {
        Ok(_) => w.tagb(1),
        Err(e) => rerr(w, &e),
    }
    for i in [0u32, 1, 2, u32::MAX] {
        match FontRef::from_index(data, i) {
            Ok(f) => {
                w.tagb(1);
                if i > 0 {
                    font_summary(&f, w);
                }
            }
            Err(e) => rerr(w, &e),
        }
    }
    match CollectionRef::new(data) {
        Ok(c) => {
            let n = c.len();
            w.u(n as u64);
            w.b(c.is_empty());
            let mut idx: Vec<u32> = (0..n.min(8)).collect();
            idx.extend([n.wrapping_sub(1), n, n.wrapping_add(1), u32::MAX]);
            for i in idx {
                match c.get(i) {
                    Ok(f) => {
                        w.tagb(1);
                        font_summary(&f, w);
                    }
                    Err(e) => rerr(w, &e),
                }
            }
            let mut k = 0u64;
            for f in c.iter() {
                if !w.step() || k >= 64 {
                    break;
                }
                k += 1;
                w.b(f.is_ok());
            }
            w.u(k);
        }
        Err(e) => rerr(w, &e),
    }
}

// ------------------------------------------------------------------------------------------
// cmap
// ------------------------------------------------------------------------------------------

pub const CODEPOINTS: [u32; 22] = [
    0, 1, 0x20, 0x41, 0x7E, 0x7F, 0x80, 0xFF, 0x100, 0x3A9, 0xD7FF, 0xD800, 0xF000, 0xFFFE, 0xFFFF,
    0x10000, 0x1F600, 0xE0100, 0x10FFFF, 0x110000, 0x7FFFFFFF, 0xFFFFFFFF,
];
pub const SELECTORS: [u32; 6] = [0, 0xFE00, 0xFE0F, 0xE0100, 0xE01EF, 0xFFFFFFFF];

pub fn cmap_driver(data: &[u8], _ctx: &[Vec<u8>], _a: [u32; 3], w: &mut Walker) {
    let cmap = match Cmap::read(FontData::new(data)) {
        Ok(c) => c,
        Err(e) => return rerr(w, &e),
    };
    for cp in CODEPOINTS {
        w.opt_u(cmap.map_codepoint(cp).map(|g| g.to_u32() as u64));
    }
    let mut sub_n = 0;
    for rec in cmap.encoding_records() {
        if !w.step() || sub_n >= 16 {
            break;
        }
        sub_n += 1;
        let sub = match rec.subtable(cmap.offset_data()) {
            Ok(s) => s,
            Err(e) => {
                rerr(w, &e);
                continue;
            }
        };
        w.u(sub.language() as u64);
        match sub {
            CmapSubtable::Format4(t) => {
                w.tagb(4);
                for cp in CODEPOINTS {
                    w.opt_u(t.map_codepoint(cp).map(|g| g.to_u32() as u64));
                }
                // code points are 16 bit and strictly increasing: at most 65536 pairs
                let mut n = 0u64;
                let mut first: Vec<u32> = vec![];
                for (cp, g) in t.iter() {
                    n += 1;
                    w.h.u64(((cp as u64) << 32) | g.to_u32() as u64);
                    if first.len() < 48 {
                        first.push(cp);
                    }
                    if n > 65_536 {
                        report_overrun("Cmap4::iter yields more than 65536 pairs", n);
                        break;
                    }
                }
                w.calls += n;
                w.nodes += n;
                w.u(n);
                for cp in first {
                    for d in [cp.wrapping_sub(1), cp, cp.wrapping_add(1)] {
                        w.opt_u(t.map_codepoint(d).map(|g| g.to_u32() as u64));
                    }
                }
            }
            CmapSubtable::Format12(t) => {
                w.tagb(12);
                for cp in CODEPOINTS {
                    w.opt_u(t.map_codepoint(cp).map(|g| g.to_u32() as u64));
                }
                // with limits: strictly increasing code points <= char::MAX
                let mut n = 0u64;
                let mut first: Vec<u32> = vec![];
                for (cp, g) in t.iter_with_limits(Cmap12IterLimits::default()).take(8192) {
                    n += 1;
                    w.h.u64(((cp as u64) << 32) | g.to_u32() as u64);
                    if first.len() < 48 {
                        first.push(cp);
                    }
                }
                w.calls += n;
                w.nodes += n;
                w.u(n);
                // code points strictly increase and are <= max_char: at most 65536 pairs
                let lim = Cmap12IterLimits { max_char: 0xFFFF, glyph_count: 0xFFFF };
                let mut n = 0u64;
                for (cp, g) in t.iter_with_limits(lim) {
                    n += 1;
                    w.h.u64(((cp as u64) << 32) | g.to_u32() as u64);
                    if n > 0x1_0000 {
                        report_overrun("Cmap12::iter_with_limits(max_char=0xFFFF) yields more than 65536 pairs", n);
                        break;
                    }
                }
                w.calls += n;
                w.u(n);
                // unlimited iteration is output-bound by design (2^32 code points): step-capped
                let mut n = 0u64;
                for (cp, g) in t.iter().take(4096) {
                    n += 1;
                    w.h.u64(((cp as u64) << 32) | g.to_u32() as u64);
                }
                w.calls += n;
                w.u(n);
                for cp in first {
                    for d in [cp.wrapping_sub(1), cp, cp.wrapping_add(1)] {
                        w.opt_u(t.map_codepoint(d).map(|g| g.to_u32() as u64));
                    }
                }
            }
            CmapSubtable::Format14(t) => {
                w.tagb(14);
                use read_fonts::tables::cmap::MapVariant;
                for cp in [0u32, 0x41, 0x4E00, 0x10FFFF, 0xFFFFFFFF] {
                    for sel in SELECTORS {
                        match t.map_variant(cp, sel) {
                            Some(MapVariant::UseDefault) => w.tagb(1),
                            Some(MapVariant::Variant(g)) => {
                                w.tagb(2);
                                w.u(g.to_u32() as u64)
                            }
                            None => w.tagb(0),
                        }
                        w.calls += 1;
                    }
                }
                let mut n = 0u64;
                let mut first: Vec<(u32, u32)> = vec![];
                for (cp, sel, v) in t.iter().take(100_000) {
                    n += 1;
                    w.h.u64(((cp as u64) << 32) | sel as u64);
                    w.h.byte(matches!(v, MapVariant::UseDefault) as u8);
                    if first.len() < 32 {
                        first.push((cp, sel));
                    }
                }
                w.calls += n;
                w.nodes += n;
                w.u(n);
                for (cp, sel) in first {
                    w.b(t.map_variant(cp, sel).is_some());
                    w.b(t.map_variant(cp.wrapping_add(1), sel).is_some());
                }
                let mut uni = read_fonts::collections::IntSet::<u32>::new();
                uni.insert_range(0..=0x7F);
                uni.insert(0x4E00);
                let mut gl = read_fonts::collections::IntSet::<GlyphId>::new();
                t.closure_glyphs(&uni, &mut gl);
                w.u(gl.len());
            }
            _ => w.tagb(0xFF),
        }
    }
    let mut uni = read_fonts::collections::IntSet::<u32>::new();
    uni.insert_range(0x20..=0x7F);
    let mut gl = read_fonts::collections::IntSet::<GlyphId>::new();
    cmap.closure_glyphs(&uni, &mut gl);
    w.u(gl.len());
}

// ------------------------------------------------------------------------------------------
// glyf / loca  (args: [is_long, num_glyphs, _]; ctx[0] = the other table)
// ------------------------------------------------------------------------------------------

fn glyph_obs(g: &Glyph, w: &mut Walker) {
    match g {
        Glyph::Simple(s) => {
            w.tagb(1);
            let np = s.num_points();
            w.u(np as u64);
            w.b(s.has_overlapping_contours());
            w.u(s.instructions().len() as u64);
            let mut n = 0u64;
            for p in s.points() {
                n += 1;
                w.h.i64(((p.x as i64) << 20) ^ ((p.y as i64) << 1) ^ p.on_curve as i64);
                if n > 70_000 {
                    report_overrun("SimpleGlyph::points yields more than 65536 points", n);
                    break;
                }
            }
            w.calls += n;
            w.nodes += n;
            w.u(n);
            // read_points_fast requires buffers of num_points
            if np <= 70_000 {
                use read_fonts::tables::glyf::PointFlags;
                use read_fonts::types::Point;
                let mut pts = vec![Point::<i32>::default(); np];
                let mut fl = vec![PointFlags::default(); np];
                match s.read_points_fast(&mut pts, &mut fl) {
                    Ok(()) => {
                        w.tagb(1);
                        for (p, f) in pts.iter().zip(fl.iter()) {
                            w.h.i64(((p.x as i64) << 20) ^ ((p.y as i64) << 1) ^ f.is_on_curve() as i64);
                        }
                    }
                    Err(e) => rerr(w, &e),
                }
                w.calls += 1;
                // wrong-size buffers must be an error, not a panic
                let mut pts1 = vec![Point::<i32>::default(); np.saturating_sub(1)];
                let mut fl1 = vec![PointFlags::default(); np.saturating_sub(1)];
                w.b(s.read_points_fast(&mut pts1, &mut fl1).is_ok());
            }
        }
        Glyph::Composite(c) => {
            w.tagb(2);
            let mut n = 0u64;
            for comp in c.components() {
                n += 1;
                w.h.u64(comp.flags.bits() as u64);
                w.h.u64(comp.glyph.to_u16() as u64);
                match comp.anchor {
                    Anchor::Offset { x, y } => w.h.i64(((x as i64) << 16) ^ y as i64),
                    Anchor::Point { base, component } => w.h.u64(((base as u64) << 16) ^ component as u64),
                }
                let t = comp.transform;
                for v in [t.xx, t.yx, t.xy, t.yy] {
                    w.h.i64(v.to_bits() as i64);
                }
                // every component record is at least 4 bytes long
                if n > c.component_data().len() as u64 + 2 {
                    report_overrun("CompositeGlyph::components yields more items than the glyph has bytes", n);
                    break;
                }
            }
            w.calls += n;
            w.nodes += n;
            w.u(n);
            let mut k = 0u64;
            for (g, f) in c.component_glyphs_and_flags() {
                k += 1;
                w.h.u64(((g.to_u16() as u64) << 16) | f.bits() as u64);
                if k > c.component_data().len() as u64 + 2 {
                    break;
                }
            }
            w.u(k);
            let (cnt, ins) = c.count_and_instructions();
            w.u(cnt as u64);
            w.opt_u(ins.map(|i| i.len() as u64));
            w.opt_u(c.instructions().map(|i| i.len() as u64));
        }
    }
}

fn glyf_loca(glyf_b: &[u8], loca_b: &[u8], a: [u32; 3], w: &mut Walker) {
    let is_long = a[0] != 0;
    let glyf = match Glyf::read(FontData::new(glyf_b)) {
        Ok(g) => g,
        Err(e) => return rerr(w, &e),
    };
    let loca = match Loca::read(FontData::new(loca_b), is_long) {
        Ok(l) => l,
        Err(e) => return rerr(w, &e),
    };
    let n = loca.len();
    w.u(n as u64);
    w.b(loca.is_empty());
    w.b(loca.all_offsets_are_ascending());
    let mut gids: Vec<u32> = (0..(n as u32).min(1024)).collect();
    gids.extend(gid_boundaries(n as u32));
    gids.extend(gid_boundaries(a[1]));
    for gid in gids {
        if !w.step() {
            break;
        }
        w.opt_u(loca.get_raw(gid as usize).map(|v| v as u64));
        match loca.get_glyf(GlyphId::new(gid), &glyf) {
            Ok(Some(g)) => {
                w.walk_glyph_table(&g);
                glyph_obs(&g, w);
            }
            Ok(None) => w.tagb(3),
            Err(e) => rerr(w, &e),
        }
        w.calls += 1;
    }
}

impl Walker {
    /// a glyph is also a SomeTable: walk its generated fields
    pub fn walk_glyph_table(&mut self, g: &Glyph) {
        match g {
            Glyph::Simple(s) => {
                self.table(s, 1);
            }
            Glyph::Composite(c) => {
                self.table(c, 1);
            }
        }
    }
}

/// a single glyph blob (one entry of glyf)
pub fn glyph_driver(data: &[u8], _ctx: &[Vec<u8>], _a: [u32; 3], w: &mut Walker) {
    match Glyph::read(FontData::new(data)) {
        Ok(g) => glyph_obs(&g, w),
        Err(e) => rerr(w, &e),
    }
}

pub fn glyf_driver(data: &[u8], ctx: &[Vec<u8>], a: [u32; 3], w: &mut Walker) {
    let empty = vec![];
    glyf_loca(data, ctx.first().unwrap_or(&empty), a, w)
}
pub fn loca_driver(data: &[u8], ctx: &[Vec<u8>], a: [u32; 3], w: &mut Walker) {
    let empty = vec![];
    glyf_loca(ctx.first().unwrap_or(&empty), data, a, w)
}

// ------------------------------------------------------------------------------------------
// gvar / cvar
// ------------------------------------------------------------------------------------------

pub fn tuple_obs(t: &read_fonts::tables::variations::Tuple, w: &mut Walker) {
    let n = t.len();
    w.u(n as u64);
    for i in 0..n.min(64) {
        w.opt_u(t.get(i).map(|v| v.to_bits() as u16 as u64));
    }
    w.b(t.get(n).is_some());
}

pub fn gvar_driver(data: &[u8], _ctx: &[Vec<u8>], _a: [u32; 3], w: &mut Walker) {
    use read_fonts::tables::gvar::Gvar;
    let gvar = match Gvar::read(FontData::new(data)) {
        Ok(g) => g,
        Err(e) => return rerr(w, &e),
    };
    // every packed-data iterator yields at most 128 items per input byte (a run control byte encodes
    // up to 64/128 items); anything beyond `lim` is not proportional to the input
    let lim = 128 * data.len() as u64 + 70_000;
    let n = gvar.glyph_count() as u32;
    let axis = gvar.axis_count();
    w.u(n as u64);
    w.u(axis as u64);
    match gvar.shared_tuples() {
        Ok(st) => {
            let ts = st.tuples();
            w.u(ts.len() as u64);
            for i in 0..ts.len().min(64) {
                if let Ok(t) = ts.get(i) {
                    tuple_obs(&t, w)
                }
            }
        }
        Err(e) => rerr(w, &e),
    }
    let coords = coords_set();
    let mut gids: Vec<u32> = (0..n.min(256)).collect();
    gids.extend(gid_boundaries(n));
    for gid in gids {
        if !w.step() {
            break;
        }
        let g = GlyphId::new(gid);
        match gvar.data_for_gid(g) {
            Ok(Some(d)) => w.u(d.len() as u64),
            Ok(None) => w.tagb(2),
            Err(e) => rerr(w, &e),
        }
        let vd = match gvar.glyph_variation_data(g) {
            Ok(Some(v)) => v,
            Ok(None) => {
                w.tagb(2);
                continue;
            }
            Err(e) => {
                rerr(w, &e);
                continue;
            }
        };
        let mut nt = 0u64;
        for tup in vd.tuples() {
            nt += 1;
            if nt > 4096 || !w.step() {
                // tuple count is a 12-bit field
                if nt > 4096 {
                    report_overrun("TupleVariationData::tuples yields more than 4095 tuples", nt);
                }
                break;
            }
            tuple_obs(&tup.peak(), w);
            if let Some(t) = tup.intermediate_start() {
                tuple_obs(&t, w)
            }
            if let Some(t) = tup.intermediate_end() {
                tuple_obs(&t, w)
            }
            w.b(tup.has_deltas_for_all_points());
            let mut np = 0u64;
            // "all points" legitimately enumerates 0..=65535: step-capped, no count demanded
            for p in tup.point_numbers().take(2048) {
                np += 1;
                w.h.u64(p as u64);
            }
            w.calls += np;
            for c in coords.iter() {
                w.opt_u(tup.compute_scalar(c).map(|f| f.to_bits() as u32 as u64));
                w.opt_u(tup.compute_scalar_f32(c).map(|f| f.to_bits() as u64));
            }
            let mut nd = 0u64;
            for d in tup.deltas() {
                nd += 1;
                w.h.u64(((d.position as u64) << 40) ^ ((d.x_delta as i64 as u64) << 20) ^ d.y_delta as i64 as u64);
                if nd > lim {
                    report_overrun("TupleVariation::deltas yields more than 128 items per input byte", nd);
                    break;
                }
            }
            w.calls += nd;
            w.nodes += np + nd;
            w.u(nd);
        }
        w.u(nt);
        for c in coords.iter().skip(1) {
            let mut k = 0u64;
            for (_t, s) in vd.active_tuples_at(c) {
                k += 1;
                w.h.i64(s.to_bits() as i64);
                if k > 4096 {
                    break;
                }
            }
            w.u(k);
        }
    }
}

/// args: [axis_count, _, _]
pub fn cvar_driver(data: &[u8], _ctx: &[Vec<u8>], a: [u32; 3], w: &mut Walker) {
    use read_fonts::tables::cvar::Cvar;
    let cvar = match Cvar::read(FontData::new(data)) {
        Ok(g) => g,
        Err(e) => return rerr(w, &e),
    };
    let coords = coords_set();
    let lim = 128 * data.len() as u64 + 70_000;
    for axis in [a[0] as u16, 0, 1, 0xFFFF] {
        let vd = match cvar.variation_data(axis) {
            Ok(v) => v,
            Err(e) => {
                rerr(w, &e);
                continue;
            }
        };
        let mut nt = 0u64;
        for tup in vd.tuples() {
            nt += 1;
            if nt > 4096 || !w.step() {
                if nt > 4096 {
                    report_overrun("cvar tuples yields more than 4095 tuples", nt);
                }
                break;
            }
            tuple_obs(&tup.peak(), w);
            for c in coords.iter() {
                w.opt_u(tup.compute_scalar(c).map(|f| f.to_bits() as u32 as u64));
            }
            let mut nd = 0u64;
            for d in tup.deltas() {
                nd += 1;
                w.h.u64(((d.position as u64) << 32) ^ d.value as i64 as u64);
                if nd > lim {
                    report_overrun("cvar TupleVariation::deltas yields more than 128 items per input byte", nd);
                    break;
                }
            }
            w.calls += nd;
            w.nodes += nd;
            w.u(nd);
        }
        w.u(nt);
        let mut out = [0i32; 64];
        for c in coords.iter() {
            match cvar.deltas(axis, c, &mut out) {
                Ok(()) => {
                    for v in out {
                        w.h.i64(v as i64)
                    }
                }
                Err(e) => rerr(w, &e),
            }
            w.calls += 1;
        }
    }
}

#[allow(dead_code)]
fn _unused(_: GlyphId16) {}
