//! Typed drivers, part 2: item variation stores, layout, name/post, fvar/avar, metrics, sbix.
//! (CFF/CFF2, bitmap, VARC, IFT, COLR and the small tables are in drivers3.rs.)

use crate::drivers::{coords_set, gid_boundaries, rerr, report_overrun};
use crate::walker::Walker;
use read_fonts::collections::IntSet;
use read_fonts::tables::layout::{ClassDef, CoverageTable};
use read_fonts::tables::variations::{DeltaSetIndex, DeltaSetIndexMap, ItemVariationStore};
use read_fonts::types::{Fixed, GlyphId, GlyphId16, Tag};
use read_fonts::{FontData, FontRead, FontReadWithArgs, ReadError};

pub use crate::drivers3::*;

fn tag_of(a: u32) -> [u8; 4] {
    a.to_be_bytes()
}

fn fixed_res(w: &mut Walker, r: Result<Fixed, ReadError>) {
    match r {
        Ok(v) => {
            w.tagb(1);
            w.i(v.to_bits() as i64)
        }
        Err(e) => rerr(w, &e),
    }
}

pub fn ivs_obs(ivs: &ItemVariationStore, w: &mut Walker) {
    let coords = coords_set();
    let n_outer = ivs.item_variation_data_count() as u32;
    w.u(n_outer as u64);
    let mut outers: Vec<u32> = (0..n_outer.min(8)).collect();
    outers.extend([n_outer.wrapping_sub(1), n_outer, 0xFFFF]);
    for outer in outers {
        let item_count = match ivs.item_variation_data().get(outer as usize) {
            Some(Ok(d)) => {
                w.u(d.get_delta_row_len() as u64);
                d.item_count() as u32
            }
            Some(Err(e)) => {
                rerr(w, &e);
                0
            }
            None => 0,
        };
        let mut inners: Vec<u32> = (0..item_count.min(16)).collect();
        inners.extend([item_count.wrapping_sub(1), item_count, 0xFFFF]);
        for inner in inners {
            if !w.step() {
                return;
            }
            let idx = DeltaSetIndex { outer: outer as u16, inner: inner as u16 };
            for c in coords.iter() {
                match ivs.compute_delta(idx, c) {
                    Ok(v) => w.i(v as i64),
                    Err(e) => rerr(w, &e),
                }
                match ivs.compute_float_delta(idx, c) {
                    Ok(v) => {
                        use read_fonts::tables::variations::FloatItemDeltaTarget;
                        w.f(Fixed::from_bits(0x10000).apply_float_delta(v) as f64)
                    }
                    Err(e) => rerr(w, &e),
                }
            }
        }
    }
    match ivs.variation_region_list() {
        Ok(rl) => {
            let regs = rl.variation_regions();
            w.u(regs.len() as u64);
            for i in 0..regs.len().min(32) {
                if let Ok(r) = regs.get(i) {
                    for c in coords.iter() {
                        w.i(r.compute_scalar(c).to_bits() as i64);
                        w.f(r.compute_scalar_f32(c) as f64);
                    }
                }
            }
        }
        Err(e) => rerr(w, &e),
    }
}

pub fn dsim_obs(m: &DeltaSetIndexMap, w: &mut Walker) {
    let count = match m {
        DeltaSetIndexMap::Format0(f) => f.map_count() as u32,
        DeltaSetIndexMap::Format1(f) => f.map_count(),
    };
    w.u(count as u64);
    let mut idx: Vec<u32> = (0..count.min(256)).collect();
    idx.extend([count.wrapping_sub(1), count, count.wrapping_add(1), 0xFFFF, 0x10000, u32::MAX]);
    for i in idx {
        match m.get(i) {
            Ok(d) => w.u(((d.outer as u64) << 16) | d.inner as u64),
            Err(e) => rerr(w, &e),
        }
    }
}

/// item-variation-store bearing tables; a[2] = table tag
pub fn ivs_driver(data: &[u8], _ctx: &[Vec<u8>], a: [u32; 3], w: &mut Walker) {
    let fd = FontData::new(data);
    let coords = coords_set();
    match &tag_of(a[2]) {
        b"HVAR" => {
            let Ok(t) = read_fonts::tables::hvar::Hvar::read(fd) else { return w.tagb(0) };
            for g in (0..24u32).chain(gid_boundaries(24)) {
                for c in coords.iter() {
                    fixed_res(w, t.advance_width_delta(GlyphId::new(g), c));
                    fixed_res(w, t.lsb_delta(GlyphId::new(g), c));
                    fixed_res(w, t.rsb_delta(GlyphId::new(g), c));
                }
            }
            if let Ok(ivs) = t.item_variation_store() {
                ivs_obs(&ivs, w)
            }
            for m in [t.advance_width_mapping(), t.lsb_mapping(), t.rsb_mapping()].into_iter().flatten() {
                match m {
                    Ok(m) => dsim_obs(&m, w),
                    Err(e) => rerr(w, &e),
                }
            }
        }
        b"VVAR" => {
            let Ok(t) = read_fonts::tables::vvar::Vvar::read(fd) else { return w.tagb(0) };
            for g in (0..24u32).chain(gid_boundaries(24)) {
                for c in coords.iter() {
                    fixed_res(w, t.advance_height_delta(GlyphId::new(g), c));
                    fixed_res(w, t.tsb_delta(GlyphId::new(g), c));
                    fixed_res(w, t.bsb_delta(GlyphId::new(g), c));
                    fixed_res(w, t.v_org_delta(GlyphId::new(g), c));
                }
            }
            if let Ok(ivs) = t.item_variation_store() {
                ivs_obs(&ivs, w)
            }
            for m in [t.advance_height_mapping(), t.tsb_mapping(), t.bsb_mapping(), t.v_org_mapping()]
                .into_iter()
                .flatten()
            {
                match m {
                    Ok(m) => dsim_obs(&m, w),
                    Err(e) => rerr(w, &e),
                }
            }
        }
        b"MVAR" => {
            let Ok(t) = read_fonts::tables::mvar::Mvar::read(fd) else { return w.tagb(0) };
            let mut tags: Vec<Tag> = t.value_records().iter().take(32).map(|r| r.value_tag()).collect();
            tags.extend([Tag::new(b"xhgt"), Tag::new(b"zzzz"), Tag::new(b"\0\0\0\0")]);
            for tag in tags {
                for c in coords.iter() {
                    fixed_res(w, t.metric_delta(tag, c));
                }
            }
            if let Some(Ok(ivs)) = t.item_variation_store() {
                ivs_obs(&ivs, w)
            }
        }
        b"avar" => {
            let Ok(t) = read_fonts::tables::avar::Avar::read(fd) else { return w.tagb(0) };
            match t.axis_index_map() {
                Some(Ok(m)) => dsim_obs(&m, w),
                Some(Err(e)) => rerr(w, &e),
                None => w.tagb(2),
            }
            match t.var_store() {
                Some(Ok(ivs)) => ivs_obs(&ivs, w),
                Some(Err(e)) => rerr(w, &e),
                None => w.tagb(2),
            }
        }
        b"GDEF" => {
            let Ok(t) = read_fonts::tables::gdef::Gdef::read(fd) else { return w.tagb(0) };
            if let Some(Ok(ivs)) = t.item_var_store() {
                ivs_obs(&ivs, w)
            }
        }
        b"BASE" => {
            let Ok(t) = read_fonts::tables::base::Base::read(fd) else { return w.tagb(0) };
            if let Some(Ok(ivs)) = t.item_var_store() {
                ivs_obs(&ivs, w)
            }
        }
        b"COLR" => {
            let Ok(t) = read_fonts::tables::colr::Colr::read(fd) else { return w.tagb(0) };
            if let Some(Ok(ivs)) = t.item_variation_store() {
                ivs_obs(&ivs, w)
            }
            if let Some(Ok(m)) = t.var_index_map() {
                dsim_obs(&m, w)
            }
        }
        _ => {
            // a bare ItemVariationStore / DeltaSetIndexMap blob
            if let Ok(ivs) = ItemVariationStore::read(fd) {
                ivs_obs(&ivs, w)
            }
            if let Ok(m) = DeltaSetIndexMap::read(fd) {
                dsim_obs(&m, w)
            }
        }
    }
}

// ------------------------------------------------------------------------------------------
// layout: coverage / classdef get+iter, GSUB closure, feature collection
// ------------------------------------------------------------------------------------------

pub fn coverage_obs(c: &CoverageTable, w: &mut Walker) {
    if crate::extarg::LAYOUT_HOOK.with(|h| h.get()) {
        crate::extarg::coverage_group(c, w);
    }
    let mut n = 0u64;
    let mut first: Vec<u16> = vec![];
    // a format-2 table may legitimately enumerate 65536 ids per range record (output-bound by
    // design), so iteration is step-capped and no count is demanded
    let lim = 512u64;
    for g in c.iter() {
        n += 1;
        w.h.u64(g.to_u16() as u64);
        if first.len() < 24 {
            first.push(g.to_u16());
        }
        if n >= lim {
            break;
        }
    }
    w.calls += n;
    w.nodes += n;
    w.u(n);
    first.extend([0, 1, 0xFFFE, 0xFFFF]);
    for g in first {
        for d in [g.wrapping_sub(1), g, g.wrapping_add(1)] {
            w.opt_u(c.get(GlyphId16::new(d)).map(|v| v as u64));
        }
    }
    w.opt_u(c.get(GlyphId::new(0x10000)).map(|v| v as u64));
    let mut set = IntSet::<GlyphId>::new();
    set.insert_range(GlyphId::new(0)..=GlyphId::new(40));
    w.b(c.intersects(&set));
    w.b(c.intersects(&IntSet::<GlyphId>::new()));
    match c {
        CoverageTable::Format1(f) => w.u(f.population() as u64),
        CoverageTable::Format2(f) => w.u(f.population() as u64),
    }
}

pub fn classdef_obs(c: &ClassDef, w: &mut Walker) {
    if crate::extarg::LAYOUT_HOOK.with(|h| h.get()) {
        crate::extarg::classdef_group(c, w);
    }
    let mut n = 0u64;
    let mut first: Vec<u16> = vec![];
    let lim = 512u64;
    for (g, cls) in c.iter() {
        n += 1;
        w.h.u64(((g.to_u16() as u64) << 16) | cls as u64);
        if first.len() < 24 {
            first.push(g.to_u16());
        }
        if n >= lim {
            break;
        }
    }
    w.calls += n;
    w.nodes += n;
    w.u(n);
    first.extend([0, 1, 0xFFFE, 0xFFFF]);
    for g in first {
        for d in [g.wrapping_sub(1), g, g.wrapping_add(1)] {
            w.u(c.get(GlyphId16::new(d)) as u64);
        }
    }
    w.u(c.population() as u64);
}

macro_rules! cov_of {
    ($w:expr, $e:expr) => {
        match $e {
            Ok(c) => coverage_obs(&c, $w),
            Err(e) => rerr($w, &e),
        }
    };
}
macro_rules! cls_of {
    ($w:expr, $e:expr) => {
        match $e {
            Ok(c) => classdef_obs(&c, $w),
            Err(e) => rerr($w, &e),
        }
    };
}

fn seq_context_obs(c: &read_fonts::tables::layout::SequenceContext, w: &mut Walker) {
    use read_fonts::tables::layout::SequenceContext as S;
    match c {
        S::Format1(t) => cov_of!(w, t.coverage()),
        S::Format2(t) => {
            cov_of!(w, t.coverage());
            cls_of!(w, t.class_def());
        }
        S::Format3(t) => {
            for c in t.coverages().iter().take(16) {
                cov_of!(w, c);
            }
        }
    }
}

fn chain_context_obs(c: &read_fonts::tables::layout::ChainedSequenceContext, w: &mut Walker) {
    use read_fonts::tables::layout::ChainedSequenceContext as S;
    match c {
        S::Format1(t) => cov_of!(w, t.coverage()),
        S::Format2(t) => {
            cov_of!(w, t.coverage());
            cls_of!(w, t.backtrack_class_def());
            cls_of!(w, t.input_class_def());
            cls_of!(w, t.lookahead_class_def());
        }
        S::Format3(t) => {
            for c in t.backtrack_coverages().iter().take(8) {
                cov_of!(w, c);
            }
            for c in t.input_coverages().iter().take(8) {
                cov_of!(w, c);
            }
            for c in t.lookahead_coverages().iter().take(8) {
                cov_of!(w, c);
            }
        }
    }
}

const MAX_LOOKUPS: usize = 48;
const MAX_SUBTABLES: usize = 6;

fn gsub_obs(data: &[u8], w: &mut Walker) {
    use read_fonts::tables::gsub::{Gsub, SubstitutionSubtables as SS};
    let gsub = match Gsub::read(FontData::new(data)) {
        Ok(g) => g,
        Err(e) => return rerr(w, &e),
    };
    // closure over three input sets
    for set in [vec![], (0u16..64).collect::<Vec<_>>(), vec![0u16, 1, 0x7FFF, 0xFFFE, 0xFFFF]] {
        let mut s = IntSet::<GlyphId16>::new();
        for g in set {
            s.insert(GlyphId16::new(g));
        }
        match gsub.closure_glyphs(s) {
            Ok(out) => {
                w.u(out.len());
                for g in out.iter().take(256) {
                    w.h.u64(g.to_u16() as u64)
                }
            }
            Err(e) => rerr(w, &e),
        }
        w.calls += 1;
    }
    let mut all = IntSet::<Tag>::new();
    all.insert(Tag::new(b"DFLT"));
    all.insert(Tag::new(b"latn"));
    let mut feats = IntSet::<Tag>::new();
    feats.insert(Tag::new(b"liga"));
    feats.insert(Tag::new(b"test"));
    match gsub.collect_features(&all, &all, &feats) {
        Ok(s) => w.u(s.len()),
        Err(e) => rerr(w, &e),
    }
    let Ok(ll) = gsub.lookup_list() else { return };
    for (li, lookup) in ll.lookups().iter().enumerate() {
        if li >= MAX_LOOKUPS || !w.step() {
            break;
        }
        let lookup = match lookup {
            Ok(l) => l,
            Err(e) => {
                rerr(w, &e);
                continue;
            }
        };
        w.u(lookup.lookup_type() as u64);
        w.u(lookup.lookup_flag().to_bits() as u64);
        w.opt_u(lookup.mark_filtering_set().map(|v| v as u64));
        let subs = match lookup.subtables() {
            Ok(s) => s,
            Err(e) => {
                rerr(w, &e);
                continue;
            }
        };
        macro_rules! each {
            ($st:expr, |$t:ident| $body:block) => {{
                w.u($st.len() as u64);
                for (si, sub) in $st.iter().enumerate() {
                    if si >= MAX_SUBTABLES {
                        break;
                    }
                    match sub {
                        Ok($t) => $body,
                        Err(e) => rerr(w, &e),
                    }
                }
            }};
        }
        match subs {
            SS::Single(st) => each!(st, |t| {
                match &t {
                    read_fonts::tables::gsub::SingleSubst::Format1(f) => cov_of!(w, f.coverage()),
                    read_fonts::tables::gsub::SingleSubst::Format2(f) => cov_of!(w, f.coverage()),
                }
            }),
            SS::Multiple(st) => each!(st, |t| { cov_of!(w, t.coverage()) }),
            SS::Alternate(st) => each!(st, |t| { cov_of!(w, t.coverage()) }),
            SS::Ligature(st) => each!(st, |t| { cov_of!(w, t.coverage()) }),
            SS::Contextual(st) => each!(st, |t| { seq_context_obs(&t, w) }),
            SS::ChainContextual(st) => each!(st, |t| { chain_context_obs(&t, w) }),
            SS::Reverse(st) => each!(st, |t| {
                cov_of!(w, t.coverage());
                for c in t.backtrack_coverages().iter().take(8) {
                    cov_of!(w, c);
                }
            }),
        }
    }
}

fn value_record_obs(v: &read_fonts::tables::gpos::ValueRecord, data: FontData, w: &mut Walker) {
    for x in [v.x_placement(), v.y_placement(), v.x_advance(), v.y_advance()] {
        w.opt_u(x.map(|v| v as u16 as u64));
    }
    for d in [
        v.x_placement_device(data),
        v.y_placement_device(data),
        v.x_advance_device(data),
        v.y_advance_device(data),
    ] {
        match d {
            Some(Ok(_)) => w.tagb(1),
            Some(Err(e)) => rerr(w, &e),
            None => w.tagb(2),
        }
    }
}

fn gpos_obs(data: &[u8], w: &mut Walker) {
    use read_fonts::tables::gpos::{Gpos, PairPos, PositionSubtables as PS, SinglePos};
    let gpos = match Gpos::read(FontData::new(data)) {
        Ok(g) => g,
        Err(e) => return rerr(w, &e),
    };
    let Ok(ll) = gpos.lookup_list() else { return };
    for (li, lookup) in ll.lookups().iter().enumerate() {
        if li >= MAX_LOOKUPS || !w.step() {
            break;
        }
        let lookup = match lookup {
            Ok(l) => l,
            Err(e) => {
                rerr(w, &e);
                continue;
            }
        };
        w.u(lookup.lookup_type() as u64);
        w.u(lookup.lookup_flag().to_bits() as u64);
        w.opt_u(lookup.mark_filtering_set().map(|v| v as u64));
        let subs = match lookup.subtables() {
            Ok(s) => s,
            Err(e) => {
                rerr(w, &e);
                continue;
            }
        };
        macro_rules! each {
            ($st:expr, |$t:ident| $body:block) => {{
                w.u($st.len() as u64);
                for (si, sub) in $st.iter().enumerate() {
                    if si >= MAX_SUBTABLES {
                        break;
                    }
                    match sub {
                        Ok($t) => $body,
                        Err(e) => rerr(w, &e),
                    }
                }
            }};
        }
        match subs {
            PS::Single(st) => each!(st, |t| {
                match &t {
                    SinglePos::Format1(f) => cov_of!(w, f.coverage()),
                    SinglePos::Format2(f) => cov_of!(w, f.coverage()),
                }
                match &t {
                    SinglePos::Format1(f) => value_record_obs(&f.value_record(), f.offset_data(), w),
                    SinglePos::Format2(f) => {
                        let vr = f.value_records();
                        w.u(vr.len() as u64);
                        for i in 0..vr.len().min(16) {
                            if let Ok(v) = vr.get(i) {
                                value_record_obs(&v, f.offset_data(), w)
                            }
                        }
                    }
                }
            }),
            PS::Pair(st) => each!(st, |t| {
                match &t {
                    PairPos::Format1(f) => cov_of!(w, f.coverage()),
                    PairPos::Format2(f) => {
                        cov_of!(w, f.coverage());
                        cls_of!(w, f.class_def1());
                        cls_of!(w, f.class_def2());
                    }
                }
            }),
            PS::Cursive(st) => each!(st, |t| {
                cov_of!(w, t.coverage());
                for r in t.entry_exit_record().iter().take(16) {
                    for a in [r.entry_anchor(t.offset_data()), r.exit_anchor(t.offset_data())] {
                        match a {
                            Some(Ok(a)) => {
                                w.i(a.x_coordinate() as i64);
                                for d in [a.x_device(), a.y_device()] {
                                    match d {
                                        Some(Ok(_)) => w.tagb(1),
                                        Some(Err(e)) => rerr(w, &e),
                                        None => w.tagb(2),
                                    }
                                }
                            }
                            Some(Err(e)) => rerr(w, &e),
                            None => w.tagb(2),
                        }
                    }
                }
            }),
            PS::MarkToBase(st) => each!(st, |t| {
                cov_of!(w, t.mark_coverage());
                cov_of!(w, t.base_coverage());
            }),
            PS::MarkToLig(st) => each!(st, |t| {
                cov_of!(w, t.mark_coverage());
                cov_of!(w, t.ligature_coverage());
            }),
            PS::MarkToMark(st) => each!(st, |t| {
                cov_of!(w, t.mark1_coverage());
                cov_of!(w, t.mark2_coverage());
            }),
            PS::Contextual(st) => each!(st, |t| { seq_context_obs(&t, w) }),
            PS::ChainContextual(st) => each!(st, |t| { chain_context_obs(&t, w) }),
        }
    }
}

fn gdef_obs(data: &[u8], w: &mut Walker) {
    use read_fonts::tables::gdef::Gdef;
    let gdef = match Gdef::read(FontData::new(data)) {
        Ok(g) => g,
        Err(e) => return rerr(w, &e),
    };
    for c in [gdef.glyph_class_def(), gdef.mark_attach_class_def()].into_iter().flatten() {
        cls_of!(w, c);
    }
    if let Some(Ok(al)) = gdef.attach_list() {
        cov_of!(w, al.coverage());
    }
    if let Some(Ok(l)) = gdef.lig_caret_list() {
        cov_of!(w, l.coverage());
    }
    if let Some(Ok(m)) = gdef.mark_glyph_sets_def() {
        for c in m.coverages().iter().take(16) {
            cov_of!(w, c);
        }
    }
}

/// a[2] = table tag (GSUB / GPOS / GDEF), or 1 = bare CoverageTable, 2 = bare ClassDef
pub fn layout_driver(data: &[u8], _ctx: &[Vec<u8>], a: [u32; 3], w: &mut Walker) {
    match &tag_of(a[2]) {
        b"GSUB" => gsub_obs(data, w),
        b"GPOS" => gpos_obs(data, w),
        b"GDEF" => gdef_obs(data, w),
        _ => {
            if a[2] == 1 {
                cov_of!(w, CoverageTable::read(FontData::new(data)));
            } else {
                cls_of!(w, ClassDef::read(FontData::new(data)));
            }
        }
    }
}

// ------------------------------------------------------------------------------------------
// name / post
// ------------------------------------------------------------------------------------------

pub fn name_driver(data: &[u8], _ctx: &[Vec<u8>], _a: [u32; 3], w: &mut Walker) {
    use read_fonts::tables::name::Name;
    let name = match Name::read(FontData::new(data)) {
        Ok(n) => n,
        Err(e) => return rerr(w, &e),
    };
    let sd = name.string_data();
    w.u(sd.len() as u64);
    // every record (bounded by the horizon only); the iteration bound of each string comes from its own byte
    // length: no encoding (UTF-16BE, MacRoman) yields more chars than bytes
    let mut string_obs = |s: read_fonts::tables::name::NameString, byte_len: u64, w: &mut Walker| {
        let lim = byte_len + 8;
        let mut n = 0u64;
        let mut over = false;
        for c in s.chars() {
            n += 1;
            w.h.u64(c as u64);
            if n > lim {
                report_overrun("NameString::chars yields more chars than the string has bytes", n);
                over = true;
                break;
            }
        }
        w.calls += n;
        w.nodes += n / 4;
        w.u(n);
        // IntoIterator is a separate entry point to the same iterator
        let mut k = 0u64;
        for _c in s {
            k += 1;
            if k > lim {
                report_overrun("NameString::into_iter yields more chars than the string has bytes", k);
                over = true;
                break;
            }
        }
        w.u(k);
        if !over {
            // Display / Debug / to_string drive the same iterator without any bound: only when it terminates
            let disp = s.to_string();
            w.u(disp.len() as u64);
            let dbg = format!("{s:?}");
            w.u(dbg.len() as u64);
        }
    };
    for rec in name.name_record().iter() {
        if !w.step() {
            break;
        }
        w.b(rec.is_unicode());
        w.u(((rec.platform_id() as u64) << 32) | ((rec.encoding_id() as u64) << 16) | rec.length() as u64);
        match rec.string(sd) {
            Ok(s) => string_obs(s, rec.length() as u64, w),
            Err(e) => rerr(w, &e),
        }
    }
    if let Some(tags) = name.lang_tag_record() {
        for rec in tags.iter() {
            if !w.step() {
                break;
            }
            match rec.lang_tag(sd) {
                Ok(s) => string_obs(s, rec.length() as u64, w),
                Err(e) => rerr(w, &e),
            }
        }
    }
}

pub fn post_driver(data: &[u8], _ctx: &[Vec<u8>], _a: [u32; 3], w: &mut Walker) {
    use read_fonts::tables::post::Post;
    let post = match Post::read(FontData::new(data)) {
        Ok(n) => n,
        Err(e) => return rerr(w, &e),
    };
    let n = post.num_names();
    w.u(n as u64);
    if let Some(strings) = post.string_data() {
        crate::drivers::varlen_obs(
            "VarLenArray<PString>::get vs iter",
            &strings,
            |r| r.as_ref().map(|s| s.as_str().to_string()).map_err(|e| format!("{e:?}")),
            w,
        );
    }
    // glyph_name(i) walks the string data (VarLenArray::get is linear): bounded sample of ids
    let mut gids: Vec<u32> = (0..(n as u32).min(1024)).collect();
    gids.extend(gid_boundaries(n as u32));
    for g in gids {
        if g > 0xFFFF || !w.step() {
            continue;
        }
        // glyph_name walks the pascal strings from the start: charge the linear cost to the horizon
        w.nodes += g.min(n as u32) as u64 / 4;
        match post.glyph_name(GlyphId16::new(g as u16)) {
            Some(s) => {
                w.tagb(1);
                w.s(s)
            }
            None => w.tagb(0),
        }
        w.calls += 1;
    }
}

// ------------------------------------------------------------------------------------------
// fvar (+ avar in ctx[0] when present)
// ------------------------------------------------------------------------------------------

pub fn fvar_driver(data: &[u8], ctx: &[Vec<u8>], a: [u32; 3], w: &mut Walker) {
    use read_fonts::tables::avar::Avar;
    use read_fonts::tables::fvar::Fvar;
    use read_fonts::types::F2Dot14;
    // a[2] == 1: `data` is the avar table and ctx[0] the fvar table
    let (fvar_b, avar_b): (&[u8], Option<&[u8]>) = if a[2] == 1 {
        (ctx.first().map(|v| v.as_slice()).unwrap_or(&[]), Some(data))
    } else {
        (data, ctx.first().map(|v| v.as_slice()))
    };
    let avar = avar_b.and_then(|b| Avar::read(FontData::new(b)).ok());
    if let Some(av) = &avar {
        let maps = av.axis_segment_maps();
        crate::drivers::varlen_obs(
            "VarLenArray<SegmentMaps>::get vs iter",
            &maps,
            |r| r.as_ref().map(|m| (m.position_map_count(), m.axis_value_maps().len())).map_err(|e| format!("{e:?}")),
            w,
        );
        let mut n = 0u64;
        for m in maps.iter() {
            n += 1;
            if n > 4096 || !w.step() {
                break;
            }
            match m {
                Ok(m) => {
                    for v in [i32::MIN, -0x10000, -0x8000, -1, 0, 1, 0x4000, 0x8000, 0x10000, i32::MAX] {
                        w.i(m.apply(Fixed::from_bits(v)).to_bits() as i64);
                    }
                }
                Err(e) => rerr(w, &e),
            }
        }
        w.u(n);
    }
    let fvar = match Fvar::read(FontData::new(fvar_b)) {
        Ok(f) => f,
        Err(e) => return rerr(w, &e),
    };
    match fvar.axes() {
        Ok(axes) => {
            w.u(axes.len() as u64);
            for ax in axes.iter().take(64) {
                for v in [i32::MIN, -0x10000, 0, 1, 100 << 16, 400 << 16, 1000 << 16, i32::MAX] {
                    w.i(ax.normalize(Fixed::from_bits(v)).to_bits() as i64);
                }
            }
            let tags: Vec<Tag> = axes.iter().take(8).map(|a| a.axis_tag()).collect();
            for val in [i32::MIN, 0, 400 << 16, i32::MAX] {
                // coordinate buffers around the 64-entry avar2 scratch array and of the font's own axis count
                let mut lens = vec![0usize, 1, 64, 65, axes.len().min(512)];
                lens.dedup();
                for len in lens {
                    let mut out = vec![F2Dot14::default(); len];
                    let user: Vec<(Tag, Fixed)> = tags
                        .iter()
                        .map(|t| (*t, Fixed::from_bits(val)))
                        .chain([(Tag::new(b"zzzz"), Fixed::from_bits(val))])
                        .collect();
                    fvar.user_to_normalized(avar.as_ref(), user, &mut out);
                    for o in out {
                        w.i(o.to_bits() as i64)
                    }
                    w.calls += 1;
                }
            }
        }
        Err(e) => rerr(w, &e),
    }
    match fvar.instances() {
        Ok(inst) => {
            let n = inst.len();
            w.u(n as u64);
            for i in (0..n.min(64)).chain([n, usize::MAX]) {
                match inst.get(i) {
                    Ok(r) => {
                        w.u(r.subfamily_name_id.to_u16() as u64);
                        w.u(r.coordinates.len() as u64);
                        w.opt_u(r.post_script_name_id.map(|v| v.to_u16() as u64));
                    }
                    Err(e) => rerr(w, &e),
                }
            }
        }
        Err(e) => rerr(w, &e),
    }
}

// ------------------------------------------------------------------------------------------
// hmtx / vmtx (a = [number_of_long_metrics, num_glyphs, is_vmtx]), hdmx (a[0] = num_glyphs), sbix
// ------------------------------------------------------------------------------------------

pub fn hmtx_driver(data: &[u8], _ctx: &[Vec<u8>], a: [u32; 3], w: &mut Walker) {
    let args = (a[0] as u16, a[1] as u16);
    let fd = FontData::new(data);
    let gids: Vec<u32> = (0..a[1].min(512)).chain(gid_boundaries(a[0])).chain(gid_boundaries(a[1])).collect();
    if a[2] == 0 {
        match read_fonts::tables::hmtx::Hmtx::read_with_args(fd, &args) {
            Ok(t) => {
                for g in gids {
                    w.opt_u(t.advance(GlyphId::new(g)).map(|v| v as u64));
                    w.opt_u(t.side_bearing(GlyphId::new(g)).map(|v| v as u16 as u64));
                }
            }
            Err(e) => rerr(w, &e),
        }
    } else {
        match read_fonts::tables::vmtx::Vmtx::read_with_args(fd, &args) {
            Ok(t) => {
                for g in gids {
                    w.opt_u(t.advance(GlyphId::new(g)).map(|v| v as u64));
                    w.opt_u(t.side_bearing(GlyphId::new(g)).map(|v| v as u16 as u64));
                }
            }
            Err(e) => rerr(w, &e),
        }
    }
}

pub fn hdmx_driver(data: &[u8], _ctx: &[Vec<u8>], a: [u32; 3], w: &mut Walker) {
    match read_fonts::tables::hdmx::Hdmx::read_with_args(FontData::new(data), &(a[0] as u16)) {
        Ok(t) => {
            for size in [0u8, 1, 8, 9, 10, 11, 12, 16, 24, 127, 128, 254, 255] {
                match t.record_for_size(size) {
                    Some(r) => {
                        w.u(r.pixel_size() as u64);
                        w.u(r.max_width() as u64);
                        w.u(r.widths().len() as u64);
                    }
                    None => w.tagb(0),
                }
            }
            let recs = t.records();
            let n = recs.len();
            w.u(n as u64);
            for i in (0..n.min(32)).chain([n, usize::MAX]) {
                match recs.get(i) {
                    Ok(r) => w.u(r.widths().len() as u64),
                    Err(e) => rerr(w, &e),
                }
            }
        }
        Err(e) => rerr(w, &e),
    }
}

pub fn sbix_driver(data: &[u8], _ctx: &[Vec<u8>], a: [u32; 3], w: &mut Walker) {
    match read_fonts::tables::sbix::Sbix::read_with_args(FontData::new(data), &(a[0] as u16)) {
        Ok(t) => {
            let strikes = t.strikes();
            w.u(strikes.len() as u64);
            for (i, s) in strikes.iter().enumerate() {
                if i >= 64 || !w.step() {
                    break;
                }
                match s {
                    Ok(s) => {
                        for g in (0..a[0].min(1024)).chain(gid_boundaries(a[0])) {
                            if g & 7 == 0 && !w.step() {
                                break;
                            }
                            match s.glyph_data(GlyphId::new(g)) {
                                Ok(Some(d)) => {
                                    w.u(d.data().len() as u64);
                                    w.h.bytes(&d.graphic_type().to_be_bytes());
                                }
                                Ok(None) => w.tagb(2),
                                Err(e) => rerr(w, &e),
                            }
                        }
                    }
                    Err(e) => rerr(w, &e),
                }
            }
        }
        Err(e) => rerr(w, &e),
    }
}
