//! The generic walker: visits everything reachable from a successfully read table through
//! `traversal::SomeTable::get_field` and folds every observation into a digest.
//!
//! Observations hashed: every table/record type name, every field name, every scalar value, every
//! offset value, the Ok/Err(kind)/None shape of every resolved offset, every array length, every
//! array element (plus `get(len)` and `get(usize::MAX)`, which must be `None`), every character of
//! every string offset. Recursion stops at `max_depth` nested tables/records and after `horizon`
//! visited nodes (both cuts are hashed, so they are part of the observation).

use read_fonts::traversal::{FieldType, OffsetType, SomeArray, SomeTable};
use read_fonts::ReadError;
use vcore::Fnv;

pub const DEFAULT_MAX_DEPTH: u32 = 12;
pub const DEFAULT_HORIZON: u64 = 200_000;

pub struct Walker {
    pub h: Fnv,
    /// nodes visited (fields, array elements)
    pub nodes: u64,
    /// accessor calls made (get_field / len / get / iter_chars steps / typed driver calls)
    pub calls: u64,
    pub horizon: u64,
    pub max_depth: u32,
    pub horizon_hit: bool,
    pub depth_hit: bool,
    /// number of fields of the root table (non-triviality rule: read ok and >= 2 fields)
    pub root_fields: u32,
    pub read_ok: bool,
    /// number of Err shapes observed (used by the static-blob fit criterion)
    pub errs: u32,
    /// byte length of the case input (bounds string iterators: a string cannot have more chars than bytes)
    pub input_len: u64,
}

impl Walker {
    pub fn new(horizon: u64, max_depth: u32) -> Self {
        Walker {
            h: Fnv::new(),
            nodes: 0,
            calls: 0,
            horizon,
            max_depth,
            horizon_hit: false,
            depth_hit: false,
            root_fields: 0,
            read_ok: false,
            errs: 0,
            input_len: u64::MAX / 2,
        }
    }

    pub fn digest(&self) -> u64 {
        self.h.finish()
    }

    #[inline]
    pub fn over(&mut self) -> bool {
        if self.nodes >= self.horizon {
            if !self.horizon_hit {
                self.horizon_hit = true;
                self.h.byte(0xE0);
            }
            true
        } else {
            false
        }
    }

    // ---- observation primitives, also used by the typed drivers -------------------------
    #[inline]
    pub fn tagb(&mut self, t: u8) {
        self.h.byte(t);
    }
    #[inline]
    pub fn u(&mut self, v: u64) {
        self.calls += 1;
        self.h.u64(v);
    }
    #[inline]
    pub fn i(&mut self, v: i64) {
        self.calls += 1;
        self.h.i64(v);
    }
    #[inline]
    pub fn f(&mut self, v: f64) {
        self.calls += 1;
        self.h.u64(v.to_bits());
    }
    #[inline]
    pub fn b(&mut self, v: bool) {
        self.calls += 1;
        self.h.byte(v as u8);
    }
    pub fn s(&mut self, v: &str) {
        self.h.str(v);
    }
    pub fn opt_u(&mut self, v: Option<u64>) {
        match v {
            Some(x) => {
                self.h.byte(1);
                self.u(x)
            }
            None => {
                self.calls += 1;
                self.h.byte(0)
            }
        }
    }
    /// count one visited item against the horizon (typed drivers call this in their loops)
    #[inline]
    pub fn step(&mut self) -> bool {
        self.nodes += 1;
        !self.over()
    }

    pub fn read_ok(&mut self) {
        self.read_ok = true;
        self.h.byte(0xA1);
    }

    pub fn read_err(&mut self, e: &ReadError) {
        self.h.byte(0xA0);
        self.err(e);
    }

    pub fn err(&mut self, e: &ReadError) {
        self.calls += 1;
        self.errs += 1;
        match e {
            ReadError::OutOfBounds => self.h.byte(1),
            ReadError::InvalidFormat(x) => {
                self.h.byte(2);
                self.h.i64(*x)
            }
            ReadError::InvalidSfnt(x) => {
                self.h.byte(3);
                self.h.u64(*x as u64)
            }
            ReadError::InvalidTtc(t) => {
                self.h.byte(4);
                self.h.bytes(&t.to_be_bytes())
            }
            ReadError::InvalidCollectionIndex(x) => {
                self.h.byte(5);
                self.h.u64(*x as u64)
            }
            ReadError::InvalidArrayLen => self.h.byte(6),
            ReadError::ValidationError => self.h.byte(7),
            ReadError::NullOffset => self.h.byte(8),
            ReadError::TableIsMissing(t) => {
                self.h.byte(9);
                self.h.bytes(&t.to_be_bytes())
            }
            ReadError::MetricIsMissing(t) => {
                self.h.byte(10);
                self.h.bytes(&t.to_be_bytes())
            }
            ReadError::MalformedData(s) => {
                self.h.byte(11);
                self.h.str(s)
            }
        }
    }

    // ---- the generic walk ----------------------------------------------------------------

    pub fn root_table<'a>(&mut self, t: &(dyn SomeTable<'a> + 'a)) {
        let n = self.table(t, 0);
        self.root_fields = n;
    }

    /// walks all fields; returns the number of fields
    pub fn table<'a>(&mut self, t: &(dyn SomeTable<'a> + 'a), depth: u32) -> u32 {
        self.h.byte(0xB0);
        self.h.str(t.type_name());
        let mut i = 0usize;
        loop {
            if self.over() {
                break;
            }
            self.calls += 1;
            match t.get_field(i) {
                None => break,
                Some(f) => {
                    self.h.str(f.name);
                    self.field(f.value, depth);
                }
            }
            i += 1;
            if i > 4096 {
                // no generated table has that many fields: a get_field that never says None
                self.h.byte(0xE2);
                break;
            }
        }
        // out-of-range field index must be None, never a panic
        self.calls += 1;
        let probe = t.get_field(usize::MAX).is_none();
        self.h.byte(probe as u8);
        self.h.u64(i as u64);
        self.h.byte(0xB1);
        i as u32
    }

    fn offset(&mut self, o: OffsetType) {
        match o {
            OffsetType::Offset16(v) => {
                self.h.byte(16);
                self.h.u64(v as u64)
            }
            OffsetType::Offset24(v) => {
                self.h.byte(24);
                self.h.u64(v.to_u32() as u64)
            }
            OffsetType::Offset32(v) => {
                self.h.byte(32);
                self.h.u64(v as u64)
            }
        }
    }

    pub fn field<'a>(&mut self, v: FieldType<'a>, depth: u32) {
        self.nodes += 1;
        use FieldType as F;
        match v {
            F::I8(x) => {
                self.h.byte(1);
                self.h.i64(x as i64)
            }
            F::U8(x) => {
                self.h.byte(2);
                self.h.u64(x as u64)
            }
            F::I16(x) => {
                self.h.byte(3);
                self.h.i64(x as i64)
            }
            F::U16(x) => {
                self.h.byte(4);
                self.h.u64(x as u64)
            }
            F::I32(x) => {
                self.h.byte(5);
                self.h.i64(x as i64)
            }
            F::U32(x) => {
                self.h.byte(6);
                self.h.u64(x as u64)
            }
            F::I24(x) => {
                self.h.byte(7);
                self.h.i64(i32::from(x) as i64)
            }
            F::U24(x) => {
                self.h.byte(8);
                self.h.u64(x.to_u32() as u64)
            }
            F::Tag(x) => {
                self.h.byte(9);
                self.h.bytes(&x.to_be_bytes())
            }
            F::FWord(x) => {
                self.h.byte(10);
                self.h.i64(x.to_i16() as i64)
            }
            F::UfWord(x) => {
                self.h.byte(11);
                self.h.u64(x.to_u16() as u64)
            }
            F::MajorMinor(x) => {
                self.h.byte(12);
                self.h.u64(((x.major as u64) << 16) | x.minor as u64)
            }
            F::Version16Dot16(x) => {
                self.h.byte(13);
                let (a, b) = x.to_major_minor();
                self.h.u64(((a as u64) << 16) | b as u64)
            }
            F::F2Dot14(x) => {
                self.h.byte(14);
                self.h.i64(x.to_bits() as i64)
            }
            F::Fixed(x) => {
                self.h.byte(15);
                self.h.i64(x.to_bits() as i64)
            }
            F::LongDateTime(x) => {
                self.h.byte(16);
                self.h.i64(x.as_secs())
            }
            F::GlyphId16(x) => {
                self.h.byte(17);
                self.h.u64(x.to_u16() as u64)
            }
            F::NameId(x) => {
                self.h.byte(18);
                self.h.u64(x.to_u16() as u64)
            }
            F::BareOffset(o) => {
                self.h.byte(19);
                self.offset(o)
            }
            F::ResolvedOffset(r) => {
                self.h.byte(20);
                self.offset(r.offset);
                match r.target {
                    Ok(t) => {
                        self.h.byte(1);
                        if depth + 1 > self.max_depth {
                            self.depth_hit = true;
                            self.h.byte(0xE1);
                        } else {
                            self.table(&*t, depth + 1);
                        }
                    }
                    Err(e) => {
                        self.h.byte(0);
                        self.err(&e)
                    }
                }
            }
            F::StringOffset(s) => {
                self.h.byte(21);
                self.offset(s.offset);
                match s.target {
                    Ok(t) => {
                        self.h.byte(1);
                        let mut n = 0u64;
                        for c in t.iter_chars() {
                            self.h.u64(c as u64);
                            n += 1;
                            self.calls += 1;
                            // a string cannot have more characters than the input has bytes
                            if n > self.input_len + 8 {
                                crate::drivers::report_overrun("SomeString::iter_chars (name/lang-tag string) yields more chars than the input has bytes", n);
                                self.nodes += n & 0xFF;
                                break;
                            }
                            // the horizon bounds a runaway iterator
                            if n & 0xFF == 0 {
                                self.nodes += 256;
                                if self.over() {
                                    break;
                                }
                            }
                        }
                        self.h.u64(n);
                    }
                    Err(e) => {
                        self.h.byte(0);
                        self.err(&e)
                    }
                }
            }
            F::ArrayOffset(a) => {
                self.h.byte(22);
                self.offset(a.offset);
                match a.target {
                    Ok(t) => {
                        self.h.byte(1);
                        self.array(&*t, depth);
                    }
                    Err(e) => {
                        self.h.byte(0);
                        self.err(&e)
                    }
                }
            }
            F::Record(r) => {
                self.h.byte(23);
                if depth + 1 > self.max_depth {
                    self.depth_hit = true;
                    self.h.byte(0xE1);
                } else {
                    self.table(&r, depth + 1);
                }
            }
            F::Array(a) => {
                self.h.byte(24);
                self.array(&*a, depth);
            }
            F::Unknown => self.h.byte(25),
        }
    }

    pub fn array<'a>(&mut self, a: &(dyn SomeArray<'a> + 'a), depth: u32) {
        self.calls += 1;
        let n = a.len();
        self.h.u64(n as u64);
        for i in 0..n {
            if self.over() {
                break;
            }
            self.calls += 1;
            match a.get(i) {
                Some(v) => self.field(v, depth),
                None => {
                    self.nodes += 1;
                    self.h.byte(0xC0)
                }
            }
        }
        // boundary indices: must be None
        self.calls += 2;
        let p1 = a.get(n).is_none();
        let p2 = a.get(usize::MAX).is_none();
        self.h.byte(p1 as u8 | ((p2 as u8) << 1));
    }
}
