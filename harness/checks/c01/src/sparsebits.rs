//! `IntSet::<u32>::from_sparse_bit_set_bounded` over a small exhaustive byte-string family (the IFT sparse
//! bit set decoder, the only byte-level entry point of `collections::int_set`; `from_sparse_bit_set` is the
//! same function with bias 0 / max u32::MAX and is covered by that pair).
//!
//! One case = (header byte, (bias, max_value) pair); the driver enumerates, for that header,
//!   the 1-byte string [h], all 256 strings [h, b], all 256 x 64 strings [h, b, c] (c from `THIRD`), and for
//!   branch factor 32 (4-byte nodes) [h, b, 0, 0, 0] for every b plus two more.
//! Strings whose filled nodes would materialise >= 2^18 members (up to 2^32: 1.3 s CPU and 0.66 GB each) are
//! predicted by `predict` (a set-free transcription of the decoding loop) and skipped; three such giants run
//! as separate single-string cases. Each decode runs under its own `guard`, so one panic does not hide the rest.

use crate::drivers::report_driver_panic;
use crate::seeds::Seed;
use crate::walker::Walker;
use read_fonts::collections::IntSet;

pub const PAIRS: [(u32, u32); 11] = [
    (0, u32::MAX),
    (0, 0),
    (1, 10),
    (1, u32::MAX),
    (u32::MAX, u32::MAX),
    (5, 4),
    (u32::MAX - 1, u32::MAX),
    (0x8000_0000, u32::MAX),
    (0xFFFF, 0xFF_FFFF),
    (0, 0xFFFF),
    (u32::MAX, 0),
];

pub const THIRD: [u8; 64] = [
    0, 1, 2, 3, 4, 5, 6, 7, 8, 9, 10, 11, 12, 13, 14, 15, 16, 17, 18, 19, 20, 21, 22, 23, 24, 25, 26, 27, 28, 29, 30, 31,
    0x20, 0x30, 0x40, 0x50, 0x55, 0x60, 0x70, 0x7F, 0x80, 0x81, 0x88, 0x90, 0xA0, 0xAA, 0xB0, 0xC0, 0xC3, 0xCC, 0xD0,
    0xE0, 0xEE, 0xF0, 0xF7, 0xF8, 0xFC, 0xFE, 0xFF, 0x3F, 0x3C, 0x66, 0x99, 0x2A,
];

pub const GIANT_LIMIT: u64 = 1 << 18;

fn header(h: u8) -> (u64, u32, u32) {
    // (branch factor, height, max height)
    let (bf, mh) = match h & 3 {
        0 => (2u64, 31u32),
        1 => (4, 16),
        2 => (8, 11),
        _ => (32, 7),
    };
    (bf, ((h >> 2) & 0x1F) as u32, mh)
}

/// Number of members the decoder will insert through filled (all-zero) nodes: a transcription of the
/// decoding loop that keeps no set (harness code; used only to avoid 2^32-member materialisations).
pub fn predict(data: &[u8], bias: u32, max_value: u32) -> u64 {
    let Some(&h) = data.first() else { return 0 };
    let (bf, height, mh) = header(h);
    if height > mh || height == 0 {
        return 0;
    }
    let mut byte = 1usize;
    let mut sub = 0u32;
    let mut next_node = || -> Option<u32> {
        match bf {
            2 | 4 => {
                let b = *data.get(byte)? as u32;
                let mask = (1u32 << bf) - 1;
                let v = (b >> sub) & mask;
                sub = (sub + bf as u32) % 8;
                if sub == 0 {
                    byte += 1;
                }
                Some(v)
            }
            8 => {
                let v = *data.get(byte)? as u32;
                byte += 1;
                Some(v)
            }
            _ => {
                let s = data.get(byte..byte + 4)?;
                byte += 4;
                Some(u32::from_le_bytes([s[0], s[1], s[2], s[3]]))
            }
        }
    };
    let mut total = 0u64;
    let mut queue: std::collections::VecDeque<(u64, u32)> = std::collections::VecDeque::new();
    queue.push_back((0, 1));
    let mut steps = 0;
    while let Some((start, depth)) = queue.pop_front() {
        steps += 1;
        if steps > 4096 {
            break;
        }
        let Some(mut bits) = next_node() else { break };
        if bits == 0 {
            let node_size = bf.pow(height - depth + 1);
            let Some(s) = u32::try_from(start).ok().and_then(|s| s.checked_add(bias)).filter(|s| *s <= max_value) else { continue };
            let end = u32::try_from(start + node_size - 1).unwrap_or(u32::MAX).saturating_add(bias).min(max_value);
            total = total.saturating_add(end as u64 - s as u64 + 1);
            continue;
        }
        let next_size = bf.pow(height - depth);
        while bits != 0 {
            let i = bits.trailing_zeros();
            if depth != height {
                queue.push_back((start + i as u64 * next_size, depth + 1));
            }
            bits &= !(1 << i);
        }
    }
    total
}

fn decode_one(s: &[u8], bias: u32, max: u32, w: &mut Walker, skipped: &mut u64, allow_giant: bool) {
    if !allow_giant && predict(s, bias, max) >= GIANT_LIMIT {
        *skipped += 1;
        return;
    }
    let r = vcore::guard(|| {
        IntSet::<u32>::from_sparse_bit_set_bounded(s, bias, max).map(|(set, rest)| (set.len(), set.first(), set.last(), rest.len()))
    });
    w.calls += 1;
    match r {
        Ok(Ok((len, first, last, rest))) => {
            w.h.byte(1);
            w.h.u64(len);
            w.h.u64(first.map(|v| v as u64 + 1).unwrap_or(0));
            w.h.u64(last.map(|v| v as u64 + 1).unwrap_or(0));
            w.h.u64(rest as u64);
            if len > 0 {
                w.read_ok = true;
                w.root_fields = w.root_fields.max(2);
            }
        }
        Ok(Err(_)) => w.h.byte(0),
        Err(p) => {
            w.h.byte(2);
            report_driver_panic(p, format!("bytes={} bias={} max_value={}", vcore::hex(s), bias, max));
        }
    }
}

/// a = [bias, max_value, mode]; mode 0: data[0] is the header byte, enumerate the family; mode 1: decode
/// `data` itself (a giant is allowed)
pub fn sparsebits_driver(data: &[u8], _ctx: &[Vec<u8>], a: [u32; 3], w: &mut Walker) {
    let (bias, max) = (a[0], a[1]);
    let mut skipped = 0u64;
    if a[2] == 1 {
        decode_one(data, bias, max, w, &mut skipped, true);
        return;
    }
    let Some(&h) = data.first() else { return };
    decode_one(&[h], bias, max, w, &mut skipped, false);
    for b in 0..=255u8 {
        decode_one(&[h, b], bias, max, w, &mut skipped, false);
        for c in THIRD {
            decode_one(&[h, b, c], bias, max, w, &mut skipped, false);
        }
        if h & 3 == 3 {
            decode_one(&[h, b, 0, 0, 0], bias, max, w, &mut skipped, false);
        }
    }
    if h & 3 == 3 {
        decode_one(&[h, 0, 0, 0, 0x80], bias, max, w, &mut skipped, false);
        decode_one(&[h, 0xFF, 0xFF, 0xFF, 0xFF], bias, max, w, &mut skipped, false);
    }
    w.h.u64(skipped);
    w.nodes += skipped; // visible in the digest; the count of skipped giants is part of the observation
}

pub fn sparsebits_seeds(out: &mut Vec<Seed>) {
    let d = crate::drivers::find("sparsebits").expect("sparsebits");
    for (bias, max) in PAIRS {
        for h in 0..=255u8 {
            out.push(Seed {
                name: format!("synth:sparsebits/header={h:02x},bias={bias},max={max}"),
                class: "synth",
                ty: None,
                args: [0; 3],
                drivers: vec![(d, [bias, max, 0])],
                data: vec![h],
                ctx: vec![],
                pos_limit: 0, // selector only: executed once
                extra_trunc: vec![],
            });
        }
    }
    // three representative giants (filled root at the maximum height), one string each
    for (h, bias) in [(0x41u8, 0u32), (0x41, 1), (0x2E, 1)] {
        out.push(Seed {
            name: format!("synth:sparsebits/giant={h:02x}00,bias={bias},max={}", u32::MAX),
            class: "synth",
            ty: None,
            args: [0; 3],
            drivers: vec![(d, [bias, u32::MAX, 1])],
            data: vec![h, 0],
            ctx: vec![],
            pos_limit: 0,
            extra_trunc: vec![],
        });
    }
}
