//! Seeds of the X3 input space (DESIGN 2.4): corpus tables fed to their own type, whole
//! files/collections, font-test-data static blobs (fit matrix), all-zero buffers for every type.
//! The list is a pure function of the repository contents and the tier; workers rebuild it
//! identically.

use crate::drivers;
use crate::registry::{self, TYPES};
use crate::walker::Walker;
use read_fonts::{FileRef, FontRef, TableProvider};
use std::collections::HashSet;
use vcore::Tier;

#[derive(Clone)]
pub struct Seed {
    pub name: String,
    /// "table" | "file" | "static" | "zero"
    pub class: &'static str,
    /// registry type the bytes are read as
    pub ty: Option<usize>,
    pub args: [u32; 3],
    /// typed drivers run on the same bytes: (driver index, driver args)
    pub drivers: Vec<(usize, [u32; 3])>,
    pub data: Vec<u8>,
    /// side tables a driver needs (never deviated)
    pub ctx: Vec<Vec<u8>>,
    /// positions >= pos_limit are not deviated (whole files: directory area only)
    pub pos_limit: usize,
    /// extra truncation lengths (whole files: table boundaries)
    pub extra_trunc: Vec<u32>,
}

impl Seed {
    pub fn target_name(&self) -> String {
        let t = self.ty.map(|i| TYPES[i].name).unwrap_or("-");
        let d: Vec<&str> = self.drivers.iter().map(|(d, _)| drivers::DRIVERS[*d].name).collect();
        format!("{}+[{}]", t, d.join(","))
    }
}

/// Execute one case: read `bytes` as the seed's type and walk it, then run the typed drivers.
pub fn exec_case(seed: &Seed, bytes: &[u8], ctx: &[Vec<u8>], w: &mut Walker) {
    if let Some(t) = seed.ty {
        (TYPES[t].read)(bytes, seed.args, w);
    }
    for (d, a) in &seed.drivers {
        w.tagb(0xD0);
        // each typed driver gets its own full visit budget: a walk that exhausted the horizon (for instance on a
        // runaway iterator) must not starve the drivers
        w.nodes = 0;
        let calls = w.calls;
        (drivers::DRIVERS[*d].run)(bytes, ctx, *a, w);
        if seed.ty.is_none() && w.calls - calls >= 16 {
            // driver-only targets: non-trivial when the driver got past the top-level read
            w.read_ok = true;
            w.root_fields = w.root_fields.max(2);
        }
    }
}

/// generic argument domains per `ReadArgs` shape (n = input length)
pub fn arg_domain(shape: &str, n: usize) -> Vec<[u32; 3]> {
    let n = n as u32;
    let mut v: Vec<[u32; 3]> = match shape {
        "" => vec![[0, 0, 0]],
        "u16" => vec![[0, 0, 0], [1, 0, 0], [2, 0, 0], [n & 0xFFFF, 0, 0], [0xFFFF, 0, 0]],
        "u32" => vec![[0, 0, 0], [1, 0, 0], [2, 0, 0], [u32::MAX, 0, 0]],
        "(u16, u16)" => vec![[0, 0, 0], [1, 1, 0], [2, 1, 0], [1, 2, 0], [0xFFFF, 1, 0], [1, 0xFFFF, 0], [0xFFFF, 0xFFFF, 0]],
        "(u16, u16, u16)" => vec![[0, 0, 0], [1, 1, 8], [1, 1, 10], [2, 1, 12], [1, 2, 8], [1, 1, 0], [1, 0xFFFF, 8], [0xFFFF, 0xFFFF, 0xFFFF]],
        "(ValueFormat, ValueFormat)" => vec![[0, 0, 0], [4, 0, 0], [1, 1, 0], [0x10, 0, 0], [0xF0, 0xF0, 0], [0xFF, 0xFF, 0]],
        "(u16, ValueFormat, ValueFormat)" => vec![[0, 0, 0], [1, 4, 0], [2, 0xFF, 0xFF], [1, 0, 0], [0xFFFF, 0xFF, 0xFF]],
        "Offset32" => vec![[0, 0, 0], [1, 0, 0], [n, 0, 0]],
        "Tag" => vec![[u32::from_be_bytes(*b"size"), 0, 0], [u32::from_be_bytes(*b"ss01"), 0, 0], [u32::from_be_bytes(*b"cv01"), 0, 0], [u32::from_be_bytes(*b"liga"), 0, 0]],
        "(Uint24, u16)" => vec![[0, 0, 0], [1, 0, 0], [2, 255, 0], [2, 256, 0], [0xFF_FFFF, 0xFFFF, 0]],
        "GlyphKeyedFlags" => vec![[0, 0, 0], [1, 0, 0]],
        "(GlyphId16, GlyphId16)" => vec![[0, 0, 0], [1, 0, 0], [0, 1, 0], [5, 3, 0], [0xFFFF, 0, 0]],
        _ => vec![[0, 0, 0]],
    };
    let mut seen = HashSet::new();
    v.retain(|a| seen.insert(*a));
    v
}

fn drv(name: &str) -> usize {
    drivers::find(name).expect("driver name")
}
fn tagu(t: &[u8; 4]) -> u32 {
    u32::from_be_bytes(*t)
}

/// blob-level drivers that go with a registry type (static and zero seeds)
fn drivers_for_type(ty: usize, args: [u32; 3]) -> Vec<(usize, [u32; 3])> {
    match TYPES[ty].name {
        "layout::CoverageTable" => vec![(drv("layout"), [0, 0, 1])],
        "layout::ClassDef" => vec![(drv("layout"), [0, 0, 2])],
        "variations::ItemVariationStore" | "variations::DeltaSetIndexMap" => vec![(drv("ivs"), [0, 0, 0])],
        "postscript::Index1" => vec![(drv("psblob"), [0, 0, 0])],
        "postscript::Index2" => vec![(drv("psblob"), [0, 0, 1])],
        "ift::Ift" => vec![(drv("ift"), [0, 0, 0])],
        "ift::GlyphPatches" => vec![(drv("ift"), [args[0], 0, 1])],
        "cmap::Cmap" => vec![(drv("cmap"), [0, 0, 0])],
        "gsub::Gsub" => vec![(drv("layout"), [0, 0, tagu(b"GSUB")]), (drv("layout2"), [0, 0, tagu(b"GSUB")])],
        "gpos::Gpos" => vec![(drv("layout"), [0, 0, tagu(b"GPOS")]), (drv("layout2"), [0, 0, tagu(b"GPOS")])],
        "gdef::Gdef" => vec![
            (drv("layout"), [0, 0, tagu(b"GDEF")]),
            (drv("ivs"), [0, 0, tagu(b"GDEF")]),
            (drv("layout2"), [0, 0, tagu(b"GDEF")]),
        ],
        "gpos::AnchorTable" => vec![(drv("layout2"), [0, 0, 4])],
        "layout::DeviceOrVariationIndex" | "layout::Device" | "layout::VariationIndex" => vec![(drv("layout2"), [0, 0, 3])],
        "aat::Lookup" => vec![(drv("aat"), [0, 0, 0])],
        "avar::Avar" => vec![(drv("ivs"), [0, 0, tagu(b"avar")])],
        "gvar::Gvar" => vec![(drv("gvar"), [0, 0, 0])],
        "cvar::Cvar" => vec![(drv("cvar"), [1, 0, 0])],
        "name::Name" => vec![(drv("name"), [0, 0, 0])],
        "post::Post" => vec![(drv("post"), [0, 0, 0])],
        "fvar::Fvar" => vec![(drv("fvar"), [0, 0, 0])],
        "hvar::Hvar" => vec![(drv("ivs"), [0, 0, tagu(b"HVAR")])],
        "vvar::Vvar" => vec![(drv("ivs"), [0, 0, tagu(b"VVAR")])],
        "mvar::Mvar" => vec![(drv("ivs"), [0, 0, tagu(b"MVAR")])],
        "colr::Colr" => vec![(drv("colr"), [0, 0, 0]), (drv("ivs"), [0, 0, tagu(b"COLR")])],
        "hmtx::Hmtx" => vec![(drv("hmtx"), [args[0], args[1], 0])],
        "vmtx::Vmtx" => vec![(drv("hmtx"), [args[0], args[1], 1])],
        "hdmx::Hdmx" => vec![(drv("hdmx"), [args[0], 0, 0])],
        "sbix::Sbix" => vec![(drv("sbix"), [args[0], 0, 0])],
        "varc::Varc" => vec![(drv("varc"), [0, 0, 0])],
        "cblc::Cblc" => vec![(drv("bitmap"), [0, 0, 0])],
        "eblc::Eblc" => vec![(drv("bitmap"), [0, 0, 1])],
        "svg::Svg" => vec![(drv("misc"), [0, 0, tagu(b"SVG ")])],
        "stat::Stat" => vec![(drv("misc"), [0, 0, tagu(b"STAT")])],
        "feat::Feat" => vec![(drv("misc"), [0, 0, tagu(b"feat")])],
        "ankr::Ankr" => vec![(drv("misc"), [0, 0, tagu(b"ankr")])],
        "ltag::Ltag" => vec![(drv("misc"), [0, 0, tagu(b"ltag")])],
        "meta::Meta" => vec![(drv("misc"), [0, 0, tagu(b"meta")])],
        _ => vec![],
    }
}

pub struct SeedStats {
    pub fonts: usize,
    pub tables_seen: usize,
    pub tables_without_target: Vec<String>,
    pub duplicates_dropped: usize,
    pub static_fit_tried: u64,
    pub too_big: usize,
}

fn key_of(s: &Seed) -> u64 {
    let mut h = vcore::Fnv::new();
    h.u64(s.ty.map(|t| t as u64 + 1).unwrap_or(0));
    for a in s.args {
        h.u64(a as u64)
    }
    for (d, a) in &s.drivers {
        h.u64(*d as u64);
        for x in a {
            h.u64(*x as u64)
        }
    }
    h.u64(s.data.len() as u64);
    h.bytes(&s.data);
    for c in &s.ctx {
        h.u64(c.len() as u64);
        h.bytes(c);
    }
    h.finish()
}

fn table_seeds(font_name: &str, font: &FontRef, out: &mut Vec<Seed>, st: &mut SeedStats) {
    let num_glyphs = font.maxp().map(|m| m.num_glyphs()).unwrap_or(0) as u32;
    let n_hm = font.hhea().map(|h| h.number_of_h_metrics()).unwrap_or(0) as u32;
    let n_vm = font.vhea().map(|h| h.number_of_long_ver_metrics()).unwrap_or(0) as u32;
    let is_long = font.head().map(|h| h.index_to_loc_format() == 1).unwrap_or(false) as u32;
    let axis_count = font.fvar().map(|f| f.axis_count()).unwrap_or(0) as u32;
    let get = |t: &[u8; 4]| -> Vec<u8> {
        font.table_data(read_fonts::types::Tag::new(t)).map(|d| d.as_bytes().to_vec()).unwrap_or_default()
    };
    for rec in font.table_directory.table_records() {
        let tag = rec.tag();
        let tb = tag.to_be_bytes();
        let Some(data) = font.table_data(tag) else { continue };
        let data = data.as_bytes().to_vec();
        st.tables_seen += 1;
        let name = format!("{}#{}", font_name, String::from_utf8_lossy(&tb));
        let ty = registry::by_tag(tb);
        let mut args_list: Vec<[u32; 3]> = vec![[0, 0, 0]];
        let mut ctx: Vec<Vec<u8>> = vec![];
        let mut drivers_of: Box<dyn Fn([u32; 3]) -> Vec<(usize, [u32; 3])>> = match ty {
            Some(t) => Box::new(move |a| drivers_for_type(t, a)),
            None => Box::new(|_| vec![]),
        };
        let mut ty = ty;
        match &tb {
            b"hmtx" => args_list = vec![[n_hm, num_glyphs, 0], [0, 0, 0], [n_hm + 1, num_glyphs + 1, 0], [0xFFFF, 0xFFFF, 0]],
            b"vmtx" => args_list = vec![[n_vm, num_glyphs, 0], [0, 0, 0], [n_vm + 1, num_glyphs + 1, 0], [0xFFFF, 0xFFFF, 0]],
            b"hdmx" | b"sbix" => args_list = vec![[num_glyphs, 0, 0], [0, 0, 0], [num_glyphs + 1, 0, 0], [0xFFFF, 0, 0]],
            b"glyf" => {
                ctx = vec![get(b"loca")];
                let d = drv("glyf");
                drivers_of = Box::new(move |_| vec![(d, [is_long, num_glyphs, 0])]);
            }
            b"loca" => {
                ctx = vec![get(b"glyf")];
                ty = None;
                let d = drv("loca");
                drivers_of = Box::new(move |a| vec![(d, [a[0], num_glyphs, 0])]);
                args_list = vec![[is_long, 0, 0], [1 - is_long, 0, 0]];
            }
            b"cvar" => {
                let d = drv("cvar");
                drivers_of = Box::new(move |_| vec![(d, [axis_count, 0, 0])]);
            }
            b"fvar" => {
                ctx = vec![get(b"avar")];
                if ctx[0].is_empty() {
                    ctx.clear();
                }
            }
            b"avar" => {
                ctx = vec![get(b"fvar")];
                let d = drv("fvar");
                let iv = drv("ivs");
                drivers_of = Box::new(move |_| vec![(d, [0, 0, 1]), (iv, [0, 0, tagu(b"avar")])]);
            }
            b"CFF " => {
                ty = None;
                let d = drv("cff");
                drivers_of = Box::new(move |_| vec![(d, [0, 0, 0])]);
            }
            b"CFF2" => {
                ty = None;
                let d = drv("cff2");
                drivers_of = Box::new(move |_| vec![(d, [0, 0, 0])]);
            }
            b"CBLC" => ctx = vec![get(b"CBDT")],
            b"EBLC" => ctx = vec![get(b"EBDT")],
            b"CBDT" => {
                ctx = vec![get(b"CBLC")];
                let d = drv("bitmap");
                drivers_of = Box::new(move |_| vec![(d, [0, 0, 2])]);
            }
            b"EBDT" => {
                ctx = vec![get(b"EBLC")];
                let d = drv("bitmap");
                drivers_of = Box::new(move |_| vec![(d, [0, 0, 3])]);
            }
            b"fpgm" | b"prep" => {
                let d = drv("bytecode");
                drivers_of = Box::new(move |_| vec![(d, [0; 3])]);
            }
            b"cvt " => {
                let d = drv("raw");
                drivers_of = Box::new(move |_| vec![(d, [0, 0, tagu(b"cvt ")])]);
            }
            b"IFT " | b"IFTX" => {
                ty = registry::find("ift::Ift");
                let d = drv("ift");
                drivers_of = Box::new(move |_| vec![(d, [0, 0, 0])]);
            }
            _ => {}
        }
        // sub-blob seeds: individual glyphs, charstrings and DICTs get their own (small) seeds so that
        // deviations — including all pairs — land inside the hand-written decoders
        if &tb == b"gvar" {
            let glyf = get(b"glyf");
            let loca = get(b"loca");
            if !glyf.is_empty() && !loca.is_empty() {
                // the hostile-glyf counterpart: glyf is deviated, gvar + loca are pristine context
                let gn = glyf.len();
                out.push(Seed {
                    name: format!("{}#glyf+gvar+loca", font_name),
                    class: "table",
                    ty: None,
                    args: [0; 3],
                    drivers: vec![(drv("gvar2"), [is_long, num_glyphs, 1])],
                    data: glyf.clone(),
                    ctx: vec![data.clone(), loca.clone()],
                    pos_limit: gn,
                    extra_trunc: vec![],
                });
                let n = data.len();
                out.push(Seed {
                    name: format!("{}#gvar+glyf+loca", font_name),
                    class: "table",
                    ty: None,
                    args: [0; 3],
                    drivers: vec![(drv("gvar2"), [is_long, num_glyphs, 0])],
                    data: data.clone(),
                    ctx: vec![glyf, loca],
                    pos_limit: n,
                    extra_trunc: vec![],
                });
            }
        }
        match &tb {
            b"glyf" => {
                use read_fonts::tables::loca::Loca;
                if let Ok(loca) = Loca::read(read_fonts::FontData::new(&ctx[0]), is_long != 0) {
                    let mut taken = 0;
                    for g in 0..loca.len() {
                        let (Some(a), Some(b)) = (loca.get_raw(g), loca.get_raw(g + 1)) else { break };
                        if b > a {
                            if let Some(blob) = data.get(a as usize..b as usize) {
                                out.push(Seed {
                                    name: format!("{}#glyf/glyph{}", font_name, g),
                                    class: "table",
                                    ty: registry::find("glyf::Glyph"),
                                    args: [0; 3],
                                    drivers: vec![(drv("glyph"), [0; 3])],
                                    data: blob.to_vec(),
                                    ctx: vec![],
                                    pos_limit: blob.len(),
                                    extra_trunc: vec![],
                                });
                                taken += 1;
                            }
                        }
                        if taken >= 24 {
                            break;
                        }
                    }
                }
            }
            b"CFF " => {
                let (cs, dicts) = crate::drivers3::cff_sub_blobs(&data, 24);
                for (i, c) in cs.into_iter().enumerate() {
                    let n = c.len();
                    out.push(Seed {
                        name: format!("{}#CFF/charstring{}", font_name, i),
                        class: "table",
                        ty: None,
                        args: [0; 3],
                        drivers: vec![(drv("psblob"), [0, 0, 3])],
                        data: c,
                        ctx: vec![],
                        pos_limit: n,
                        extra_trunc: vec![],
                    });
                }
                for (i, d) in dicts.into_iter().enumerate() {
                    let n = d.len();
                    out.push(Seed {
                        name: format!("{}#CFF/dict{}", font_name, i),
                        class: "table",
                        ty: None,
                        args: [0; 3],
                        drivers: vec![(drv("psblob"), [0, 0, 2])],
                        data: d,
                        ctx: vec![],
                        pos_limit: n,
                        extra_trunc: vec![],
                    });
                }
            }
            _ => {}
        }
        for args in args_list {
            let drivers = drivers_of(args);
            if ty.is_none() && drivers.is_empty() {
                let t = String::from_utf8_lossy(&tb).to_string();
                if !st.tables_without_target.contains(&t) {
                    st.tables_without_target.push(t);
                }
                continue;
            }
            let n = if args == [0, 0, 0] && !matches!(&tb, b"hmtx" | b"vmtx" | b"hdmx" | b"sbix" | b"loca") {
                name.clone()
            } else {
                format!("{}@{},{}", name, args[0], args[1])
            };
            let len = data.len();
            out.push(Seed {
                name: n,
                class: "table",
                ty,
                args,
                drivers,
                data: data.clone(),
                ctx: ctx.clone(),
                pos_limit: len,
                extra_trunc: vec![],
            });
        }
    }
}

fn file_seed(name: &str, bytes: &[u8], out: &mut Vec<Seed>) {
    // deviate the header + table directories; truncate additionally at every table boundary +-1
    let mut limit = 12usize.min(bytes.len());
    let mut truncs: Vec<u32> = vec![];
    let mut note = |f: &FontRef, base_guess: usize| {
        let n = f.table_directory.num_tables() as usize;
        limit = limit.max(base_guess + 12 + 16 * n);
        for r in f.table_directory.table_records() {
            let o = r.offset() as u64;
            let l = r.length() as u64;
            for b in [o, o + l] {
                for d in [b.saturating_sub(1), b, b + 1] {
                    if d < bytes.len() as u64 {
                        truncs.push(d as u32);
                    }
                }
            }
        }
    };
    match FileRef::new(bytes) {
        Ok(FileRef::Font(f)) => note(&f, 0),
        Ok(FileRef::Collection(c)) => {
            // TTC header: 12 + 4*n offsets, each font's directory somewhere after
            for (i, f) in c.iter().enumerate() {
                if let Ok(f) = f {
                    let off = bytes
                        .get(12 + 4 * i..16 + 4 * i)
                        .map(|b| u32::from_be_bytes([b[0], b[1], b[2], b[3]]) as usize)
                        .unwrap_or(0);
                    note(&f, off);
                }
            }
        }
        Err(_) => {}
    }
    truncs.sort();
    truncs.dedup();
    truncs.retain(|t| *t as usize >= limit);
    out.push(Seed {
        name: format!("{}#file", name),
        class: "file",
        ty: None,
        args: [0; 3],
        drivers: vec![(drv("file"), [0; 3])],
        data: bytes.to_vec(),
        ctx: vec![],
        pos_limit: limit.min(bytes.len()),
        extra_trunc: truncs,
    });
}

/// Build the full, de-duplicated, deterministic seed list.
pub fn build_seeds(tier: Tier) -> (Vec<Seed>, SeedStats) {
    let mut st = SeedStats {
        fonts: 0,
        tables_seen: 0,
        tables_without_target: vec![],
        duplicates_dropped: 0,
        static_fit_tried: 0,
        too_big: 0,
    };
    let mut out: Vec<Seed> = vec![];
    // (i) corpus tables + whole files
    for (name, bytes) in vcore::corpus_fonts() {
        st.fonts += 1;
        file_seed(&name, &bytes, &mut out);
        match FileRef::new(&bytes) {
            Ok(FileRef::Font(f)) => table_seeds(&name, &f, &mut out, &mut st),
            Ok(FileRef::Collection(c)) => {
                for (i, f) in c.iter().enumerate() {
                    if let Ok(f) = f {
                        table_seeds(&format!("{name}[{i}]"), &f, &mut out, &mut st);
                    }
                }
            }
            Err(_) => {}
        }
    }
    // (i-b) synthesised families for recursion guards (independent of the corpus)
    crate::synth::synth_seeds(&mut out);
    // cheap (about 0.1 s of CPU in total) and ahead of the 18 000 sparse-bit-set units, so that a deadline on a busy
    // machine never cuts it
    crate::extarg::extarg_seeds(&mut out);
    // hand-assembled AAT state tables / lookups, each run once (about 0.2 s of CPU in total)
    crate::aatsynth::aatsynth_seeds(&mut out);
    crate::sparsebits::sparsebits_seeds(&mut out);
    crate::capsweep::capsweep_seeds(&mut out);
    // (ii) font-test-data static blobs: fit matrix — a blob seeds every type (and argument value)
    // that reads it successfully, exposes >= 2 fields, resolves everything without a single error and
    // visits at least one node per 4 bytes of the blob (i.e. the type's shape really covers the blob;
    // without this rule most small types "fit" any bytes and the matrix is mostly noise)
    for (bname, get) in registry::STATIC_BLOBS {
        let blob = get();
        for (ti, t) in TYPES.iter().enumerate() {
            for args in arg_domain(t.arg_shape, blob.len()) {
                st.static_fit_tried += 1;
                let mut w = Walker::new(20_000, 12);
                let r = vcore::guard(|| (t.read)(&blob, args, &mut w));
                let fits = matches!(r, Ok(true))
                    && w.root_fields >= 2
                    && !w.horizon_hit
                    && w.errs == 0
                    && w.nodes as usize * 4 >= blob.len();
                // a panic on the pristine blob is still a seed: the engine will report it
                if fits || r.is_err() {
                    let n = if t.arg_shape.is_empty() {
                        format!("static:{}>{}", bname, t.name)
                    } else {
                        format!("static:{}>{}@{},{},{}", bname, t.name, args[0], args[1], args[2])
                    };
                    out.push(Seed {
                        name: n,
                        class: "static",
                        ty: Some(ti),
                        args,
                        drivers: drivers_for_type(ti, args),
                        data: blob.clone(),
                        ctx: vec![],
                        pos_limit: blob.len(),
                        extra_trunc: vec![],
                    });
                }
            }
        }
    }
    // (iv) all-zero buffers: one seed per (type, argument value); the engine enumerates every
    // length 0..=L and every deviation of each
    let zl = tier.pick(96usize, 160usize);
    for (ti, t) in TYPES.iter().enumerate() {
        for args in arg_domain(t.arg_shape, zl) {
            let n = if t.arg_shape.is_empty() {
                format!("zero>{}", t.name)
            } else {
                format!("zero>{}@{},{},{}", t.name, args[0], args[1], args[2])
            };
            out.push(Seed {
                name: n,
                class: "zero",
                ty: Some(ti),
                args,
                drivers: drivers_for_type(ti, args),
                data: vec![0u8; zl],
                ctx: vec![],
                pos_limit: zl,
                extra_trunc: vec![],
            });
        }
    }
    for (k, nm) in [(1u32, "aat::StateTable"), (2, "aat::ExtendedStateTable")] {
        out.push(Seed {
            name: format!("zero>{nm}"),
            class: "zero",
            ty: None,
            args: [0; 3],
            drivers: vec![(drv("aat"), [0, 0, k])],
            data: vec![0u8; zl],
            ctx: vec![],
            pos_limit: zl,
            extra_trunc: vec![],
        });
    }
    // (iv-b) types whose fixed-size part is longer than the zero-buffer bound: the shortest all-zero
    // buffer (from a fixed ladder of lengths) that reads successfully becomes an ordinary seed
    for (ti, t) in TYPES.iter().enumerate() {
        for args in arg_domain(t.arg_shape, zl).into_iter().take(2) {
            let reads = |len: usize| {
                let z = vec![0u8; len];
                let mut w = Walker::new(20_000, 12);
                matches!(vcore::guard(|| (t.read)(&z, args, &mut w)), Ok(true))
            };
            if (0..=zl).step_by(8).any(reads) || reads(zl) {
                continue;
            }
            for len in [128usize, 192, 256, 264, 384, 512, 520, 768, 1024, 2048, 4096, 8192, 8208, 16384] {
                if len > zl && reads(len) {
                    out.push(Seed {
                        name: format!("zerobig:{}>{}@{},{},{}", len, t.name, args[0], args[1], args[2]),
                        class: "static",
                        ty: Some(ti),
                        args,
                        drivers: drivers_for_type(ti, args),
                        data: vec![0u8; len],
                        ctx: vec![],
                        pos_limit: len,
                        extra_trunc: vec![],
                    });
                    break;
                }
            }
        }
    }
    // de-duplicate identical (target, bytes, context)
    let mut seen = HashSet::new();
    let before = out.len();
    out.retain(|s| seen.insert(key_of(s)));
    st.duplicates_dropped = before - out.len();
    (out, st)
}

// ------------------------------------------------------------------------------------------
// (de)serialisation: the seed list is built in a supervised child process (it parses the pristine
// corpus with the code under test, which may hang or abort under a mutation) and handed to the
// supervisor and the workers through a file.
// ------------------------------------------------------------------------------------------

fn put_u32(o: &mut Vec<u8>, v: u32) {
    o.extend_from_slice(&v.to_le_bytes());
}
fn put_bytes(o: &mut Vec<u8>, b: &[u8]) {
    put_u32(o, b.len() as u32);
    o.extend_from_slice(b);
}

pub fn serialize(seeds: &[Seed], st: &SeedStats) -> Vec<u8> {
    let mut o = Vec::new();
    put_u32(&mut o, 0x5EED_0001);
    let stats = serde_json::json!({
        "fonts": st.fonts, "tables_seen": st.tables_seen, "without": st.tables_without_target,
        "dups": st.duplicates_dropped, "fit": st.static_fit_tried, "too_big": st.too_big,
    })
    .to_string();
    put_bytes(&mut o, stats.as_bytes());
    put_u32(&mut o, seeds.len() as u32);
    for s in seeds {
        put_bytes(&mut o, s.name.as_bytes());
        put_bytes(&mut o, s.class.as_bytes());
        put_u32(&mut o, s.ty.map(|t| t as u32 + 1).unwrap_or(0));
        for a in s.args {
            put_u32(&mut o, a);
        }
        put_u32(&mut o, s.drivers.len() as u32);
        for (d, a) in &s.drivers {
            put_u32(&mut o, *d as u32);
            for x in a {
                put_u32(&mut o, *x);
            }
        }
        put_bytes(&mut o, &s.data);
        put_u32(&mut o, s.ctx.len() as u32);
        for c in &s.ctx {
            put_bytes(&mut o, c);
        }
        put_u32(&mut o, s.pos_limit as u32);
        put_u32(&mut o, s.extra_trunc.len() as u32);
        for t in &s.extra_trunc {
            put_u32(&mut o, *t);
        }
    }
    o
}

pub fn deserialize(b: &[u8]) -> Option<(Vec<Seed>, SeedStats)> {
    struct R<'a>(&'a [u8], usize);
    impl<'a> R<'a> {
        fn u32(&mut self) -> Option<u32> {
            let v = self.0.get(self.1..self.1 + 4)?;
            self.1 += 4;
            Some(u32::from_le_bytes([v[0], v[1], v[2], v[3]]))
        }
        fn bytes(&mut self) -> Option<&'a [u8]> {
            let n = self.u32()? as usize;
            let v = self.0.get(self.1..self.1 + n)?;
            self.1 += n;
            Some(v)
        }
    }
    let mut r = R(b, 0);
    if r.u32()? != 0x5EED_0001 {
        return None;
    }
    let stats: serde_json::Value = serde_json::from_slice(r.bytes()?).ok()?;
    let st = SeedStats {
        fonts: stats["fonts"].as_u64()? as usize,
        tables_seen: stats["tables_seen"].as_u64()? as usize,
        tables_without_target: stats["without"].as_array()?.iter().filter_map(|v| v.as_str().map(String::from)).collect(),
        duplicates_dropped: stats["dups"].as_u64()? as usize,
        static_fit_tried: stats["fit"].as_u64()?,
        too_big: stats["too_big"].as_u64()? as usize,
    };
    let n = r.u32()? as usize;
    let mut out = Vec::with_capacity(n);
    for _ in 0..n {
        let name = String::from_utf8(r.bytes()?.to_vec()).ok()?;
        let class: &'static str = match r.bytes()? {
            b"table" => "table",
            b"file" => "file",
            b"static" => "static",
            b"zero" => "zero",
            b"synth" => "synth",
            _ => return None,
        };
        let ty = match r.u32()? {
            0 => None,
            t => Some(t as usize - 1),
        };
        let args = [r.u32()?, r.u32()?, r.u32()?];
        let nd = r.u32()? as usize;
        let mut drivers = vec![];
        for _ in 0..nd {
            let d = r.u32()? as usize;
            drivers.push((d, [r.u32()?, r.u32()?, r.u32()?]));
        }
        let data = r.bytes()?.to_vec();
        let nc = r.u32()? as usize;
        let mut ctx = vec![];
        for _ in 0..nc {
            ctx.push(r.bytes()?.to_vec());
        }
        let pos_limit = r.u32()? as usize;
        let nt = r.u32()? as usize;
        let mut extra_trunc = vec![];
        for _ in 0..nt {
            extra_trunc.push(r.u32()?);
        }
        out.push(Seed { name, class, ty, args, drivers, data, ctx, pos_limit, extra_trunc });
    }
    Some((out, st))
}
