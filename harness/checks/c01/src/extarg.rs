//! External-argument boundary family.
//!
//! Every other family deviates the *bytes*; this one keeps the bytes pristine (corpus fonts, font-test-data
//! blobs, a few well-formed synthetic tables) and enumerates the *caller supplied* numeric arguments of the
//! hand-written read-fonts APIs over a boundary alphabet, in a fixed order:
//!   glyph ids      {0, 1, n-1, n, n+1, 0xFFFE, 0xFFFF, 0x10000, 0xFFFFFF, u32::MAX-1, u32::MAX}
//!   u16 counts     {0, 1, n-1, n, n+1, 0xFFFE, 0xFFFF}
//!   u32 counts     {0, 1, n, 0xFFFF, 0x10000, u32::MAX-1, u32::MAX}
//!   usize indices  {0, 1, n-1, n, n+1, 0xFFFF, 0x10000, u32::MAX, usize::MAX-1, usize::MAX}
//!   coordinates    slices of length {0, 1, axes-1, axes, axes+1, 65} x 2 fill patterns
//! (n = the realistic value: the table's own count / the font's maxp, hhea, fvar value); two arguments are
//! crossed. Oracles: (a) nothing panics (each API group runs under its own guard, so one panic does not hide
//! the rest) or hangs (worker watchdog); (b) agreement oracles, asserted only where the API documentation or
//! the OpenType text promises them and only on tables that pass a well-formedness predicate computed from
//! the generated accessors (the comment at each `disagree` call names the promise).

use crate::drivers::{report_disagreement, report_driver_panic, rerr};
use crate::seeds::Seed;
use crate::walker::Walker;
use read_fonts::tables::cmap::{Cmap, Cmap12, Cmap12IterLimits, CmapSubtable};
use read_fonts::types::{F2Dot14, GlyphId, GlyphId16, Tag};
use read_fonts::{CollectionRef, FontData, FontRead, FontReadWithArgs, FontRef, TableProvider};
use std::cell::{Cell, RefCell};
use std::collections::BTreeMap;

thread_local! {
    /// per-API call counters and oracle-application counters of this worker (reported on the unit's S line)
    static STATS: RefCell<BTreeMap<&'static str, u64>> = const { RefCell::new(BTreeMap::new()) };
    /// the argument values of the call in flight (for the sub-case label of a caught panic)
    static ARGS: Cell<[u64; 3]> = const { Cell::new([0; 3]) };
    /// set while the extarg driver re-uses the layout drivers: coverage_obs / classdef_obs then also run the
    /// boundary family on every table they meet
    pub static LAYOUT_HOOK: Cell<bool> = const { Cell::new(false) };
}

pub fn take_stats() -> BTreeMap<&'static str, u64> {
    STATS.with(|s| std::mem::take(&mut *s.borrow_mut()))
}
fn stat(k: &'static str, n: u64) {
    STATS.with(|s| *s.borrow_mut().entry(k).or_insert(0) += n);
}
/// one API call with the given argument values is about to be made
#[inline]
fn call(w: &mut Walker, api: &'static str, a: u64, b: u64, c: u64) {
    ARGS.with(|x| x.set([a, b, c]));
    w.calls += 1;
    stat(api, 1);
}
fn oracle(name: &'static str) {
    stat(name, 1);
}
fn disagree(what: &'static str, detail: String) {
    report_disagreement(what, detail);
}
/// run one API group under its own guard
fn sub(w: &mut Walker, label: &'static str, f: impl FnOnce(&mut Walker)) {
    if let Err(p) = vcore::guard(|| f(w)) {
        LAYOUT_HOOK.with(|h| h.set(false));
        w.h.byte(0xEE);
        let a = ARGS.with(|x| x.get());
        report_driver_panic(p, format!("extarg {label}: last call arguments {:#x}, {:#x}, {:#x}", a[0], a[1], a[2]));
    }
}

// ------------------------------------------------------------------------------------------
// alphabets
// ------------------------------------------------------------------------------------------

fn dedup<T: Ord + Copy>(mut v: Vec<T>) -> Vec<T> {
    let mut seen = std::collections::BTreeSet::new();
    v.retain(|x| seen.insert(*x));
    v
}
pub fn gids(n: u32) -> Vec<u32> {
    dedup(vec![0, 1, n.wrapping_sub(1), n, n.wrapping_add(1), 0xFFFE, 0xFFFF, 0x10000, 0xFF_FFFF, u32::MAX - 1, u32::MAX])
}
pub fn u16s(n: u16) -> Vec<u16> {
    dedup(vec![0, 1, n.wrapping_sub(1), n, n.wrapping_add(1), 0xFFFE, 0xFFFF])
}
pub fn u32s(n: u32) -> Vec<u32> {
    dedup(vec![0, 1, n.wrapping_sub(1), n, n.wrapping_add(1), 0xFFFF, 0x10000, u32::MAX - 1, u32::MAX])
}
pub fn idxs(n: usize) -> Vec<usize> {
    dedup(vec![0, 1, n.wrapping_sub(1), n, n.wrapping_add(1), 0xFFFF, 0x10000, u32::MAX as usize, usize::MAX - 1, usize::MAX])
}
/// coordinate slices: lengths {0, 1, axes-1, axes, axes+1, 65} x {all +1.0, alternating +0.5 / -1.0}
pub fn coord_sets(axes: usize) -> Vec<Vec<F2Dot14>> {
    let f = F2Dot14::from_bits;
    let lens = dedup(vec![0usize, 1, axes.saturating_sub(1), axes, axes + 1, 65]);
    let mut out = vec![];
    for l in lens {
        out.push(vec![f(0x4000); l]);
        if l > 0 {
            out.push((0..l).map(|i| if i % 2 == 0 { f(0x2000) } else { f(-0x4000) }).collect());
        }
    }
    out
}
/// `coords` extended with zeros to `axes` entries (unchanged when already that long)
fn zero_padded(coords: &[F2Dot14], axes: usize) -> Vec<F2Dot14> {
    let mut v = coords.to_vec();
    while v.len() < axes {
        v.push(F2Dot14::ZERO);
    }
    v
}

pub fn describe() -> serde_json::Value {
    serde_json::json!({
        "glyph_ids": "0,1,n-1,n,n+1,0xFFFE,0xFFFF,0x10000,0xFFFFFF,u32::MAX-1,u32::MAX",
        "u16_counts": "0,1,n-1,n,n+1,0xFFFE,0xFFFF",
        "u32_counts": "0,1,n-1,n,n+1,0xFFFF,0x10000,u32::MAX-1,u32::MAX",
        "usize_indices": "0,1,n-1,n,n+1,0xFFFF,0x10000,u32::MAX,usize::MAX-1,usize::MAX",
        "coordinate_slices": "lengths 0,1,axes-1,axes,axes+1,65 x {all 1.0, alternating 0.5/-1.0}",
        "cmap12_limits": "max_char {0,1,largest char-1,largest char,0xFFFF,0x10FFFF,u32::MAX-1,u32::MAX} x glyph_count {0,1,largest gid,largest gid+1,0xFFFF,0x10000,u32::MAX-1,u32::MAX} + default() + default_for_font()",
        "inputs": "every corpus font (each font of a collection), every font-test-data blob that reads as one of the covered types, synthetic well-formed cmap12 / coverage / classdef tables at the glyph-id and code-point limits",
        "agreement_oracles": AGREEMENTS,
    })
}

pub const AGREEMENTS: &[&str] = &[
    "Cmap12::iter_with_limits(L) == iter() filtered by cp <= L.max_char && gid < L.glyph_count (well-formed subtables; prefix form when iter() is longer than the scan cap) — implies monotonicity and equality for covering limits; also for default() and default_for_font()",
    "Cmap12::map_codepoint(cp) == the pair iter() yields for cp (well-formed, complete)",
    "FontRef::from_index(i) vs CollectionRef::get(i) / FontRef::new (index must be 0 for a single font)",
    "TableProvider::loca(None) == loca(Some(head.indexToLocFormat == 1))",
    "Loca::get_raw(i) is Some iff i <= len() (non-empty); get_glyf(gid >= len()) is Err",
    "SimpleGlyph::read_points_fast is Ok only for buffers of num_points() entries and then equals points() (documented)",
    "Hmtx/Vmtx::advance(g) == advance(numberOfLongMetrics-1) for numberOfLongMetrics <= g < numGlyphs",
    "Hdmx::record_for_size(s) == the record with that pixel size (records sorted)",
    "Coverage::get(GlyphId16 g) == get(GlyphId g) == position of g in iter() (well-formed); get(gid > 0xFFFF) == None",
    "ClassDef::get(g) == class iter() yields for g, 0 for glyphs iter() does not yield (well-formed, complete)",
    "DeltaSetIndexMap::get(i >= mapCount) == get(mapCount-1)",
    "Tuple::compute_scalar{,_f32}(coords) == the same with coords zero-padded to the axis count (documented)",
    "ItemVariationStore::compute_delta, Hvar/Vvar/Mvar deltas, Gvar::phantom_point_deltas, Cvar::deltas: a non-empty short coordinate slice == the slice zero-padded to the axis count",
    "Cvar::deltas into a shorter output slice == prefix of the result for a longer one",
    "Gvar::data_for_gid(g) is Ok(None) iff glyph_variation_data(g) is Ok(None)",
    "Fvar::user_to_normalized without avar: shorter output == prefix, excess entries zero (documented)",
    "Post::glyph_name(g >= num_names()) == None",
    "postscript Index::get(i >= count) is Err, get_offset(i > count) is Err; Stack::fixed_array(i >= len) is Err",
    "sbix Strike::glyph_data(g >= numGlyphs argument) is Err; BitmapSize::location(g outside start..=end) is Err",
    "Svg::glyph_data: Ok(None) for gid > 0xFFFF, same document for every glyph of a record (sorted records)",
    "Colr v0_base_glyph / v1_base_glyph / v1_clip_box: never Some for gid > 0xFFFF; v0_layer / v1_layer(i >= count) is Err",
    "Vorg::vertical_origin_y(gid > 0xFFFF) == default; Ankr::anchor_points(gid > 0xFFFF) is Err; Feat::find == linear search (sorted)",
    "ScriptList / FeatureList / Script::lang_sys get(i): tag of record i for i < n, Err for i >= n; index_for_tag(tag of record i) == i (sorted, unique)",
    "FontData::split_off / slice / read_at vs the byte slice; LookupFlag set/get mark attachment class; MacRoman decode/encode round trip",
];

// ------------------------------------------------------------------------------------------
// FontData, pure helpers
// ------------------------------------------------------------------------------------------

fn fontdata_group(bytes: &[u8], w: &mut Walker) {
    let fd = FontData::new(bytes);
    let n = bytes.len();
    for p in idxs(n) {
        call(w, "FontData::split_off", p as u64, 0, 0);
        let r = fd.split_off(p);
        oracle("agree.FontData");
        // documented: "Returns self[pos..]"
        if r.map(|d| d.len()) != bytes.get(p..).map(|b| b.len()) {
            disagree("FontData::split_off vs the byte slice", format!("pos {p} of {n} bytes"));
        }
        call(w, "FontData::read_at", p as u64, 0, 0);
        let a = fd.read_at::<u16>(p).ok();
        let want = p.checked_add(2).and_then(|e| bytes.get(p..e)).map(|b| u16::from_be_bytes([b[0], b[1]]));
        if a != want {
            disagree("FontData::read_at::<u16> vs the byte slice", format!("offset {p} of {n} bytes: {a:?} vs {want:?}"));
        }
        let a = fd.read_at::<u32>(p).ok();
        let want = p.checked_add(4).and_then(|e| bytes.get(p..e)).map(|b| u32::from_be_bytes([b[0], b[1], b[2], b[3]]));
        if a != want {
            disagree("FontData::read_at::<u32> vs the byte slice", format!("offset {p} of {n} bytes: {a:?} vs {want:?}"));
        }
        w.b(fd.read_be_at::<u16>(p).is_ok());
        let mut fd2 = fd;
        call(w, "FontData::take_up_to", p as u64, 0, 0);
        let t = fd2.take_up_to(p).map(|d| d.len());
        if t != (p <= n).then_some(p) || fd2.len() != if p <= n { n - p } else { n } {
            disagree("FontData::take_up_to vs the byte slice", format!("pos {p} of {n} bytes"));
        }
        for q in idxs(n) {
            call(w, "FontData::slice", p as u64, q as u64, 0);
            let r = fd.slice(p..q).map(|d| d.len());
            if r != bytes.get(p..q).map(|b| b.len()) {
                disagree("FontData::slice vs the byte slice", format!("{p}..{q} of {n} bytes"));
            }
            w.b(fd.read_array::<read_fonts::types::BigEndian<u16>>(p..q).is_ok());
        }
    }
}

fn pure_group(w: &mut Walker) {
    use read_fonts::tables::layout::LookupFlag;
    use read_fonts::tables::name::{Encoding, MacRomanMapping};
    use read_fonts::tables::variations::ItemVariationData;
    let words = [0u16, 1, 2, 0x10, 0xFF, 0x100, 0x7FFF, 0x8000, 0x8001, 0xFF00, 0xFFFE, 0xFFFF];
    for bits in words {
        call(w, "LookupFlag::from_bits_truncate", bits as u64, 0, 0);
        let f = LookupFlag::from_bits_truncate(bits);
        w.u(f.to_bits() as u64);
        for val in words {
            let mut g = f;
            call(w, "LookupFlag::set_mark_attachment_class", bits as u64, val as u64, 0);
            g.set_mark_attachment_class(val);
            w.opt_u(g.mark_attachment_class().map(|v| v as u64));
            if val <= 0xFF {
                oracle("agree.LookupFlag");
                // set then get of a valid (8-bit) class; the other flag bits are untouched
                if g.mark_attachment_class() != (val != 0).then_some(val) || (g.to_bits() & 0xFF) != (f.to_bits() & 0xFF) {
                    disagree("LookupFlag::set_mark_attachment_class then mark_attachment_class", format!("bits {bits:#x} class {val}"));
                }
            }
        }
    }
    for p in words {
        for e in words {
            call(w, "name::Encoding::new", p as u64, e as u64, 0);
            w.u(Encoding::new(p, e) as u64);
        }
    }
    for b in 0..=255u8 {
        call(w, "MacRomanMapping::decode", b as u64, 0, 0);
        let c = MacRomanMapping.decode(b);
        w.h.u64(c as u64);
        oracle("agree.MacRoman");
        if MacRomanMapping.encode(c) != Some(b) {
            disagree("MacRomanMapping::encode(decode(b))", format!("byte {b}"));
        }
    }
    for a in words {
        for b in words {
            call(w, "ItemVariationData::delta_row_len", a as u64, b as u64, 0);
            w.u(ItemVariationData::delta_row_len(a, b) as u64);
            for c in [0u16, 1, 0x7FFF, 0xFFFF] {
                call(w, "ItemVariationData::delta_sets_len", c as u64, a as u64, b as u64);
                w.u(ItemVariationData::delta_sets_len(c, a, b) as u64);
            }
        }
    }
    // records whose reader takes plain numeric arguments: InstanceRecord (axis_count, instance_size),
    // hdmx DeviceRecord (num_glyphs, size_device_record) on a 64-byte buffer
    let buf: Vec<u8> = (0..64u8).collect();
    for a in u16s(3) {
        for b in u16s(18) {
            call(w, "InstanceRecord::read", a as u64, b as u64, 0);
            match read_fonts::tables::fvar::InstanceRecord::read(FontData::new(&buf), a, b) {
                Ok(r) => w.u(r.coordinates.len() as u64),
                Err(e) => rerr(w, &e),
            }
        }
        for b in u32s(8) {
            call(w, "hdmx::DeviceRecord::read", a as u64, b as u64, 0);
            match read_fonts::tables::hdmx::DeviceRecord::read(FontData::new(&buf), a, b) {
                Ok(r) => w.u(r.widths().len() as u64),
                Err(e) => rerr(w, &e),
            }
        }
    }
    // postscript operand stack indices
    {
        use read_fonts::tables::postscript::Stack;
        let mut s = Stack::new();
        for i in 0..5 {
            let _ = s.push(i * 7);
        }
        for i in idxs(s.len()) {
            call(w, "Stack::get_i32", i as u64, 0, 0);
            let a = s.get_i32(i);
            call(w, "Stack::get_fixed", i as u64, 0, 0);
            let b = s.get_fixed(i);
            call(w, "Stack::fixed_array", i as u64, 0, 0);
            let c = s.fixed_array::<2>(i);
            w.b(a.is_ok());
            w.b(b.is_ok());
            w.b(c.is_ok());
            oracle("agree.Stack");
            // (get_i32 / get_fixed index the backing array, not the live part of the stack: no promise there)
            if i >= s.len() && c.is_ok() {
                disagree("Stack::fixed_array beyond len()", format!("index {i} of {}", s.len()));
            }
            w.b(s.verify_exact_len(i).is_ok());
            w.b(s.verify_at_least_len(i).is_ok());
        }
    }
}

// ------------------------------------------------------------------------------------------
// whole files: from_index / CollectionRef::get
// ------------------------------------------------------------------------------------------

fn dir_key(f: &FontRef) -> (u16, Vec<Tag>) {
    (f.table_directory.num_tables(), f.table_directory.table_records().iter().take(64).map(|r| r.tag()).collect())
}

fn file_group(data: &[u8], w: &mut Walker) {
    let coll = CollectionRef::new(data).ok();
    let n = coll.as_ref().map(|c| c.len()).unwrap_or(1);
    let single = FontRef::new(data).ok();
    for i in u32s(n) {
        call(w, "FontRef::from_index", i as u64, 0, 0);
        let a = FontRef::from_index(data, i);
        w.b(a.is_ok());
        match &coll {
            Some(c) => {
                call(w, "CollectionRef::get", i as u64, 0, 0);
                let b = c.get(i);
                oracle("agree.from_index");
                // from_index on a collection file is documented as the font at that index of the collection
                if a.is_ok() != b.is_ok() || (a.is_ok() && dir_key(a.as_ref().unwrap()) != dir_key(b.as_ref().unwrap())) {
                    disagree("FontRef::from_index vs CollectionRef::get", format!("index {i} of {n}"));
                }
                if i >= n && b.is_ok() {
                    disagree("CollectionRef::get beyond len()", format!("index {i} of {n}"));
                }
            }
            None => {
                oracle("agree.from_index");
                // documented: "If a single font file is provided, the index parameter must be 0"
                let want = if i == 0 { single.as_ref().map(dir_key) } else { None };
                if a.as_ref().ok().map(dir_key) != want {
                    disagree("FontRef::from_index on a single font vs FontRef::new", format!("index {i}"));
                }
            }
        }
    }
}

// ------------------------------------------------------------------------------------------
// cmap
// ------------------------------------------------------------------------------------------

const CMAP12_SCAN: usize = 8192;

pub fn cmap12_group(t: &Cmap12, extra: &[Cmap12IterLimits], w: &mut Walker) {
    let groups = t.groups();
    // well-formed per the OpenType text: groups sorted by startCharCode, not overlapping, start <= end; plus no
    // glyph id wrap-around inside a group (then "gid < glyph_count" is monotone within every group)
    let mut wf = groups.len() <= 100_000;
    let mut prev_end: Option<u32> = None;
    for g in groups.iter().take(100_000) {
        let (s, e, gid) = (g.start_char_code(), g.end_char_code(), g.start_glyph_id());
        if s > e || prev_end.is_some_and(|p| s <= p) || gid.checked_add(e - s).is_none() {
            wf = false;
            break;
        }
        prev_end = Some(e);
    }
    call(w, "Cmap12::iter", 0, 0, 0);
    let base: Vec<(u32, u32)> = t.iter().take(CMAP12_SCAN).map(|(c, g)| (c, g.to_u32())).collect();
    let complete = base.len() < CMAP12_SCAN;
    w.u(base.len() as u64);
    let max_cp = base.iter().map(|p| p.0).max().unwrap_or(0x41);
    let max_gid = base.iter().map(|p| p.1).max().unwrap_or(3);
    let mut limits: Vec<Cmap12IterLimits> = vec![];
    for max_char in dedup(vec![0, 1, max_cp.wrapping_sub(1), max_cp, 0xFFFF, 0x10FFFF, u32::MAX - 1, u32::MAX]) {
        for glyph_count in dedup(vec![0, 1, max_gid, max_gid.wrapping_add(1), 0xFFFF, 0x10000, u32::MAX - 1, u32::MAX]) {
            limits.push(Cmap12IterLimits { max_char, glyph_count });
        }
    }
    limits.push(Cmap12IterLimits::default());
    limits.extend_from_slice(extra);
    for lim in limits {
        let expected: Vec<(u32, u32)> = base.iter().copied().filter(|(c, g)| *c <= lim.max_char && *g < lim.glyph_count).collect();
        call(w, "Cmap12::iter_with_limits", lim.max_char as u64, lim.glyph_count as u64, 0);
        let got: Vec<(u32, u32)> = t.iter_with_limits(lim).take(expected.len() + 1).map(|(c, g)| (c, g.to_u32())).collect();
        w.u(got.len() as u64);
        w.calls += got.len() as u64;
        if let Some(l) = got.last() {
            w.h.u64(((l.0 as u64) << 32) | l.1 as u64);
        }
        if !wf {
            continue;
        }
        oracle("agree.Cmap12::iter_with_limits");
        // documented: "all (codepoint, glyph identifier) pairs in the subtable within the given limits", limits =
        // "the maximum valid character" (inclusive) and "the number of glyphs in the font". For a well-formed
        // subtable iter() yields code points in increasing order, so what lies behind the scanned prefix can only
        // follow the filtered prefix.
        let ok = if complete { got == expected } else { got.len() >= expected.len() && got[..expected.len()] == expected[..] };
        if !ok {
            let firstdiff = got.iter().zip(expected.iter()).position(|(a, b)| a != b).unwrap_or(got.len().min(expected.len()));
            disagree(
                "Cmap12::iter_with_limits vs iter() filtered by the limits",
                format!(
                    "limits max_char={:#x} glyph_count={:#x}: {} pairs expected{}, {} yielded, first difference at pair {} (expected {:?}, got {:?})",
                    lim.max_char,
                    lim.glyph_count,
                    expected.len(),
                    if complete { "" } else { " (prefix)" },
                    got.len().min(expected.len() + 1),
                    firstdiff,
                    expected.get(firstdiff),
                    got.get(firstdiff)
                ),
            );
        }
    }
    // map_codepoint over boundary code points and the edges of the first and last groups
    let mut cps: Vec<u32> = vec![0, 1, 0x41, 0xFFFE, 0xFFFF, 0x10000, 0x10FFFF, 0x110000, u32::MAX - 1, u32::MAX];
    for g in groups.iter().take(4).chain(groups.iter().rev().take(4)) {
        for c in [g.start_char_code(), g.end_char_code()] {
            cps.extend([c.wrapping_sub(1), c, c.wrapping_add(1)]);
        }
    }
    for cp in dedup(cps) {
        call(w, "Cmap12::map_codepoint", cp as u64, 0, 0);
        let got = t.map_codepoint(cp).map(|g| g.to_u32());
        w.opt_u(got.map(|g| g as u64));
        if wf && complete {
            oracle("agree.Cmap12::map_codepoint");
            // two ways of asking for the glyph of one code point
            let want = base.binary_search_by_key(&cp, |p| p.0).ok().map(|i| base[i].1);
            if got != want {
                disagree("Cmap12::map_codepoint vs iter()", format!("code point {cp:#x}: {got:?} vs {want:?}"));
            }
        }
    }
}

pub fn cmap_group(data: &[u8], font_limits: &[Cmap12IterLimits], w: &mut Walker) {
    let Ok(cmap) = Cmap::read(FontData::new(data)) else { return };
    let cps = [0u32, 1, 0x41, 0xFFFE, 0xFFFF, 0x10000, 0x10FFFF, 0x110000, u32::MAX - 1, u32::MAX];
    for cp in cps {
        call(w, "Cmap::map_codepoint", cp as u64, 0, 0);
        w.opt_u(cmap.map_codepoint(cp).map(|g| g.to_u32() as u64));
    }
    for rec in cmap.encoding_records().iter().take(16) {
        let Ok(sub) = rec.subtable(cmap.offset_data()) else { continue };
        match sub {
            CmapSubtable::Format4(t) => {
                for cp in cps {
                    call(w, "Cmap4::map_codepoint", cp as u64, 0, 0);
                    w.opt_u(t.map_codepoint(cp).map(|g| g.to_u32() as u64));
                }
            }
            CmapSubtable::Format12(t) => cmap12_group(&t, font_limits, w),
            CmapSubtable::Format14(t) => {
                let sels = [0u32, 1, 0xFE00, 0xFE0F, 0xE0100, 0xE01EF, 0xFF_FFFF, 0x100_0000, u32::MAX - 1, u32::MAX];
                for cp in cps {
                    for sel in sels {
                        call(w, "Cmap14::map_variant", cp as u64, sel as u64, 0);
                        w.b(t.map_variant(cp, sel).is_some());
                    }
                }
            }
            _ => {}
        }
    }
}

/// a well-formed format 12 subtable with the given (start, end, start glyph) groups
pub fn cmap12_bytes(groups: &[(u32, u32, u32)]) -> Vec<u8> {
    let mut b = vec![0u8, 12, 0, 0];
    b.extend((16 + 12 * groups.len() as u32).to_be_bytes());
    b.extend(0u32.to_be_bytes());
    b.extend((groups.len() as u32).to_be_bytes());
    for (s, e, g) in groups {
        b.extend(s.to_be_bytes());
        b.extend(e.to_be_bytes());
        b.extend(g.to_be_bytes());
    }
    b
}

include!("extarg_tables.rs");
