//! Synthesised seed families (independent of the corpus) for recursion / nesting guards: composite glyph
//! reference graphs with a minimal gvar (for `Gvar::phantom_point_deltas` → `find_glyph_and_point_count`),
//! chains of contextual GSUB lookups that reference each other (for `Gsub::closure_glyphs`), and deeply
//! nested `Condition` format 5 tables. All tables are assembled by hand (no code under test involved).
//! Every synthesised seed is executed pristine + the 6 extension atoms only, first in the unit order.

use crate::seeds::Seed;

fn be16(v: &mut Vec<u8>, x: u16) {
    v.extend_from_slice(&x.to_be_bytes())
}
fn be32(v: &mut Vec<u8>, x: u32) {
    v.extend_from_slice(&x.to_be_bytes())
}

/// one component of a composite: (target glyph, USE_MY_METRICS)
pub type Comp = (u16, bool);

pub fn simple_glyph() -> Vec<u8> {
    let mut v = vec![];
    be16(&mut v, 1); // numberOfContours
    for _ in 0..4 {
        be16(&mut v, 0);
    }
    be16(&mut v, 0); // endPtsOfContours[0]
    be16(&mut v, 0); // instructionLength
    v.push(0x31); // on curve, x same, y same
    v.push(0); // pad to even
    v
}

pub fn composite_glyph(comps: &[Comp]) -> Vec<u8> {
    let mut v = vec![];
    be16(&mut v, 0xFFFF); // numberOfContours = -1
    for _ in 0..4 {
        be16(&mut v, 0);
    }
    for (i, (gid, umm)) in comps.iter().enumerate() {
        let mut flags = 0x0002u16; // ARGS_ARE_XY_VALUES, byte args
        if i + 1 < comps.len() {
            flags |= 0x0020; // MORE_COMPONENTS
        }
        if *umm {
            flags |= 0x0200; // USE_MY_METRICS
        }
        be16(&mut v, flags);
        be16(&mut v, *gid);
        v.push(0);
        v.push(0);
    }
    v
}

/// (glyf, long loca, gvar) for the given glyph blobs; the gvar has one axis and no data for any glyph
pub fn glyf_loca_gvar(glyphs: &[Vec<u8>]) -> (Vec<u8>, Vec<u8>, Vec<u8>) {
    let mut glyf = vec![];
    let mut loca = vec![];
    for g in glyphs {
        be32(&mut loca, glyf.len() as u32);
        glyf.extend_from_slice(g);
    }
    be32(&mut loca, glyf.len() as u32);
    let n = glyphs.len();
    let mut gvar = vec![];
    be16(&mut gvar, 1);
    be16(&mut gvar, 0);
    be16(&mut gvar, 1); // axisCount
    be16(&mut gvar, 0); // sharedTupleCount
    let data_off = 20 + 2 * (n as u32 + 1);
    be32(&mut gvar, data_off); // sharedTuplesOffset
    be16(&mut gvar, n as u16);
    be16(&mut gvar, 0); // flags: short offsets
    be32(&mut gvar, data_off); // glyphVariationDataArrayOffset
    for _ in 0..=n {
        be16(&mut gvar, 0);
    }
    (glyf, loca, gvar)
}

/// the 25 glyph shapes of the 3-glyph graph family
pub fn shapes() -> Vec<Option<Vec<Comp>>> {
    let mut s: Vec<Option<Vec<Comp>>> = vec![None]; // simple
    for t in 0..3u16 {
        for umm in [false, true] {
            s.push(Some(vec![(t, umm)]));
        }
    }
    for t0 in 0..3u16 {
        for t1 in 0..3u16 {
            for umm in [false, true] {
                s.push(Some(vec![(t0, false), (t1, umm)]));
            }
        }
    }
    s
}

pub const CHAIN_DEPTHS: [usize; 5] = [2, 63, 64, 65, 2000];

fn glyf_seed(name: String, glyphs: &[Vec<u8>], drv_gvar2: usize) -> Seed {
    let (glyf, loca, gvar) = glyf_loca_gvar(glyphs);
    let n = glyf.len();
    Seed {
        name,
        class: "synth",
        ty: None,
        args: [0; 3],
        drivers: vec![(drv_gvar2, [1, glyphs.len() as u32, 1])],
        data: glyf,
        ctx: vec![gvar, loca],
        pos_limit: n,
        extra_trunc: vec![],
    }
}

/// GSUB with `depth` contextual lookups, lookup i applying lookup i+1 at sequence index 0; the last one is
/// a single substitution (glyph 1 -> 2) or, when `cyclic`, refers back to lookup 0. `format` 1 or 3.
pub fn gsub_chain(depth: usize, cyclic: bool, format: u16) -> Vec<u8> {
    let n = depth.max(1);
    // lookups
    let mut lookups: Vec<Vec<u8>> = vec![];
    for i in 0..n {
        let mut l = vec![];
        let last = i + 1 == n;
        if last && !cyclic {
            be16(&mut l, 1); // SingleSubst
            be16(&mut l, 0);
            be16(&mut l, 1);
            be16(&mut l, 8);
            be16(&mut l, 1); // format 1
            be16(&mut l, 6); // coverage offset
            be16(&mut l, 1); // delta
            be16(&mut l, 1);
            be16(&mut l, 1);
            be16(&mut l, 1); // coverage: glyph 1
        } else {
            let next = if last { 0 } else { i as u16 + 1 };
            be16(&mut l, 5); // Context
            be16(&mut l, 0);
            be16(&mut l, 1);
            be16(&mut l, 8);
            if format == 3 {
                be16(&mut l, 3);
                be16(&mut l, 1); // glyphCount
                be16(&mut l, 1); // seqLookupCount
                be16(&mut l, 12); // coverage offset
                be16(&mut l, 0); // sequenceIndex
                be16(&mut l, next);
                be16(&mut l, 1);
                be16(&mut l, 1);
                be16(&mut l, 1);
            } else {
                be16(&mut l, 1);
                be16(&mut l, 20); // coverage offset
                be16(&mut l, 1); // ruleSetCount
                be16(&mut l, 8); // ruleSet offset
                be16(&mut l, 1); // ruleCount
                be16(&mut l, 4); // rule offset (from rule set)
                be16(&mut l, 1); // glyphCount
                be16(&mut l, 1); // seqLookupCount
                be16(&mut l, 0); // sequenceIndex
                be16(&mut l, next);
                be16(&mut l, 1);
                be16(&mut l, 1);
                be16(&mut l, 1);
            }
        }
        lookups.push(l);
    }
    let mut out = vec![];
    be16(&mut out, 1);
    be16(&mut out, 0);
    be16(&mut out, 10); // script list
    be16(&mut out, 30); // feature list
    be16(&mut out, 44); // lookup list
    // ScriptList (20 bytes): 1 script DFLT -> Script at +8 -> default LangSys at +4
    be16(&mut out, 1);
    out.extend_from_slice(b"DFLT");
    be16(&mut out, 8);
    be16(&mut out, 4); // defaultLangSys offset
    be16(&mut out, 0); // langSysCount
    be16(&mut out, 0); // lookupOrder
    be16(&mut out, 0xFFFF); // requiredFeatureIndex
    be16(&mut out, 1);
    be16(&mut out, 0);
    // FeatureList (14 bytes)
    be16(&mut out, 1);
    out.extend_from_slice(b"test");
    be16(&mut out, 8);
    be16(&mut out, 0); // featureParams
    be16(&mut out, 1);
    be16(&mut out, 0); // lookup 0
    debug_assert_eq!(out.len(), 44);
    // LookupList
    be16(&mut out, n as u16);
    let mut off = 2 + 2 * n;
    for l in &lookups {
        be16(&mut out, off as u16);
        off += l.len();
    }
    for l in &lookups {
        out.extend_from_slice(l);
    }
    out
}

/// `depth` nested Condition format 5 (negate) tables ending in a format 1 axis range
pub fn condition_chain(depth: usize) -> Vec<u8> {
    let mut v = vec![];
    for _ in 0..depth {
        be16(&mut v, 5);
        v.extend_from_slice(&[0, 0, 5]); // Offset24 to the next table
    }
    be16(&mut v, 1);
    be16(&mut v, 0);
    be16(&mut v, 0xC000);
    be16(&mut v, 0x4000);
    v
}

/// a format-0 name table with one record (platform, encoding) whose string is `s`
pub fn name_table(platform: u16, encoding: u16, s: &[u8]) -> Vec<u8> {
    let mut v = vec![];
    be16(&mut v, 0);
    be16(&mut v, 1);
    be16(&mut v, 18); // storage offset
    be16(&mut v, platform);
    be16(&mut v, encoding);
    be16(&mut v, 0); // language
    be16(&mut v, 1); // name id
    be16(&mut v, s.len() as u16);
    be16(&mut v, 0);
    v.extend_from_slice(s);
    v
}

fn name_seeds(out: &mut Vec<Seed>) {
    let ty = crate::registry::find("name::Name");
    let d = crate::drivers::find("name").expect("name");
    let ascii = |len: usize| -> Vec<u8> { (0..len).map(|i| if i % 2 == 0 { 0x00 } else { 0x41 + (i / 2) as u8 }).collect() };
    for (p, e) in [(0u16, 3u16), (0, 4), (1, 0), (3, 0), (3, 1), (3, 10), (2, 0)] {
        for len in 0..=9usize {
            let mut pats: Vec<(String, Vec<u8>)> = vec![("ascii".into(), ascii(len)), ("ff".into(), vec![0xFF; len])];
            let mut low = ascii(len);
            if len >= 1 {
                low[0] = 0xDC;
            }
            pats.push(("low-surrogate@0".into(), low));
            for pos in 0..len {
                let mut s = ascii(len);
                s[pos] = 0xD8;
                if pos + 1 < len {
                    s[pos + 1] = 0x00;
                }
                pats.push((format!("high-surrogate@{pos}"), s));
            }
            for (pn, s) in pats {
                let data = name_table(p, e, &s);
                let n = data.len();
                out.push(Seed {
                    name: format!("synth:name/platform={p},encoding={e},len={len},{pn}"),
                    class: "synth",
                    ty,
                    args: [0; 3],
                    drivers: vec![(d, [0; 3])],
                    data,
                    ctx: vec![],
                    pos_limit: n,
                    extra_trunc: vec![],
                });
            }
        }
    }
}

pub fn synth_seeds(out: &mut Vec<Seed>) {
    name_seeds(out);
    let gvar2 = crate::drivers::find("gvar2").expect("gvar2");
    // (a) all reference graphs over 3 glyphs x 25 shapes
    let sh = shapes();
    let blob = |s: &Option<Vec<Comp>>| match s {
        None => simple_glyph(),
        Some(c) => composite_glyph(c),
    };
    for a in 0..sh.len() {
        for b in 0..sh.len() {
            for c in 0..sh.len() {
                let glyphs = [blob(&sh[a]), blob(&sh[b]), blob(&sh[c])];
                out.push(glyf_seed(format!("synth:glyfgraph/{a},{b},{c}"), &glyphs, gvar2));
            }
        }
    }
    // (b) USE_MY_METRICS chains, ending in a simple glyph or cycling back to glyph 0
    for d in CHAIN_DEPTHS {
        for cyclic in [false, true] {
            let mut glyphs = vec![];
            for i in 0..d {
                let last = i + 1 == d;
                if last && !cyclic {
                    glyphs.push(simple_glyph());
                } else {
                    let next = if last { 0 } else { i as u16 + 1 };
                    glyphs.push(composite_glyph(&[(next, true)]));
                }
            }
            out.push(glyf_seed(format!("synth:glyfchain/depth={d},cyclic={cyclic}"), &glyphs, gvar2));
        }
    }
    // (c) contextual lookup chains
    let gsub_ty = crate::registry::find("gsub::Gsub");
    let layout = crate::drivers::find("layout").expect("layout");
    let layout2 = crate::drivers::find("layout2").expect("layout2");
    let tag = u32::from_be_bytes(*b"GSUB");
    for (format, depths) in [(3u16, [2usize, 63, 64, 65, 2000]), (1u16, [2usize, 63, 64, 65, 1500])] {
        for d in depths {
            for cyclic in [false, true] {
                let data = gsub_chain(d, cyclic, format);
                let n = data.len();
                out.push(Seed {
                    name: format!("synth:gsubchain/format={format},depth={d},cyclic={cyclic}"),
                    class: "synth",
                    ty: gsub_ty,
                    args: [0; 3],
                    drivers: vec![(layout, [0, 0, tag]), (layout2, [0, 0, tag])],
                    data,
                    ctx: vec![],
                    pos_limit: n,
                    extra_trunc: vec![],
                });
            }
        }
    }
    // (d) nested conditions
    let cond_ty = crate::registry::find("layout::Condition");
    for d in [2usize, 11, 12, 13, 64, 2000] {
        let data = condition_chain(d);
        let n = data.len();
        out.push(Seed {
            name: format!("synth:conditionchain/depth={d}"),
            class: "synth",
            ty: cond_ty,
            args: [0; 3],
            drivers: vec![],
            data,
            ctx: vec![],
            pos_limit: n,
            extra_trunc: vec![],
        });
    }
}
