//! X3 — deviation-bounded neighbourhoods of seeds (DESIGN 2.4).
//!
//! A seed of length n has the following **atomic deviations** (enumerated in this fixed order):
//!
//! * header block: `None` (the seed itself), extensions by {1,2,4} bytes of 00 / FF (6);
//! * for every position p in 0..n, in order:
//!     - `Trunc(p)`: the prefix of length p,
//!     - `Set8(p, v)` for v in {00,01,02,7F,80,FF} (skipped when v is the byte already there),
//!     - if p is even and p+2 <= n: `Set16(p, v)` for v in the u16 boundary values
//!       {0,1,0x7FFF,0x8000,0xFFFF, n-2,n-1,n,n+1, p,p+1,p+2} (mod 2^16, de-duplicated, skipped
//!       when equal to the value already there),
//!     - if p is even and p+4 <= n: `Set32(p, v)` for v in {n-1,n,n+1,0x7FFFFFFF,0x80000000,
//!       0xFFFFFFFF} (the long-offset / 32-bit-count boundaries; skipped when already there).
//!
//! Bound k=1 = every atomic deviation. Bound k=2 = every unordered pair of atomic deviations
//! (a before b in the order above), applied one after the other (a `Set*` whose range falls outside
//! the buffer after a truncation is a no-op).

use serde_json::{json, Value};

pub const A8: [u8; 6] = [0x00, 0x01, 0x02, 0x7F, 0x80, 0xFF];

/// thorough tier: the u16 boundary values are also placed at odd positions (fields that follow a u8 /
/// u24 field). Set once per process by `engine::bounds_for`.
pub static ODD_U16: std::sync::atomic::AtomicBool = std::sync::atomic::AtomicBool::new(false);

#[derive(Clone, Copy, Debug, PartialEq, Eq)]
pub enum Atom {
    None,
    Trunc(u32),
    Ext(u8, u8),
    Set8(u32, u8),
    Set16(u32, u16),
    Set32(u32, u32),
}

#[derive(Clone, Copy, Debug, PartialEq, Eq)]
pub enum Dev {
    One(Atom),
    Two(Atom, Atom),
}

impl Atom {
    pub fn apply(&self, buf: &mut Vec<u8>) {
        match *self {
            Atom::None => {}
            Atom::Trunc(l) => buf.truncate(l as usize),
            Atom::Ext(n, b) => buf.extend(std::iter::repeat(b).take(n as usize)),
            Atom::Set8(p, v) => {
                if let Some(x) = buf.get_mut(p as usize) {
                    *x = v
                }
            }
            Atom::Set16(p, v) => {
                let p = p as usize;
                if p + 2 <= buf.len() {
                    buf[p..p + 2].copy_from_slice(&v.to_be_bytes())
                }
            }
            Atom::Set32(p, v) => {
                let p = p as usize;
                if p + 4 <= buf.len() {
                    buf[p..p + 4].copy_from_slice(&v.to_be_bytes())
                }
            }
        }
    }
    pub fn to_json(&self) -> Value {
        match *self {
            Atom::None => json!({"k": "none"}),
            Atom::Trunc(l) => json!({"k": "trunc", "len": l}),
            Atom::Ext(n, b) => json!({"k": "ext", "n": n, "byte": b}),
            Atom::Set8(p, v) => json!({"k": "set8", "pos": p, "val": v}),
            Atom::Set16(p, v) => json!({"k": "set16", "pos": p, "val": v}),
            Atom::Set32(p, v) => json!({"k": "set32", "pos": p, "val": v}),
        }
    }
    pub fn from_json(v: &Value) -> Option<Atom> {
        let u = |k: &str| v[k].as_u64().unwrap_or(0);
        Some(match v["k"].as_str()? {
            "none" => Atom::None,
            "trunc" => Atom::Trunc(u("len") as u32),
            "ext" => Atom::Ext(u("n") as u8, u("byte") as u8),
            "set8" => Atom::Set8(u("pos") as u32, u("val") as u8),
            "set16" => Atom::Set16(u("pos") as u32, u("val") as u16),
            "set32" => Atom::Set32(u("pos") as u32, u("val") as u32),
            _ => return None,
        })
    }
}

impl Dev {
    pub fn apply(&self, seed: &[u8], buf: &mut Vec<u8>) {
        buf.clear();
        buf.extend_from_slice(seed);
        match self {
            Dev::One(a) => a.apply(buf),
            Dev::Two(a, b) => {
                a.apply(buf);
                b.apply(buf)
            }
        }
    }
    pub fn to_json(&self) -> Value {
        match self {
            Dev::One(a) => json!([a.to_json()]),
            Dev::Two(a, b) => json!([a.to_json(), b.to_json()]),
        }
    }
    pub fn from_json(v: &Value) -> Option<Dev> {
        let arr = v.as_array()?;
        match arr.len() {
            1 => Some(Dev::One(Atom::from_json(&arr[0])?)),
            2 => Some(Dev::Two(Atom::from_json(&arr[0])?, Atom::from_json(&arr[1])?)),
            _ => None,
        }
    }
}

/// the u16 boundary values of DESIGN 2.4 for a seed of length n at position p
pub fn u16_values(n: usize, p: usize) -> Vec<u16> {
    let n = n as i64;
    let p = p as i64;
    let raw = [0, 1, 0x7FFF, 0x8000, 0xFFFF, n - 2, n - 1, n, n + 1, p, p + 1, p + 2];
    let mut out: Vec<u16> = Vec::with_capacity(12);
    for v in raw {
        let v = (v & 0xFFFF) as u16;
        if !out.contains(&v) {
            out.push(v);
        }
    }
    out
}

pub fn u32_values(n: usize) -> Vec<u32> {
    let n = n as i64;
    let raw = [n - 1, n, n + 1, 0x7FFF_FFFF, 0x8000_0000, 0xFFFF_FFFF];
    let mut out: Vec<u32> = Vec::with_capacity(6);
    for v in raw {
        let v = (v & 0xFFFF_FFFF) as u32;
        if !out.contains(&v) {
            out.push(v);
        }
    }
    out
}

/// the header block (position-independent atoms)
pub fn header_atoms(out: &mut Vec<Atom>) {
    out.push(Atom::None);
    for n in [1u8, 2, 4] {
        for b in [0x00u8, 0xFF] {
            out.push(Atom::Ext(n, b));
        }
    }
}

/// atoms attached to position p of `seed`
pub fn position_atoms(seed: &[u8], p: usize, out: &mut Vec<Atom>) {
    let n = seed.len();
    out.push(Atom::Trunc(p as u32));
    for v in A8 {
        if seed[p] != v {
            out.push(Atom::Set8(p as u32, v));
        }
    }
    let odd = ODD_U16.load(std::sync::atomic::Ordering::Relaxed);
    if (p % 2 == 0 || odd) && p + 2 <= n {
        let cur = u16::from_be_bytes([seed[p], seed[p + 1]]);
        for v in u16_values(n, p) {
            if v != cur {
                out.push(Atom::Set16(p as u32, v));
            }
        }
    }
    if p % 2 == 0 && p + 4 <= n {
        let cur = u32::from_be_bytes([seed[p], seed[p + 1], seed[p + 2], seed[p + 3]]);
        for v in u32_values(n) {
            if v != cur {
                out.push(Atom::Set32(p as u32, v));
            }
        }
    }
}

/// All atoms of the k=1 neighbourhood restricted to positions lo..hi (the header block is
/// attached to the range that starts at 0).
pub fn atoms_in_range(seed: &[u8], lo: usize, hi: usize) -> Vec<Atom> {
    let mut out = Vec::new();
    if lo == 0 {
        header_atoms(&mut out);
    }
    for p in lo..hi.min(seed.len()) {
        position_atoms(seed, p, &mut out);
    }
    out
}

pub fn all_atoms(seed: &[u8]) -> Vec<Atom> {
    atoms_in_range(seed, 0, seed.len())
}

/// number of k=2 cases for a list of `m` atoms (identity excluded from pairing: pairs are over the
/// m-1 proper atoms)
pub fn pair_count(m: usize) -> u64 {
    let m = m.saturating_sub(1) as u64;
    m * m.saturating_sub(1) / 2
}
