//! Capacity sweeps over read-fonts' own fixed-size buffers (DESIGN 10.4 applied to the reader): synthesised
//! inputs whose element count walks across each hand-written capacity —
//!   BlendState precomputed scalars (16), postscript Stack (513), DICT Blues (7 pairs) / StemSnaps (12),
//!   DICT BCD real-number buffer (32), avar2 coordinate buffer (64 axes).
//! The "psblend" driver exercises BlendState::{new, set_store_index, region_count, scalars}, Stack::apply_blend,
//! charstring::evaluate with `blend`, dict::entries with `blend`, and Stack::push up to and past its capacity.

use crate::drivers::{report_overrun, rerr};
use crate::seeds::Seed;
use crate::walker::Walker;
use read_fonts::tables::postscript::{charstring, dict, BlendState, Index, Stack};
use read_fonts::tables::variations::ItemVariationStore;
use read_fonts::types::{F2Dot14, Fixed};
use read_fonts::{FontData, FontRead};

fn be16(v: &mut Vec<u8>, x: u16) {
    v.extend_from_slice(&x.to_be_bytes())
}
fn be32(v: &mut Vec<u8>, x: u32) {
    v.extend_from_slice(&x.to_be_bytes())
}

/// ItemVariationStore with `axes` axes, `regions` regions and one ItemVariationData that uses all of them
pub fn ivs(axes: u16, regions: u16) -> Vec<u8> {
    let mut v = vec![];
    be16(&mut v, 1);
    let ivd_len = 6 + 2 * regions as u32 + regions as u32;
    be32(&mut v, 12 + ivd_len); // region list offset
    be16(&mut v, 1);
    be32(&mut v, 12); // ItemVariationData offset
    be16(&mut v, 1); // itemCount
    be16(&mut v, 0); // wordDeltaCount
    be16(&mut v, regions);
    for r in 0..regions {
        be16(&mut v, r);
    }
    for r in 0..regions {
        v.push((r % 7) as u8 + 1); // one i8 delta per region
    }
    be16(&mut v, axes);
    be16(&mut v, regions);
    for _ in 0..regions {
        for _ in 0..axes {
            be16(&mut v, 0);
            be16(&mut v, 0x4000);
            be16(&mut v, 0x4000);
        }
    }
    v
}

/// Type 2 / DICT operand: 16-bit integer
fn num(v: &mut Vec<u8>, x: i16) {
    v.push(28);
    v.extend_from_slice(&x.to_be_bytes());
}

struct Sink(vcore::Fnv, u64);
impl charstring::CommandSink for Sink {
    fn move_to(&mut self, x: Fixed, y: Fixed) {
        self.1 += 1;
        self.0.i64(((x.to_bits() as i64) << 32) ^ y.to_bits() as i64 ^ 1);
    }
    fn line_to(&mut self, x: Fixed, y: Fixed) {
        self.1 += 1;
        self.0.i64(((x.to_bits() as i64) << 32) ^ y.to_bits() as i64 ^ 2);
    }
    fn curve_to(&mut self, a: Fixed, b: Fixed, c: Fixed, d: Fixed, x: Fixed, y: Fixed) {
        self.1 += 1;
        for v in [a, b, c, d, x, y] {
            self.0.i64(v.to_bits() as i64);
        }
    }
    fn close(&mut self) {
        self.1 += 1;
    }
}

fn pserr(w: &mut Walker, e: &read_fonts::tables::postscript::Error) {
    w.tagb(0);
    w.s(&format!("{e:?}"));
    w.calls += 1;
}

fn state_obs(st: &BlendState, w: &mut Walker) -> usize {
    let rc = match st.region_count() {
        Ok(n) => {
            w.u(n as u64);
            n
        }
        Err(e) => {
            pserr(w, &e);
            0
        }
    };
    match st.scalars() {
        Ok(it) => {
            let mut n = 0u64;
            for s in it {
                n += 1;
                match s {
                    Ok(f) => w.h.i64(f.to_bits() as i64),
                    Err(e) => pserr(w, &e),
                }
                if n > rc as u64 + 2 {
                    report_overrun("BlendState::scalars yields more scalars than region_count", n);
                    break;
                }
            }
            w.calls += n;
            w.u(n);
        }
        Err(e) => pserr(w, &e),
    }
    rc
}

/// data = ItemVariationStore bytes
pub fn psblend_driver(data: &[u8], _ctx: &[Vec<u8>], _a: [u32; 3], w: &mut Walker) {
    // the stack capacity, independent of the store
    {
        let mut s = Stack::new();
        let mut ok = 0u64;
        for i in 0..600 {
            match s.push(i) {
                Ok(()) => ok += 1,
                Err(e) => {
                    pserr(w, &e);
                    break;
                }
            }
        }
        w.u(ok);
        w.u(s.len() as u64);
        w.b(s.push(Fixed::ONE).is_ok());
    }
    let store = match ItemVariationStore::read(FontData::new(data)) {
        Ok(s) => s,
        Err(e) => return rerr(w, &e),
    };
    let f = F2Dot14::from_bits;
    let coord_sets: [Vec<F2Dot14>; 3] = [vec![], vec![f(0x4000)], vec![f(0x2000), f(-0x4000), f(0x4000)]];
    for coords in coord_sets.iter() {
        for store_index in [0u16, 1, 0xFFFF] {
            let mut st = match BlendState::new(store.clone(), coords, store_index) {
                Ok(s) => s,
                Err(e) => {
                    pserr(w, &e);
                    continue;
                }
            };
            let rc = state_obs(&st, w);
            for ix in [1u16, 0] {
                match st.set_store_index(ix) {
                    Ok(()) => {
                        state_obs(&st, w);
                    }
                    Err(e) => pserr(w, &e),
                }
            }
            if !w.step() {
                return;
            }
            // Stack::apply_blend with 1 and 2 target values
            for n in 1..=2usize {
                let mut s = Stack::new();
                for v in 0..n {
                    let _ = s.push(100 * (v as i32 + 1));
                }
                for d in 0..n * rc {
                    let _ = s.push((d % 5) as i32 + 1);
                }
                let _ = s.push(n as i32);
                match s.apply_blend(&st) {
                    Ok(()) => {
                        w.u(s.len() as u64);
                        for i in 0..s.len().min(8) {
                            match s.get_fixed(i) {
                                Ok(v) => w.i(v.to_bits() as i64),
                                Err(e) => pserr(w, &e),
                            }
                        }
                    }
                    Err(e) => pserr(w, &e),
                }
                w.calls += 1;
            }
            // charstring `v d.. 1 blend 50 rmoveto 10 hlineto`
            let mut cs = vec![];
            num(&mut cs, 100);
            for d in 0..rc {
                num(&mut cs, (d % 5) as i16 + 1);
            }
            num(&mut cs, 1);
            cs.push(16); // blend
            num(&mut cs, 50);
            cs.push(21); // rmoveto
            num(&mut cs, 10);
            cs.push(6); // hlineto
            let mut sink = Sink(vcore::Fnv::new(), 0);
            let r = charstring::evaluate(&cs, Index::default(), None, BlendState::new(store.clone(), coords, store_index).ok(), &mut sink);
            w.u(sink.0.finish());
            w.calls += 1 + sink.1;
            match r {
                Ok(()) => w.tagb(1),
                Err(e) => pserr(w, &e),
            }
            // private DICT `v d.. 1 blend BlueScale`
            let mut d = vec![];
            num(&mut d, 3);
            for k in 0..rc {
                num(&mut d, (k % 3) as i16);
            }
            num(&mut d, 1);
            d.push(23); // blend
            d.extend([12, 9]); // BlueScale
            let mut k = 0u64;
            for e in dict::entries(&d, BlendState::new(store.clone(), coords, store_index).ok()) {
                k += 1;
                if k > d.len() as u64 + 2 {
                    report_overrun("dict::entries yields more entries than the DICT has bytes", k);
                    break;
                }
                match e {
                    Ok(e) => w.s(&format!("{e:?}")),
                    Err(e) => {
                        pserr(w, &e);
                        break;
                    }
                }
            }
            w.calls += k;
        }
    }
}

/// FDSelect range specification: (first glyph, fd) pairs + sentinel (None = the table is cut before it)
pub type FdRanges = (Vec<(u32, u16)>, Option<u32>);

pub fn fdselect3(r: &FdRanges) -> Vec<u8> {
    let mut v = vec![3u8];
    be16(&mut v, r.0.len() as u16);
    for (first, fd) in &r.0 {
        be16(&mut v, *first as u16);
        v.push(*fd as u8);
    }
    if let Some(s) = r.1 {
        be16(&mut v, s as u16);
    }
    v
}
pub fn fdselect4(r: &FdRanges) -> Vec<u8> {
    let mut v = vec![4u8];
    be32(&mut v, r.0.len() as u32);
    for (first, fd) in &r.0 {
        be32(&mut v, *first);
        be16(&mut v, *fd);
    }
    if let Some(s) = r.1 {
        be32(&mut v, s);
    }
    v
}

/// the range family shared with C20's font-level FDSelect family
pub fn fdselect_family() -> Vec<(String, FdRanges)> {
    let mut out = vec![];
    for n in 0..=2usize {
        for first in 0..=2u32 {
            for (fl, fds) in [("fd-in-range", [0u16, 1]), ("fd-out-of-range", [1, 200])] {
                for (sl, sentinel) in [("ok", Some(6u32)), ("small", Some(first)), ("missing", None)] {
                    if n == 0 && first > 0 {
                        continue;
                    }
                    let ranges: Vec<(u32, u16)> = (0..n).map(|k| (first + 2 * k as u32, fds[k])).collect();
                    out.push((format!("ranges={n},first={first},{fl},sentinel-{sl}"), (ranges, sentinel)));
                }
            }
        }
    }
    out
}

/// data = one FDSelect encoding, ctx[0] = the same ranges in the other range format (3 <-> 4), or nothing.
/// Queries `font_index` for every small glyph id and the boundaries; when both encodings read, they must agree.
pub fn fdselect_driver(data: &[u8], ctx: &[Vec<u8>], _a: [u32; 3], w: &mut Walker) {
    use read_fonts::tables::postscript::FdSelect;
    use read_fonts::types::GlyphId;
    let a = FdSelect::read(FontData::new(data));
    let b = ctx.first().map(|c| FdSelect::read(FontData::new(c)));
    let gids: Vec<u32> = (0..=12).chain([0xFFFE, 0xFFFF, 0x10000, 0xFF_FFFF, u32::MAX - 1, u32::MAX]).collect();
    match &a {
        Ok(sel) => {
            for g in &gids {
                w.opt_u(sel.font_index(GlyphId::new(*g)).map(|v| v as u64));
            }
        }
        Err(e) => rerr(w, e),
    }
    if let (Ok(x), Some(Ok(y))) = (&a, &b) {
        for g in &gids {
            let (fx, fy) = (x.font_index(GlyphId::new(*g)), y.font_index(GlyphId::new(*g)));
            w.calls += 1;
            if fx != fy {
                crate::drivers::report_disagreement(
                    "FdSelect Format3 vs Format4 font_index",
                    format!("glyph {g}: {fx:?} from {} but {fy:?} from {}", vcore::hex(data), vcore::hex(&ctx[0])),
                );
            }
        }
    }
}

/// custom charset range encodings: (first SID, nLeft) pairs as format 1 (u8 nLeft) or format 2 (u16 nLeft)
pub fn charset_ranges(format: u8, ranges: &[(u16, u16)]) -> Vec<u8> {
    let mut v = vec![format];
    for (first, n_left) in ranges {
        be16(&mut v, *first);
        if format == 1 {
            v.push(*n_left as u8);
        } else {
            be16(&mut v, *n_left);
        }
    }
    v
}

/// spec semantics of a range charset, in u64 (harness-side reference): gid -> SID
fn charset_model(ranges: &[(u16, u16)], num_glyphs: u32, gid: u32) -> Option<u16> {
    if gid >= num_glyphs {
        return None;
    }
    if gid == 0 {
        return Some(0);
    }
    let g = gid as u64 - 1;
    let mut end = 0u64;
    for (first, n_left) in ranges {
        let next = end + *n_left as u64 + 1;
        if g < next {
            return u16::try_from(*first as u64 + (g - end)).ok();
        }
        end = next;
    }
    None
}

/// data = 4 pad bytes + a custom charset (format 0 / 1 / 2), a[0] = numGlyphs; ctx[0] (optional) = the same ranges
/// in the other range format. Charset::string_id for boundary glyph ids, Charset::iter under its bound; oracles:
/// string_id equals the range semantics computed from the bytes, iter() pairs equal string_id, and the format-1
/// and format-2 encodings of the same ranges agree.
pub fn charset_driver(data: &[u8], ctx: &[Vec<u8>], a: [u32; 3], w: &mut Walker) {
    use read_fonts::tables::postscript::Charset;
    use read_fonts::types::GlyphId;
    let n = a[0];
    let cs = match Charset::new(FontData::new(data), 4, n) {
        Ok(c) => c,
        Err(e) => return rerr(w, &e),
    };
    // harness-side parse of the ranges (formats 1 and 2 only)
    let ranges: Option<Vec<(u16, u16)>> = match data.get(4) {
        Some(1) => Some(data[5..].chunks_exact(3).map(|c| (u16::from_be_bytes([c[0], c[1]]), c[2] as u16)).collect()),
        Some(2) => Some(data[5..].chunks_exact(4).map(|c| (u16::from_be_bytes([c[0], c[1]]), u16::from_be_bytes([c[2], c[3]]))).collect()),
        _ => None,
    };
    let mut gids: Vec<u32> = vec![0, 1, 2, 3, 4, 5, 254, 255, 256, 257, 258, 259, 260, 299, 300, 0xFFFD, 0xFFFE, 0xFFFF, 0x10000, n.wrapping_sub(1), n, u32::MAX];
    if let Some(r) = &ranges {
        let mut end = 0u32;
        for (_, nl) in r.iter().take(4) {
            end = end.saturating_add(*nl as u32 + 1);
            gids.extend([end.saturating_sub(1), end, end.saturating_add(1), end.saturating_add(2)]);
        }
    }
    let other = ctx.first().and_then(|c| Charset::new(FontData::new(c), 4, n).ok());
    for g in gids {
        let got = cs.string_id(GlyphId::new(g));
        w.calls += 1;
        match &got {
            Ok(s) => w.u(s.to_u16() as u64),
            Err(e) => rerr(w, e),
        }
        if let Some(r) = &ranges {
            let want = charset_model(r, n, g);
            if got.as_ref().ok().map(|s| s.to_u16()) != want {
                crate::drivers::report_disagreement(
                    "Charset::string_id vs the range semantics",
                    format!("glyph {g}: {:?} but the ranges {r:?} with {n} glyphs give {want:?}", got.as_ref().ok().map(|s| s.to_u16())),
                );
            }
        }
        if let Some(o) = &other {
            let b = o.string_id(GlyphId::new(g));
            if got.as_ref().ok().map(|s| s.to_u16()) != b.as_ref().ok().map(|s| s.to_u16()) {
                crate::drivers::report_disagreement("Charset format 1 vs format 2 string_id", format!("glyph {g}: {:?} vs {:?}", got.is_ok(), b.is_ok()));
            }
        }
    }
    let mut k = 0u64;
    for (g, s) in cs.iter() {
        k += 1;
        if k > n as u64 + 1 {
            report_overrun("Charset::iter yields more entries than num_glyphs", k);
            break;
        }
        if k <= 400 {
            w.h.u64(((g.to_u32() as u64) << 16) | s.to_u16() as u64);
            if cs.string_id(g).ok().map(|x| x.to_u16()) != Some(s.to_u16()) {
                crate::drivers::report_disagreement("Charset::iter vs string_id", format!("glyph {}: iter gives {} but string_id {:?}", g.to_u32(), s.to_u16(), cs.string_id(g).ok().map(|x| x.to_u16())));
            }
        }
    }
    w.calls += k;
    w.nodes += k / 64;
    w.u(k);
}

/// minimal CFF table with `n` glyphs (endchar charstrings) and the given custom charset
pub fn cff_with_charset(n: u16, charset: &[u8]) -> Vec<u8> {
    let mut v = vec![1u8, 0, 4, 1];
    v.extend([0, 1, 1, 1, 2, b'A']); // Name INDEX
    let cs_off = 31u32;
    let cs_len = 2 + 1 + 2 * (n as u32 + 1) + n as u32;
    let charset_off = cs_off + cs_len;
    let mut top = vec![29u8];
    top.extend(charset_off.to_be_bytes());
    top.push(15);
    top.push(29);
    top.extend(cs_off.to_be_bytes());
    top.push(17);
    v.extend([0, 1, 1, 1, 13]); // Top DICT INDEX: one 12-byte dict
    v.extend(top);
    v.extend([0, 0]); // String INDEX
    v.extend([0, 0]); // Global Subr INDEX
    debug_assert_eq!(v.len(), 31);
    be16(&mut v, n);
    v.push(2);
    for i in 0..=n {
        be16(&mut v, i + 1);
    }
    v.extend(std::iter::repeat(14u8).take(n as usize)); // endchar
    v.extend_from_slice(charset);
    v
}

/// a seed that is executed exactly once (no extension atoms)
fn once(mut s: Seed) -> Seed {
    s.pos_limit = 0;
    s
}

fn seed(name: String, ty: Option<usize>, driver: &str, dargs: [u32; 3], data: Vec<u8>, ctx: Vec<Vec<u8>>) -> Seed {
    let n = data.len();
    Seed {
        name,
        class: "synth",
        ty,
        args: [0; 3],
        drivers: vec![(crate::drivers::find(driver).expect("driver"), dargs)],
        data,
        ctx,
        pos_limit: n,
        extra_trunc: vec![],
    }
}

pub fn capsweep_seeds(out: &mut Vec<Seed>) {
    let ivs_ty = crate::registry::find("variations::ItemVariationStore");
    // blend scalars: 16 precomputed
    for r in [0u16, 1, 15, 16, 17, 18, 64] {
        out.push(seed(format!("synth:cap/blend-regions={r}"), ivs_ty, "psblend", [0; 3], ivs(1, r), vec![]));
    }
    // operand stack: 513 entries; charstring and DICT operand runs
    for n in [512usize, 513, 514, 600] {
        let mut cs = vec![];
        for i in 0..n {
            num(&mut cs, (i % 100) as i16);
        }
        let mut d = cs.clone();
        cs.push(14); // endchar
        d.push(6); // BlueValues consumes the operands
        out.push(seed(format!("synth:cap/charstring-operands={n}"), None, "psblob", [0, 0, 3], cs, vec![]));
        out.push(seed(format!("synth:cap/dict-operands={n}"), None, "psblob", [0, 0, 2], d, vec![]));
    }
    // Blues (7 pairs) and StemSnaps (12)
    for n in [0usize, 1, 13, 14, 15, 16, 30] {
        for (label, op) in [("BlueValues", vec![6u8]), ("OtherBlues", vec![7]), ("FamilyBlues", vec![8]), ("FamilyOtherBlues", vec![9])] {
            let mut d = vec![];
            for i in 0..n {
                num(&mut d, 10 * i as i16);
            }
            d.extend(op);
            out.push(seed(format!("synth:cap/dict-{label}-operands={n}"), None, "psblob", [0, 0, 2], d, vec![]));
        }
    }
    for n in [0usize, 1, 11, 12, 13, 14, 30] {
        for (label, op) in [("StemSnapH", [12u8, 12]), ("StemSnapV", [12, 13])] {
            let mut d = vec![];
            for i in 0..n {
                num(&mut d, 10 + i as i16);
            }
            d.extend(op);
            out.push(seed(format!("synth:cap/dict-{label}-operands={n}"), None, "psblob", [0, 0, 2], d, vec![]));
        }
    }
    // BCD real numbers: 32-byte text buffer
    for digits in [0usize, 1, 30, 31, 32, 33, 64, 200] {
        for lead in ["digits", "minus", "exp-minus"] {
            let mut nib: Vec<u8> = vec![];
            match lead {
                "minus" => nib.push(0xE),
                "exp-minus" => {
                    nib.push(1);
                    nib.push(0xC); // pushes two characters
                }
                _ => {}
            }
            for i in 0..digits {
                nib.push((i % 10) as u8);
            }
            nib.push(0xF);
            if nib.len() % 2 == 1 {
                nib.push(0xF);
            }
            let mut d = vec![30u8];
            for p in nib.chunks(2) {
                d.push((p[0] << 4) | p[1]);
            }
            d.extend([12, 9]); // BlueScale
            out.push(seed(format!("synth:cap/dict-real-{lead}-nibbles={digits}"), None, "psblob", [0, 0, 2], d, vec![]));
        }
    }
    // meta script/language tag lists (VarLenArray with a hand-written VarSize): indexed access vs iteration
    let meta_ty = crate::registry::find("meta::Meta");
    let misc_tag = u32::from_be_bytes(*b"meta");
    for (label, text) in [
        ("empty", ""),
        ("one", "en"),
        ("two", "en,fr"),
        ("spaces", "en-Latn, fr-Latn, zh-Hans"),
        ("trailing-comma", "en,fr,"),
        ("only-commas", ",,,"),
        ("long", "aa,bb,cc,dd,ee,ff,gg,hh,ii,jj,kk,ll,mm,nn,oo,pp,qq,rr,ss,tt"),
    ] {
        for map_tag in [b"dlng", b"slng"] {
            let mut m = vec![];
            be32(&mut m, 1);
            be32(&mut m, 0);
            be32(&mut m, 0);
            be32(&mut m, 1);
            m.extend_from_slice(map_tag);
            be32(&mut m, 28);
            be32(&mut m, text.len() as u32);
            m.extend_from_slice(text.as_bytes());
            out.push(seed(
                format!("synth:cap/meta-{}-{label}", String::from_utf8_lossy(map_tag)),
                meta_ty,
                "misc",
                [0, 0, misc_tag],
                m,
                vec![],
            ));
        }
    }
    // FDSelect: the same ranges as format 3 and format 4 (agreement), plus format 0 arrays
    let fd_ty = crate::registry::find("postscript::FdSelect");
    for (label, r) in fdselect_family() {
        out.push(seed(format!("synth:cap/fdselect3-{label}"), fd_ty, "fdselect", [0; 3], fdselect3(&r), vec![fdselect4(&r)]));
        out.push(seed(format!("synth:cap/fdselect4-{label}"), fd_ty, "fdselect", [0; 3], fdselect4(&r), vec![fdselect3(&r)]));
    }
    for n in [0usize, 1, 2, 6] {
        let mut f0 = vec![0u8];
        f0.extend((0..n).map(|i| (i % 3) as u8));
        out.push(seed(format!("synth:cap/fdselect0-glyphs={n}"), fd_ty, "fdselect", [0; 3], f0, vec![]));
    }
    // SVG document records: offset / length boundary values crossed
    let svg_ty = crate::registry::find("svg::Svg");
    {
        let list_len = 2 + 12 + 8u32; // numEntries + one record + 8 data bytes
        let vals = [0u32, 1, list_len - 1, list_len, 0x7FFF_FFFF, 0x8000_0000, 0xFFFF_FFFE, 0xFFFF_FFFF];
        for off in vals {
            for len in vals {
                let mut t = vec![];
                be16(&mut t, 0);
                be32(&mut t, 10);
                be32(&mut t, 0);
                be16(&mut t, 1);
                be16(&mut t, 1); // startGlyphID
                be16(&mut t, 3); // endGlyphID
                be32(&mut t, off);
                be32(&mut t, len);
                t.extend([b'<', b's', b'v', b'g', b'/', b'>', b' ', b' ']);
                out.push(seed(format!("synth:cap/svg-doc-offset={off},length={len}"), svg_ty, "misc", [0, 0, u32::from_be_bytes(*b"SVG ")], t, vec![]));
            }
        }
    }
    // TrueType bytecode: every push opcode with its operand bytes cut at every length
    {
        let mut progs: Vec<(String, Vec<u8>)> = vec![];
        for op in (0xB0u8..=0xBF).chain([0x40, 0x41]) {
            let (count_byte, operand_len): (Option<u8>, usize) = match op {
                0x40 => (Some(3), 3),
                0x41 => (Some(3), 6),
                0xB0..=0xB7 => (None, (op - 0xB0 + 1) as usize),
                _ => (None, 2 * (op - 0xB8 + 1) as usize),
            };
            let mut full = vec![0x4Bu8, op]; // MPPEM first, then the push
            if let Some(c) = count_byte {
                full.push(c);
            }
            full.extend((0..operand_len).map(|i| i as u8 + 1));
            for cut in 2..=full.len() {
                progs.push((format!("op={op:02x},len={cut}of{}", full.len()), full[..cut].to_vec()));
            }
        }
        progs.push(("npushb-count-255-short".into(), vec![0x40, 0xFF, 1, 2, 3]));
        progs.push(("npushw-count-255-short".into(), vec![0x41, 0xFF, 1, 2, 3]));
        for (label, p) in progs {
            out.push(seed(format!("synth:cap/bytecode-{label}"), None, "bytecode", [0; 3], p, vec![]));
        }
    }
    // COLR v1 variable paints with varIndexBase at the top of u32, and translate chains / a self-referencing paint
    let colr_ty = crate::registry::find("colr::Colr");
    {
        let colr_with = |paints: Vec<u8>| -> Vec<u8> {
            let mut t = vec![];
            be16(&mut t, 1);
            be16(&mut t, 0);
            be32(&mut t, 0);
            be32(&mut t, 0);
            be16(&mut t, 0);
            be32(&mut t, 34); // baseGlyphListOffset
            be32(&mut t, 0);
            be32(&mut t, 0);
            be32(&mut t, 0);
            be32(&mut t, 0);
            be32(&mut t, 1); // numBaseGlyphPaintRecords
            be16(&mut t, 1); // glyph 1
            be32(&mut t, 10); // paint offset from the list
            t.extend(paints);
            t
        };
        let solid = [2u8, 0, 0, 0x40, 0]; // PaintSolid palette 0 alpha 1.0
        // (format, number of i16 fields between the child offset and varIndexBase, has child)
        let var_paints: [(u8, usize, bool); 10] =
            [(3, 2, false), (15, 2, true), (17, 2, true), (19, 4, true), (21, 1, true), (23, 3, true), (25, 1, true), (27, 3, true), (29, 2, true), (31, 4, true)];
        for (fmt, fields, child) in var_paints {
            for base in [0u32, 1, 0x7FFF_FFFF, 0xFFFF_FFF8, 0xFFFF_FFFC, 0xFFFF_FFFD, 0xFFFF_FFFE, 0xFFFF_FFFF] {
                let mut p = vec![fmt];
                let len = 1 + if child { 3 } else { 0 } + 2 * fields + 4;
                if child {
                    p.extend([0, 0, len as u8]);
                }
                for i in 0..fields {
                    be16(&mut p, 0x100 * (i as u16 + 1));
                }
                be32(&mut p, base);
                if child {
                    p.extend(solid);
                }
                out.push(seed(format!("synth:cap/colr-var-paint-format={fmt},varIndexBase={base}"), colr_ty, "colr", [0; 3], colr_with(p), vec![]));
            }
        }
        for depth in [2usize, 63, 64, 65, 2000] {
            for cyclic in [false, true] {
                let mut p = vec![];
                for i in 0..depth {
                    let last = i + 1 == depth;
                    // PaintTranslate: format 14, paintOffset24, dx, dy; the last one points at itself when cyclic
                    p.extend([14u8, 0, 0, if last && cyclic { 0 } else { 8 }]);
                    be16(&mut p, 1);
                    be16(&mut p, 1);
                }
                if !cyclic {
                    p.extend(solid);
                }
                out.push(seed(format!("synth:cap/colr-translate-chain-depth={depth},cyclic={cyclic}"), colr_ty, "colr", [0; 3], colr_with(p), vec![]));
            }
        }
    }
    // CFF custom charsets: formats 1 and 2 over first SID x nLeft x numGlyphs, format 0 arrays, and whole CFF tables
    {
        let firsts = [0u16, 1, 390, 391, 0xFFFE, 0xFFFF];
        let mut n = 0;
        for first in firsts {
            for n_left in [0u16, 1, 254, 255, 0xFFFE, 0xFFFF] {
                for glyphs in [1u32, 2, 300, 65535] {
                    let ranges = [(first, n_left), (7, 3)];
                    let f2 = [vec![0u8; 4], charset_ranges(2, &ranges)].concat();
                    if n_left <= 255 {
                        let f1 = [vec![0u8; 4], charset_ranges(1, &ranges)].concat();
                        out.push(once(seed(format!("synth:cap/charset1-first={first},nleft={n_left},glyphs={glyphs}"), None, "charset", [glyphs, 0, 0], f1.clone(), vec![f2.clone()])));
                        out.push(once(seed(format!("synth:cap/charset2-first={first},nleft={n_left},glyphs={glyphs}"), None, "charset", [glyphs, 0, 0], f2, vec![f1])));
                    } else {
                        out.push(once(seed(format!("synth:cap/charset2-first={first},nleft={n_left},glyphs={glyphs}"), None, "charset", [glyphs, 0, 0], f2, vec![])));
                    }
                    n += 1;
                }
            }
        }
        let _ = n;
        for glyphs in [1u32, 2, 5, 300] {
            let mut f0 = vec![0u8; 5];
            for i in 0..4u16 {
                be16(&mut f0, 390 + i);
            }
            out.push(once(seed(format!("synth:cap/charset0-4sids,glyphs={glyphs}"), None, "charset", [glyphs, 0, 0], f0, vec![])));
        }
        for format in [1u8, 2] {
            for first in [1u16, 391] {
                for n_left in [0u16, 255, 0xFFFF] {
                    if format == 1 && n_left > 255 {
                        continue;
                    }
                    for glyphs in [2u16, 300] {
                        let t = cff_with_charset(glyphs, &charset_ranges(format, &[(first, n_left), (7, 3)]));
                        out.push(seed(format!("synth:cap/cff-charset{format}-first={first},nleft={n_left},glyphs={glyphs}"), None, "cff", [0; 3], t, vec![]));
                    }
                }
            }
        }
    }
    // avar 2 coordinate buffer (64 entries): fvar and avar carry the axis count independently, so the two counts
    // are crossed (all pairs), not kept equal
    let fvar_ty = crate::registry::find("fvar::Fvar");
    for n in [1u16, 63, 64, 65, 100] {
        let mut fvar = vec![];
        be16(&mut fvar, 1);
        be16(&mut fvar, 0);
        be16(&mut fvar, 16);
        be16(&mut fvar, 2);
        be16(&mut fvar, n);
        be16(&mut fvar, 20);
        be16(&mut fvar, 0);
        be16(&mut fvar, 4 * n + 4);
        for i in 0..n {
            fvar.extend_from_slice(&[b'a', b'x', b'0' + (i / 10 % 10) as u8, b'0' + (i % 10) as u8]);
            be32(&mut fvar, 0xFFFF_0000); // -1.0
            be32(&mut fvar, 0);
            be32(&mut fvar, 0x0001_0000);
            be16(&mut fvar, 0);
            be16(&mut fvar, 256);
        }
        for a in [0u16, 1, 63, 64, 65, 100] {
            let mut avar = vec![];
            be16(&mut avar, 2);
            be16(&mut avar, 0);
            be16(&mut avar, 0);
            be16(&mut avar, a);
            for _ in 0..a {
                be16(&mut avar, 0); // positionMapCount
            }
            be32(&mut avar, 0); // axisIndexMapOffset: null (identity mapping)
            be32(&mut avar, 8 + 2 * a as u32 + 8); // varStoreOffset
            avar.extend(ivs(a.max(1), 2));
            out.push(seed(format!("synth:cap/avar2-fvar-axes={n},avar-axes={a}"), fvar_ty, "fvar", [0; 3], fvar.clone(), vec![avar]));
        }
    }
    // gvar glyphCount disagreeing with the glyf/loca glyph count (3 glyphs: simple, simple, composite -> 1)
    {
        let glyphs = [crate::synth::simple_glyph(), crate::synth::simple_glyph(), crate::synth::composite_glyph(&[(1, true)])];
        let (glyf, loca, _) = crate::synth::glyf_loca_gvar(&glyphs);
        for g in [0u16, 1, 2, 3, 4, 100] {
            let mut gvar = vec![];
            be16(&mut gvar, 1);
            be16(&mut gvar, 0);
            be16(&mut gvar, 1);
            be16(&mut gvar, 0);
            let data_off = 20 + 2 * (g as u32 + 1);
            be32(&mut gvar, data_off);
            be16(&mut gvar, g);
            be16(&mut gvar, 0);
            be32(&mut gvar, data_off);
            for _ in 0..=g {
                be16(&mut gvar, 0);
            }
            out.push(seed(format!("synth:cap/gvar-glyphs={g},glyf-glyphs=3"), None, "gvar2", [1, 3, 0], gvar, vec![glyf.clone(), loca.clone()]));
        }
    }
}
