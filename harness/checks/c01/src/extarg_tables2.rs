// Included into extarg.rs (through extarg_tables.rs): layout, postscript, bitmaps, small tables, driver, seeds.

// ------------------------------------------------------------------------------------------
// layout: coverage / classdef (also reached through LAYOUT_HOOK from the layout drivers), tagged lists
// ------------------------------------------------------------------------------------------

use read_fonts::tables::layout::{ClassDef, CoverageTable};

const LAYOUT_CAP: usize = 8192;

pub fn coverage_group(c: &CoverageTable, w: &mut Walker) {
    // well-formed per the OpenType text: format 1 glyph array strictly increasing; format 2 ranges sorted, not
    // overlapping, start <= end, startCoverageIndex = number of glyphs in the preceding ranges
    let wf = match c {
        CoverageTable::Format1(f) => f.glyph_array().windows(2).all(|p| p[0].get() < p[1].get()),
        CoverageTable::Format2(f) => {
            let mut ok = true;
            let mut next_index = 0u32;
            let mut prev_end: Option<u16> = None;
            for r in f.range_records() {
                let (s, e) = (r.start_glyph_id().to_u16(), r.end_glyph_id().to_u16());
                if s > e || prev_end.is_some_and(|p| s <= p) || r.start_coverage_index() as u32 != next_index {
                    ok = false;
                    break;
                }
                next_index += (e - s) as u32 + 1;
                prev_end = Some(e);
            }
            ok && next_index <= 0x10000
        }
    };
    let items: Vec<u16> = c.iter().take(LAYOUT_CAP).map(|g| g.to_u16()).collect();
    let complete = items.len() < LAYOUT_CAP;
    let mut probe: Vec<u32> = gids(items.len() as u32);
    for g in items.iter().take(2).chain(items.iter().rev().take(2)) {
        probe.extend([(*g as u32).wrapping_sub(1), *g as u32, *g as u32 + 1]);
    }
    for g in dedup(probe) {
        call(w, "CoverageTable::get", g as u64, 0, 0);
        let a = c.get(GlyphId::new(g));
        w.opt_u(a.map(|v| v as u64));
        if g > 0xFFFF {
            oracle("agree.Coverage::get");
            // coverage tables hold 16-bit glyph ids: a larger id is never "in the coverage table"
            if a.is_some() {
                disagree("CoverageTable::get for a glyph id above 0xFFFF", format!("glyph {g:#x}: {a:?}"));
            }
            continue;
        }
        let b = c.get(GlyphId16::new(g as u16));
        oracle("agree.Coverage::get");
        if a != b {
            disagree("CoverageTable::get(GlyphId) vs get(GlyphId16)", format!("glyph {g}: {a:?} vs {b:?}"));
        }
        if wf && complete {
            // "If this glyph is in the coverage table, returns its index" = its position in glyph-id order
            let want = items.binary_search(&(g as u16)).ok().map(|i| i as u16);
            if a != want {
                disagree("CoverageTable::get vs the position in iter()", format!("glyph {g}: {a:?} vs {want:?}"));
            }
        }
    }
}

pub fn classdef_group(c: &ClassDef, w: &mut Walker) {
    let wf = match c {
        ClassDef::Format1(f) => f.start_glyph_id().to_u32() + f.class_value_array().len() as u32 <= 0x10000,
        ClassDef::Format2(f) => {
            let mut ok = true;
            let mut prev_end: Option<u16> = None;
            for r in f.class_range_records() {
                let (s, e) = (r.start_glyph_id().to_u16(), r.end_glyph_id().to_u16());
                if s > e || prev_end.is_some_and(|p| s <= p) {
                    ok = false;
                    break;
                }
                prev_end = Some(e);
            }
            ok
        }
    };
    let pairs: Vec<(u16, u16)> = c.iter().take(LAYOUT_CAP).map(|(g, k)| (g.to_u16(), k)).collect();
    let complete = pairs.len() < LAYOUT_CAP;
    let mut probe: Vec<u16> = u16s(pairs.len().min(0xFFFF) as u16);
    for (g, _) in pairs.iter().take(2).chain(pairs.iter().rev().take(2)) {
        probe.extend([g.wrapping_sub(1), *g, g.wrapping_add(1)]);
    }
    for g in dedup(probe) {
        call(w, "ClassDef::get", g as u64, 0, 0);
        let a = c.get(GlyphId16::new(g));
        w.u(a as u64);
        if wf && complete {
            oracle("agree.ClassDef::get");
            // iter(): "each glyph and its class"; a glyph not listed has class 0
            let want = pairs.binary_search_by_key(&g, |p| p.0).ok().map(|i| pairs[i].1).unwrap_or(0);
            if a != want {
                disagree("ClassDef::get vs iter()", format!("glyph {g}: {a} vs {want}"));
            }
        }
    }
}

fn tagged_lists<'a>(
    what: &'static str,
    scripts: Option<read_fonts::tables::layout::ScriptList<'a>>,
    features: Option<read_fonts::tables::layout::FeatureList<'a>>,
    w: &mut Walker,
) {
    let _ = what;
    if let Some(sl) = scripts {
        let recs = sl.script_records();
        let n = recs.len();
        let sorted = recs.windows(2).all(|p| p[0].script_tag() < p[1].script_tag());
        for i in u16s(n.min(0xFFFF) as u16) {
            call(w, "ScriptList::get", i as u64, 0, 0);
            let r = sl.get(i);
            oracle("agree.ScriptList::get");
            // "Returns the tag and script at the given index"
            match (&r, recs.get(i as usize)) {
                (Ok(t), Some(rec)) if t.tag != rec.script_tag() => disagree("ScriptList::get tag vs script_records()", format!("index {i}")),
                (Ok(_), None) => disagree("ScriptList::get beyond the record count", format!("index {i} of {n}")),
                _ => {}
            }
            w.b(r.is_ok());
            if let (Some(rec), true) = (recs.get(i as usize), sorted) {
                call(w, "ScriptList::index_for_tag", i as u64, 0, 0);
                oracle("agree.ScriptList::index_for_tag");
                if sl.index_for_tag(rec.script_tag()) != Some(i) {
                    disagree("ScriptList::index_for_tag vs script_records()", format!("record {i}"));
                }
            }
            if let Ok(script) = r {
                let lrecs = script.lang_sys_records();
                for j in u16s(lrecs.len().min(0xFFFF) as u16) {
                    call(w, "Script::lang_sys", j as u64, i as u64, 0);
                    let l = script.lang_sys(j);
                    oracle("agree.Script::lang_sys");
                    match (&l, lrecs.get(j as usize)) {
                        (Ok(t), Some(rec)) if t.tag != rec.lang_sys_tag() => disagree("Script::lang_sys tag vs lang_sys_records()", format!("script {i} index {j}")),
                        (Ok(_), None) => disagree("Script::lang_sys beyond the record count", format!("script {i} index {j} of {}", lrecs.len())),
                        _ => {}
                    }
                    w.b(l.is_ok());
                    if let (Ok(ls), Some(fl)) = (&l, &features) {
                        for tag in [Tag::new(b"liga"), Tag::new(b"kern"), Tag::new(b"\0\0\0\0"), Tag::new(b"\xff\xff\xff\xff")] {
                            call(w, "LangSys::feature_index_for_tag", u32::from_be_bytes(tag.to_be_bytes()) as u64, 0, 0);
                            let f = ls.feature_index_for_tag(fl, tag);
                            w.opt_u(f.map(|v| v as u64));
                            // "returns the index of that feature in the specified feature list"
                            if let Some(ix) = f {
                                oracle("agree.LangSys::feature_index_for_tag");
                                if fl.feature_records().get(ix as usize).map(|r| r.feature_tag()) != Some(tag) {
                                    disagree("LangSys::feature_index_for_tag vs feature_records()", format!("tag {tag} -> {ix}"));
                                }
                            }
                        }
                    }
                }
            }
        }
        for tag in [Tag::new(b"DFLT"), Tag::new(b"\0\0\0\0"), Tag::new(b"\xff\xff\xff\xff")] {
            call(w, "ScriptList::index_for_tag", u32::from_be_bytes(tag.to_be_bytes()) as u64, 0, 0);
            let r = sl.index_for_tag(tag);
            if let Some(ix) = r {
                if recs.get(ix as usize).map(|r| r.script_tag()) != Some(tag) {
                    disagree("ScriptList::index_for_tag vs script_records()", format!("tag {tag} -> {ix}"));
                }
            }
            w.opt_u(r.map(|v| v as u64));
        }
    }
    if let Some(fl) = features {
        let recs = fl.feature_records();
        let n = recs.len();
        for i in u16s(n.min(0xFFFF) as u16) {
            call(w, "FeatureList::get", i as u64, 0, 0);
            let r = fl.get(i);
            oracle("agree.FeatureList::get");
            match (&r, recs.get(i as usize)) {
                (Ok(t), Some(rec)) if t.tag != rec.feature_tag() => disagree("FeatureList::get tag vs feature_records()", format!("index {i}")),
                (Ok(_), None) => disagree("FeatureList::get beyond the record count", format!("index {i} of {n}")),
                _ => {}
            }
            w.b(r.is_ok());
        }
    }
}

fn layout_group(data: &[u8], tag: &[u8; 4], w: &mut Walker) {
    let fd = FontData::new(data);
    match tag {
        b"GSUB" => {
            if let Ok(t) = read_fonts::tables::gsub::Gsub::read(fd) {
                tagged_lists("GSUB", t.script_list().ok(), t.feature_list().ok(), w);
                if let Ok(ll) = t.lookup_list() {
                    let n = ll.lookups().len();
                    for i in idxs(n) {
                        call(w, "LookupList::lookups().get", i as u64, 0, 0);
                        let r = ll.lookups().get(i);
                        if i >= n && r.is_ok() {
                            disagree("LookupList::lookups().get beyond the lookup count", format!("index {i} of {n}"));
                        }
                        if let Ok(l) = r {
                            if let Ok(st) = l.subtables() {
                                use read_fonts::tables::gsub::SubstitutionSubtables as S;
                                macro_rules! ends {
                                    ($s:expr) => {
                                        for j in idxs($s.len()) {
                                            call(w, "Subtables::get", j as u64, i as u64, 0);
                                            let r = $s.get(j);
                                            if j >= $s.len() && r.is_ok() {
                                                disagree("Subtables::get beyond len()", format!("lookup {i} index {j}"));
                                            }
                                            w.b(r.is_ok());
                                        }
                                    };
                                }
                                match st {
                                    S::Single(s) => ends!(s),
                                    S::Multiple(s) => ends!(s),
                                    S::Alternate(s) => ends!(s),
                                    S::Ligature(s) => ends!(s),
                                    S::Contextual(s) => ends!(s),
                                    S::ChainContextual(s) => ends!(s),
                                    S::Reverse(s) => ends!(s),
                                }
                            }
                        }
                    }
                }
            }
        }
        b"GPOS" => {
            if let Ok(t) = read_fonts::tables::gpos::Gpos::read(fd) {
                tagged_lists("GPOS", t.script_list().ok(), t.feature_list().ok(), w);
            }
        }
        _ => {}
    }
    // every coverage table and class definition the layout drivers reach gets the boundary family
    LAYOUT_HOOK.with(|h| h.set(true));
    w.nodes = 0;
    let a = [0, 0, u32::from_be_bytes(*tag)];
    crate::drivers2::layout_driver(data, &[], a, w);
    LAYOUT_HOOK.with(|h| h.set(false));
    w.nodes = 0;
}

// ------------------------------------------------------------------------------------------
// postscript
// ------------------------------------------------------------------------------------------

fn index_group(ix: &read_fonts::tables::postscript::Index, w: &mut Walker) {
    let n = ix.count() as usize;
    for i in idxs(n) {
        call(w, "postscript::Index::get_offset", i as u64, 0, 0);
        let o = ix.get_offset(i);
        call(w, "postscript::Index::get", i as u64, 0, 0);
        let g = ix.get(i);
        w.b(o.is_ok());
        w.opt_u(g.as_ref().ok().map(|b| b.len() as u64));
        oracle("agree.Index::get");
        // count objects, count + 1 offsets
        if (i >= n && g.is_ok()) || (i > n && o.is_ok()) {
            disagree("postscript Index::get / get_offset beyond count()", format!("index {i} of {n}"));
        }
    }
}

fn cff_group(data: &[u8], w: &mut Walker) {
    use read_fonts::tables::postscript::StringId;
    let Ok(cff) = read_fonts::tables::cff::Cff::read(FontData::new(data)) else { return };
    index_group(&cff.names().into(), w);
    index_group(&cff.top_dicts().into(), w);
    index_group(&cff.strings().into(), w);
    index_group(&cff.global_subrs().into(), w);
    let n = cff.top_dicts().count() as usize;
    for i in idxs(n) {
        call(w, "Cff::name", i as u64, 0, 0);
        let nm = cff.name(i);
        if i >= cff.names().count() as usize && nm.is_some() {
            disagree("Cff::name beyond the name INDEX", format!("index {i}"));
        }
        call(w, "Cff::charset", i as u64, 0, 0);
        match cff.charset(i) {
            Ok(Some(cs)) => {
                w.tagb(1);
                if i >= n {
                    disagree("Cff::charset beyond the top DICT INDEX", format!("index {i} of {n}"));
                }
                let ng = cs.num_glyphs();
                for g in gids(ng) {
                    call(w, "Charset::string_id", g as u64, i as u64, 0);
                    let r = cs.string_id(GlyphId::new(g));
                    // "the number of glyphs" bounds the glyph ids of a charset
                    if g >= ng && r.is_ok() {
                        disagree("Charset::string_id beyond num_glyphs()", format!("glyph {g} of {ng}"));
                    }
                    w.opt_u(r.ok().map(|s| s.to_u16() as u64));
                }
            }
            Ok(None) => w.tagb(2),
            Err(_) => w.tagb(0),
        }
    }
    let ns = cff.strings().count();
    for sid in dedup([u16s(391), u16s((391 + ns as u32).min(0xFFFF) as u16)].concat()) {
        call(w, "Cff::string", sid as u64, 0, 0);
        let r = cff.string(StringId::new(sid));
        // 391 standard strings, then the string INDEX
        if sid as u32 >= 391 + ns as u32 && r.is_some() {
            disagree("Cff::string beyond the standard strings and the string INDEX", format!("sid {sid}, {ns} strings"));
        }
        w.opt_u(r.map(|s| s.bytes().len() as u64));
    }
}

fn cff2_group(data: &[u8], w: &mut Walker) {
    use read_fonts::tables::postscript::{dict, BlendState};
    let Ok(cff) = read_fonts::tables::cff2::Cff2::read(FontData::new(data)) else { return };
    index_group(&cff.global_subrs().into(), w);
    let mut vstore = None;
    for e in dict::entries(cff.top_dict_data(), None).take(64).flatten() {
        if let dict::Entry::VariationStoreOffset(o) = e {
            vstore = o.checked_add(2).and_then(|s| data.get(s..)).and_then(|d| ItemVariationStore::read(FontData::new(d)).ok());
        }
    }
    let Some(vs) = vstore else { return };
    ivs_group(&vs, w);
    let axes = vs.variation_region_list().map(|l| l.axis_count() as usize).unwrap_or(1).min(70);
    let n = vs.item_variation_data_count();
    for cs in coord_sets(axes) {
        for si in u16s(n) {
            call(w, "BlendState::new", si as u64, cs.len() as u64, 0);
            match BlendState::new(vs.clone(), &cs, si) {
                Ok(mut st) => {
                    w.opt_u(st.region_count().ok().map(|v| v as u64));
                    if let Ok(it) = st.scalars() {
                        for s in it.take(64).flatten() {
                            w.h.i64(s.to_bits() as i64);
                        }
                    }
                    for sj in u16s(n) {
                        call(w, "BlendState::set_store_index", sj as u64, si as u64, 0);
                        w.b(st.set_store_index(sj).is_ok());
                    }
                }
                Err(_) => w.tagb(0),
            }
        }
    }
}

// ------------------------------------------------------------------------------------------
// bitmaps, SVG, COLR, VORG, ankr, feat, bytecode, IFT, VARC
// ------------------------------------------------------------------------------------------

fn sbix_group(data: &[u8], num_glyphs: u16, w: &mut Walker) {
    for ng in u16s(num_glyphs) {
        call(w, "Sbix::read", ng as u64, 0, 0);
        let Ok(t) = read_fonts::tables::sbix::Sbix::read(FontData::new(data), ng) else { continue };
        let strikes = t.strikes();
        for si in idxs(strikes.len()).into_iter().take(6) {
            call(w, "Sbix::strikes().get", si as u64, ng as u64, 0);
            let Ok(s) = strikes.get(si) else { continue };
            for g in gids(ng as u32) {
                call(w, "sbix::Strike::glyph_data", g as u64, ng as u64, si as u64);
                let r = s.glyph_data(GlyphId::new(g));
                oracle("agree.sbix::glyph_data");
                // a strike has numGlyphs + 1 offsets
                if g >= ng as u32 && r.is_ok() {
                    disagree("sbix Strike::glyph_data beyond the numGlyphs argument", format!("glyph {g}, num_glyphs {ng}"));
                }
                w.b(r.is_ok());
            }
        }
    }
}

fn bitmap_group(loc_b: &[u8], dat_b: &[u8], color: bool, w: &mut Walker) {
    use read_fonts::tables::bitmap::BitmapSize;
    use read_fonts::tables::{cbdt::Cbdt, cblc::Cblc, ebdt::Ebdt, eblc::Eblc};
    let lfd = FontData::new(loc_b);
    let (sizes, offset_data): (&[BitmapSize], FontData) = if color {
        let Ok(t) = Cblc::read(lfd) else { return };
        (t.bitmap_sizes(), t.offset_data())
    } else {
        let Ok(t) = Eblc::read(lfd) else { return };
        (t.bitmap_sizes(), t.offset_data())
    };
    let cbdt = Cbdt::read(FontData::new(dat_b)).ok();
    let ebdt = Ebdt::read(FontData::new(dat_b)).ok();
    for size in sizes.iter().take(8) {
        let (s, e) = (size.start_glyph_index().to_u32(), size.end_glyph_index().to_u32());
        for g in dedup([gids(s), gids(e)].concat()) {
            call(w, "BitmapSize::location", g as u64, 0, 0);
            let r = size.location(offset_data, GlyphId::new(g));
            oracle("agree.BitmapSize::location");
            // startGlyphIndex..=endGlyphIndex are the glyphs of a strike
            if (g < s || g > e) && r.is_ok() {
                disagree("BitmapSize::location outside start..=end glyph index", format!("glyph {g}, strike {s}..={e}"));
            }
            if let Ok(loc) = &r {
                call(w, "Cbdt/Ebdt::data", g as u64, 0, 0);
                let d = if color { cbdt.as_ref().map(|t| t.data(loc).is_ok()) } else { ebdt.as_ref().map(|t| t.data(loc).is_ok()) };
                w.opt_u(d.map(|v| v as u64));
            }
            w.b(r.is_ok());
        }
    }
}

fn svg_group(data: &[u8], w: &mut Walker) {
    let Ok(t) = read_fonts::tables::svg::Svg::read(FontData::new(data)) else { return };
    let Ok(list) = t.svg_document_list() else { return };
    let recs = list.document_records();
    let sorted = recs.windows(2).all(|p| p[0].end_glyph_id() < p[1].start_glyph_id()) && recs.iter().all(|r| r.start_glyph_id() <= r.end_glyph_id());
    let mut probe = gids(recs.len() as u32);
    for r in recs.iter().take(4) {
        probe.extend(gids(r.start_glyph_id().to_u32()));
        probe.extend(gids(r.end_glyph_id().to_u32()));
    }
    let key = |g: u32| t.glyph_data(GlyphId::new(g)).ok().map(|o| o.map(|d| (d.as_ptr() as usize, d.len())));
    for g in dedup(probe) {
        call(w, "Svg::glyph_data", g as u64, 0, 0);
        let r = key(g);
        w.opt_u(r.flatten().map(|d| d.1 as u64));
        oracle("agree.Svg::glyph_data");
        if g > 0xFFFF && r != Some(None) {
            // document records hold 16-bit glyph ranges
            disagree("Svg::glyph_data for a glyph id above 0xFFFF", format!("glyph {g:#x}"));
        }
        if sorted && g <= 0xFFFF {
            // a record covers every glyph startGlyphID..=endGlyphID with one document
            match recs.iter().find(|r| r.start_glyph_id().to_u32() <= g && g <= r.end_glyph_id().to_u32()) {
                Some(rec) => {
                    // SVG spec: the record's document is svgDocLength bytes at svgDocOffset from the start of the list
                    let all = list.offset_data().as_bytes();
                    let (o, l) = (rec.svg_doc_offset() as usize, rec.svg_doc_length() as usize);
                    let want = o.checked_add(l).and_then(|e| all.get(o..e)).map(|d| (d.as_ptr() as usize, d.len()));
                    if r != Some(want) || r != key(rec.start_glyph_id().to_u32()) {
                        disagree("Svg::glyph_data inside a record vs the record's document", format!("glyph {g}: {:?} vs {:?}", r.map(|o| o.map(|d| d.1)), want.map(|d| d.1)));
                    }
                }
                None => {
                    if r != Some(None) {
                        disagree("Svg::glyph_data outside every record", format!("glyph {g}"));
                    }
                }
            }
        }
    }
}

fn colr_group(data: &[u8], num_glyphs: u32, w: &mut Walker) {
    let Ok(colr) = read_fonts::tables::colr::Colr::read(FontData::new(data)) else { return };
    let base: Vec<u16> = colr.base_glyph_records().and_then(|r| r.ok()).map(|r| r.iter().map(|b| b.glyph_id().to_u16()).collect()).unwrap_or_default();
    let sorted = base.windows(2).all(|p| p[0] < p[1]);
    let mut probe = dedup([gids(num_glyphs), gids(base.len() as u32)].concat());
    for g in base.iter().take(2).chain(base.iter().rev().take(2)) {
        probe.extend([(*g as u32).wrapping_sub(1), *g as u32, *g as u32 + 1]);
    }
    for g in dedup(probe) {
        let gid = GlyphId::new(g);
        call(w, "Colr::v0_base_glyph", g as u64, 0, 0);
        let v0 = colr.v0_base_glyph(gid);
        call(w, "Colr::v1_base_glyph", g as u64, 0, 0);
        let v1 = colr.v1_base_glyph(gid).map(|o| o.is_some());
        call(w, "Colr::v1_clip_box", g as u64, 0, 0);
        let cb = colr.v1_clip_box(gid).map(|o| o.is_some());
        w.b(matches!(v0, Ok(Some(_))));
        w.b(matches!(v1, Ok(true)));
        w.b(matches!(cb, Ok(true)));
        oracle("agree.Colr-base-glyph");
        if g > 0xFFFF && (matches!(v0, Ok(Some(_))) || matches!(v1, Ok(true)) || matches!(cb, Ok(true))) {
            // COLR records hold 16-bit glyph ids
            disagree("Colr base glyph / clip box for a glyph id above 0xFFFF", format!("glyph {g:#x}"));
        }
        if sorted && g <= 0xFFFF && !base.is_empty() {
            // "the COLRv0 base glyph for the given glyph identifier": present iff a record names the glyph
            if matches!(v0, Ok(Some(_))) != base.binary_search(&(g as u16)).is_ok() {
                disagree("Colr::v0_base_glyph vs base_glyph_records()", format!("glyph {g}"));
            }
        }
    }
    let nl = colr.layer_records().and_then(|r| r.ok()).map(|r| r.len()).unwrap_or(0);
    for i in idxs(nl) {
        call(w, "Colr::v0_layer", i as u64, 0, 0);
        let r = colr.v0_layer(i);
        if i >= nl && r.is_ok() {
            disagree("Colr::v0_layer beyond the layer records", format!("index {i} of {nl}"));
        }
        w.b(r.is_ok());
    }
    let n1 = colr.layer_list().and_then(|r| r.ok()).map(|l| l.paint_offsets().len()).unwrap_or(0);
    for i in idxs(n1) {
        call(w, "Colr::v1_layer", i as u64, 0, 0);
        let r = colr.v1_layer(i);
        if i >= n1 && r.is_ok() {
            disagree("Colr::v1_layer beyond the layer list", format!("index {i} of {n1}"));
        }
        w.b(r.is_ok());
    }
    if let Some(Ok(ivs)) = colr.item_variation_store() {
        ivs_group(&ivs, w);
    }
    if let Some(Ok(m)) = colr.var_index_map() {
        dsim_group(&m, w);
    }
}

fn small_tables_group(font: &FontRef, num_glyphs: u32, w: &mut Walker) {
    if let Ok(t) = font.vorg() {
        let recs = t.vert_origin_y_metrics();
        let sorted = recs.windows(2).all(|p| p[0].glyph_index() < p[1].glyph_index());
        let mut probe = gids(num_glyphs);
        for r in recs.iter().take(2).chain(recs.iter().rev().take(2)) {
            probe.extend(gids(r.glyph_index().to_u32()));
        }
        for g in dedup(probe) {
            call(w, "Vorg::vertical_origin_y", g as u64, 0, 0);
            let y = t.vertical_origin_y(GlyphId::new(g));
            w.i(y as i64);
            oracle("agree.Vorg");
            // "Returns the y coordinate of the glyph's vertical origin": the glyph's record, else the default
            let want = if sorted { recs.iter().find(|r| r.glyph_index().to_u32() == g).map(|r| r.vert_origin_y()).unwrap_or(t.default_vert_origin_y()) } else { y };
            if (g > 0xFFFF && y != t.default_vert_origin_y()) || y != want {
                disagree("Vorg::vertical_origin_y vs vert_origin_y_metrics()", format!("glyph {g}: {y} vs {want}"));
            }
        }
    }
    if let Ok(t) = font.ankr() {
        for g in gids(num_glyphs) {
            call(w, "Ankr::anchor_points", g as u64, 0, 0);
            let r = t.anchor_points(GlyphId::new(g));
            if g > 0xFFFF && r.is_ok() {
                disagree("Ankr::anchor_points for a glyph id above 0xFFFF", format!("glyph {g:#x}"));
            }
            w.b(r.is_ok());
        }
    }
    if let Ok(t) = font.feat() {
        let names = t.names();
        let sorted = names.windows(2).all(|p| p[0].feature() < p[1].feature());
        let mut probe = u16s(names.len().min(0xFFFF) as u16);
        for n in names.iter().take(2).chain(names.iter().rev().take(2)) {
            probe.extend([n.feature().wrapping_sub(1), n.feature(), n.feature().wrapping_add(1)]);
        }
        for f in dedup(probe) {
            call(w, "Feat::find", f as u64, 0, 0);
            let r = t.find(f).map(|n| (n.feature(), n.n_settings()));
            w.opt_u(r.map(|n| n.1 as u64));
            if sorted {
                oracle("agree.Feat::find");
                // "Returns the name for the given feature code"
                let want = names.iter().find(|n| n.feature() == f).map(|n| (n.feature(), n.n_settings()));
                if r != want {
                    disagree("Feat::find vs names()", format!("feature {f}"));
                }
            }
        }
    }
    for tag in [b"fpgm", b"prep"] {
        if let Some(d) = font.table_data(Tag::new(tag)) {
            let code = d.as_bytes();
            let lim = code.len() as u64 + 2;
            for pc in idxs(code.len()) {
                call(w, "bytecode::decode_all", pc as u64, 0, 0);
                let mut n = 0u64;
                for _ in read_fonts::tables::glyf::bytecode::decode_all(code, pc) {
                    n += 1;
                    if n > lim {
                        crate::drivers::report_overrun("bytecode::decode_all yields more instructions than the program has bytes", n);
                        break;
                    }
                }
                if pc >= code.len() && n > 0 {
                    disagree("bytecode::decode_all starting at or past the end of the program", format!("pc {pc} of {}: {n} items", code.len()));
                }
                w.u(n);
            }
        }
    }
    if let Ok(t) = font.varc() {
        let n = t.coverage().map(|c| c.iter().take(LAYOUT_CAP).count()).unwrap_or(0);
        for i in idxs(n) {
            call(w, "Varc::glyph", i as u64, 0, 0);
            w.b(t.glyph(i).is_ok());
            call(w, "Varc::axis_indices", i as u64, 0, 0);
            w.b(t.axis_indices(i).is_ok());
        }
    }
    for ift in [font.ift(), font.iftx()].into_iter().flatten() {
        ift_group(&ift, w);
    }
}

fn ift_group(ift: &read_fonts::tables::ift::Ift, w: &mut Walker) {
    if let read_fonts::tables::ift::Ift::Format1(t) = ift {
        for i in u16s(t.entry_count().min(0xFFFF) as u16) {
            call(w, "PatchMapFormat1::is_entry_applied", i as u64, 0, 0);
            w.b(t.is_entry_applied(i));
            if let Some(Ok(fm)) = t.feature_map() {
                call(w, "FeatureMap::entry_records_size", i as u64, 0, 0);
                w.b(fm.entry_records_size(i).is_ok());
            }
        }
    }
}

// ------------------------------------------------------------------------------------------
// one font: every group with the font's own realistic values
// ------------------------------------------------------------------------------------------

fn font_groups(font: &FontRef, w: &mut Walker) {
    let num_glyphs = font.maxp().map(|m| m.num_glyphs()).unwrap_or(0);
    let ng = num_glyphs as u32;
    let n_hm = font.hhea().map(|h| h.number_of_h_metrics()).unwrap_or(0);
    let n_vm = font.vhea().map(|h| h.number_of_long_ver_metrics()).unwrap_or(0);
    let is_long = font.head().map(|h| h.index_to_loc_format() == 1).unwrap_or(false);
    let axis_count = font.fvar().map(|f| f.axis_count()).unwrap_or(0);
    let get = |t: &[u8; 4]| font.table_data(Tag::new(t)).map(|d| d.as_bytes());
    sub(w, "TableProvider::loca", |w| {
        call(w, "TableProvider::loca", 0, 0, 0);
        let a = font.loca(None);
        call(w, "TableProvider::loca", 1 + is_long as u64, 0, 0);
        let b = font.loca(Some(is_long));
        call(w, "TableProvider::loca", 1 + !is_long as u64, 0, 0);
        w.b(font.loca(Some(!is_long)).is_ok());
        if font.head().is_ok() {
            oracle("agree.TableProvider::loca");
            // documented: "is_long can be optionally provided, if known, otherwise we look it up in head"
            let key = |l: &Result<read_fonts::tables::loca::Loca, read_fonts::ReadError>| l.as_ref().ok().map(|l| (l.len(), l.get_raw(0), l.get_raw(l.len())));
            if key(&a) != key(&b) {
                disagree("TableProvider::loca(None) vs loca(Some(head format))", format!("is_long {is_long}"));
            }
        }
    });
    if let Some(cmap) = get(b"cmap") {
        let lims = [Cmap12IterLimits::default_for_font(font)];
        sub(w, "cmap", |w| cmap_group(cmap, &lims, w));
    }
    if let (Some(glyf), Some(loca)) = (get(b"glyf"), get(b"loca")) {
        sub(w, "loca/glyf", |w| loca_group(glyf, loca, ng, w));
    }
    if let Some(d) = get(b"hmtx") {
        sub(w, "hmtx", |w| metrics_group(d, false, n_hm, num_glyphs, w));
    }
    if let Some(d) = get(b"vmtx") {
        sub(w, "vmtx", |w| metrics_group(d, true, n_vm, num_glyphs, w));
    }
    if let Some(d) = get(b"hdmx") {
        sub(w, "hdmx", |w| hdmx_group(d, num_glyphs, w));
    }
    if let Some(d) = get(b"post") {
        sub(w, "post", |w| post_group(d, w));
    }
    if let Some(d) = get(b"HVAR") {
        sub(w, "HVAR", |w| hvar_group(d, ng, w));
    }
    if let Some(d) = get(b"VVAR") {
        sub(w, "VVAR", |w| vvar_group(d, ng, w));
    }
    if let Some(d) = get(b"MVAR") {
        sub(w, "MVAR", |w| mvar_group(d, w));
    }
    if let Some(d) = get(b"gvar") {
        sub(w, "gvar", |w| gvar_group(d, get(b"glyf").unwrap_or(&[]), get(b"loca").unwrap_or(&[]), is_long, w));
    }
    if let Some(d) = get(b"cvar") {
        let cvt_len = get(b"cvt ").map(|c| c.len() / 2).unwrap_or(0);
        sub(w, "cvar", |w| cvar_group(d, axis_count, cvt_len, w));
    }
    if let Some(d) = get(b"fvar") {
        sub(w, "fvar", |w| fvar_group(d, get(b"avar"), w));
    }
    sub(w, "avar/GDEF/BASE stores", |w| {
        if let Ok(t) = font.avar() {
            if let Some(Ok(m)) = t.axis_index_map() {
                dsim_group(&m, w);
            }
            if let Some(Ok(s)) = t.var_store() {
                ivs_group(&s, w);
            }
        }
        if let Ok(t) = font.gdef() {
            if let Some(Ok(s)) = t.item_var_store() {
                ivs_group(&s, w);
            }
        }
        if let Ok(t) = font.base() {
            if let Some(Ok(s)) = t.item_var_store() {
                ivs_group(&s, w);
            }
        }
    });
    for tag in [b"GDEF", b"GSUB", b"GPOS"] {
        if let Some(d) = get(tag) {
            sub(w, "layout", |w| layout_group(d, tag, w));
        }
    }
    if let Some(d) = get(b"CFF ") {
        sub(w, "CFF", |w| cff_group(d, w));
    }
    if let Some(d) = get(b"CFF2") {
        sub(w, "CFF2", |w| cff2_group(d, w));
    }
    if let Some(d) = get(b"sbix") {
        sub(w, "sbix", |w| sbix_group(d, num_glyphs, w));
    }
    if let (Some(l), Some(d)) = (get(b"CBLC"), get(b"CBDT")) {
        sub(w, "CBLC/CBDT", |w| bitmap_group(l, d, true, w));
    }
    if let (Some(l), Some(d)) = (get(b"EBLC"), get(b"EBDT")) {
        sub(w, "EBLC/EBDT", |w| bitmap_group(l, d, false, w));
    }
    if let Some(d) = get(b"SVG ") {
        sub(w, "SVG", |w| svg_group(d, w));
    }
    if let Some(d) = get(b"COLR") {
        sub(w, "COLR", |w| colr_group(d, ng, w));
    }
    sub(w, "VORG/ankr/feat/bytecode/VARC/IFT", |w| small_tables_group(font, ng, w));
    if let Some(d) = get(b"head") {
        sub(w, "FontData", |w| fontdata_group(d, w));
    }
}

/// every font-test-data blob: the groups whose type reads it
fn blob_groups(data: &[u8], w: &mut Walker) {
    let fd = FontData::new(data);
    sub(w, "blob cmap", |w| {
        cmap_group(data, &[], w);
        if let Ok(t) = Cmap12::read(fd) {
            cmap12_group(&t, &[], w);
        }
    });
    sub(w, "blob coverage/classdef", |w| {
        if let Ok(c) = CoverageTable::read(fd) {
            coverage_group(&c, w);
        }
        if let Ok(c) = ClassDef::read(fd) {
            classdef_group(&c, w);
        }
    });
    sub(w, "blob variation store", |w| {
        if let Ok(s) = ItemVariationStore::read(fd) {
            ivs_group(&s, w);
        }
        if let Ok(m) = DeltaSetIndexMap::read(fd) {
            dsim_group(&m, w);
        }
    });
    sub(w, "blob INDEX", |w| {
        for cff2 in [false, true] {
            if let Ok(ix) = read_fonts::tables::postscript::Index::new(data, cff2) {
                index_group(&ix, w);
            }
        }
    });
    sub(w, "blob IFT / layout lists", |w| {
        if let Ok(ift) = read_fonts::tables::ift::Ift::read(fd) {
            ift_group(&ift, w);
        }
        tagged_lists("blob", read_fonts::tables::layout::ScriptList::read(fd).ok(), None, w);
        tagged_lists("blob", None, read_fonts::tables::layout::FeatureList::read(fd).ok(), w);
    });
    sub(w, "blob tables", |w| {
        post_group(data, w);
        svg_group(data, w);
        colr_group(data, 8, w);
        hvar_group(data, 8, w);
        vvar_group(data, 8, w);
        mvar_group(data, w);
        cff_group(data, w);
        cff2_group(data, w);
        fvar_group(data, None, w);
        cvar_group(data, 1, 8, w);
        gvar_group(data, &[], &[], false, w);
        hdmx_group(data, 3, w);
        for tag in [b"GDEF", b"GSUB", b"GPOS"] {
            layout_group(data, tag, w);
        }
    });
}

/// a[2]: 0 = whole font file / collection; 1 = font-test-data blob; b"cm12" / b"covr" / b"clsd" = a bare
/// Cmap12 subtable / CoverageTable / ClassDef; 2 = the argument-only APIs (no font data)
pub fn extarg_driver(data: &[u8], _ctx: &[Vec<u8>], a: [u32; 3], w: &mut Walker) {
    match &a[2].to_be_bytes() {
        [0, 0, 0, 0] => {
            sub(w, "file", |w| file_group(data, w));
            match read_fonts::FileRef::new(data) {
                Ok(read_fonts::FileRef::Font(f)) => font_groups(&f, w),
                Ok(read_fonts::FileRef::Collection(c)) => {
                    for f in c.iter().take(4).flatten() {
                        font_groups(&f, w);
                    }
                }
                Err(_) => w.tagb(0),
            }
        }
        [0, 0, 0, 1] => blob_groups(data, w),
        [0, 0, 0, 2] => {
            sub(w, "argument-only APIs", pure_group);
            sub(w, "FontData", |w| fontdata_group(data, w));
        }
        b"cm12" => sub(w, "synthetic cmap12", |w| {
            if let Ok(t) = Cmap12::read(FontData::new(data)) {
                cmap12_group(&t, &[], w)
            }
        }),
        b"covr" => sub(w, "synthetic coverage", |w| {
            if let Ok(t) = CoverageTable::read(FontData::new(data)) {
                coverage_group(&t, w)
            }
        }),
        b"clsd" => sub(w, "synthetic classdef", |w| {
            if let Ok(t) = ClassDef::read(FontData::new(data)) {
                classdef_group(&t, w)
            }
        }),
        _ => w.tagb(0xFF),
    }
}

// ------------------------------------------------------------------------------------------
// seeds
// ------------------------------------------------------------------------------------------

fn once_seed(name: String, sel: u32, data: Vec<u8>) -> Seed {
    Seed {
        name,
        class: "synth",
        ty: None,
        args: [0; 3],
        drivers: vec![(crate::drivers::find("extarg").expect("driver"), [0, 0, sel])],
        data,
        ctx: vec![],
        pos_limit: 0,
        extra_trunc: vec![],
    }
}

/// an sfnt file with the given tables (sorted by tag here; checksums are not read by read-fonts)
fn sfnt(mut tables: Vec<([u8; 4], Vec<u8>)>) -> Vec<u8> {
    tables.sort();
    let n = tables.len() as u16;
    let mut out = vec![0, 1, 0, 0];
    out.extend(n.to_be_bytes());
    out.extend([0u8; 6]);
    let mut off = 12 + 16 * tables.len() as u32;
    for (tag, data) in &tables {
        out.extend(tag);
        out.extend(0u32.to_be_bytes());
        out.extend(off.to_be_bytes());
        out.extend((data.len() as u32).to_be_bytes());
        off += (data.len() as u32 + 3) & !3;
    }
    for (_, data) in &tables {
        out.extend(data);
        while out.len() % 4 != 0 {
            out.push(0);
        }
    }
    out
}

/// tables the corpus does not have: SVG (3 records incl. one at the top of the glyph-id range), ankr, feat, VORG
fn synthetic_font() -> Vec<u8> {
    let w16 = |v: &mut Vec<u8>, x: u16| v.extend(x.to_be_bytes());
    let w32 = |v: &mut Vec<u8>, x: u32| v.extend(x.to_be_bytes());
    let mut maxp = vec![];
    w32(&mut maxp, 0x0000_5000);
    w16(&mut maxp, 8);
    let mut svg = vec![];
    w16(&mut svg, 0);
    w32(&mut svg, 10);
    w32(&mut svg, 0);
    w16(&mut svg, 3);
    for (s, e, o, l) in [(1u16, 3u16, 38u32, 10u32), (6, 7, 48, 6), (0xFFFE, 0xFFFF, 54, 4)] {
        w16(&mut svg, s);
        w16(&mut svg, e);
        w32(&mut svg, o);
        w32(&mut svg, l);
    }
    svg.extend(b"<svg>aaaa/><svg/><s/>");
    let mut ankr = vec![];
    w32(&mut ankr, 0);
    w32(&mut ankr, 12);
    w32(&mut ankr, 12 + 10);
    for x in [0u16, 0, 8, 24, 32] {
        w16(&mut ankr, x);
    }
    let entries: [&[(i16, i16)]; 4] = [&[(-20, 20)], &[(42, -10), (-200, 300), (i16::MIN, i16::MAX)], &[(0, 4)], &[(0, 0), (64, -64)]];
    for e in entries {
        w32(&mut ankr, e.len() as u32);
        for (x, y) in e {
            w16(&mut ankr, *x as u16);
            w16(&mut ankr, *y as u16);
        }
    }
    let mut feat = vec![];
    w32(&mut feat, 0x0001_0000);
    let codes = [0u16, 1, 3, 0xFFFF];
    w16(&mut feat, codes.len() as u16);
    w16(&mut feat, 0);
    w32(&mut feat, 0);
    for (i, c) in codes.iter().enumerate() {
        w16(&mut feat, *c);
        w16(&mut feat, 1);
        w32(&mut feat, 12 + 12 * codes.len() as u32 + 4 * i as u32);
        w16(&mut feat, if i == 1 { 0xC000 } else { 0 });
        w16(&mut feat, 256 + i as u16);
    }
    for i in 0..codes.len() as u16 {
        w16(&mut feat, i);
        w16(&mut feat, 300 + i);
    }
    let mut vorg = vec![];
    w16(&mut vorg, 1);
    w16(&mut vorg, 0);
    w16(&mut vorg, 880);
    w16(&mut vorg, 3);
    for (g, y) in [(1u16, 900i16), (3, -5), (0xFFFF, 7)] {
        w16(&mut vorg, g);
        w16(&mut vorg, y as u16);
    }
    sfnt(vec![(*b"maxp", maxp), (*b"SVG ", svg), (*b"ankr", ankr), (*b"feat", feat), (*b"VORG", vorg)])
}

pub fn extarg_seeds(out: &mut Vec<Seed>) {
    for (name, bytes) in vcore::corpus_fonts() {
        out.push(once_seed(format!("synth:extarg/font/{name}"), 0, bytes));
    }
    for (bname, get) in crate::registry::STATIC_BLOBS {
        out.push(once_seed(format!("synth:extarg/blob/{bname}"), 1, get()));
    }
    out.push(once_seed("synth:extarg/argument-only".into(), 2, (0..40u8).collect()));
    out.push(once_seed("synth:extarg/font/synthetic-svg-ankr-feat-vorg".into(), 0, synthetic_font()));
    let sel = |t: &[u8; 4]| u32::from_be_bytes(*t);
    // well-formed format 12 subtables at the code-point and glyph-id limits
    let cmaps: [(&str, Vec<(u32, u32, u32)>); 9] = [
        ("latin", vec![(0x41, 0x5A, 1), (0x61, 0x63, 27)]),
        ("empty", vec![]),
        ("cp0", vec![(0, 0, 0)]),
        ("last-unicode", vec![(0x10FFF0, 0x10FFFF, 100)]),
        ("past-unicode", vec![(0x41, 0x42, 1), (0x10FFFE, 0x110001, 5)]),
        ("top-of-u32", vec![(0x20, 0x21, 7), (0xFFFF_FFF0, 0xFFFF_FFFF, 1)]),
        ("gid-across-0xffff", vec![(0x20, 0x2F, 0xFFF8)]),
        ("gid-top-of-u32", vec![(0x20, 0x21, 0xFFFF_FFFE)]),
        ("bmp-edge", vec![(0xFFFE, 0x10001, 3)]),
    ];
    for (label, groups) in cmaps {
        out.push(once_seed(format!("synth:extarg/cmap12-{label}"), sel(b"cm12"), cmap12_bytes(&groups)));
    }
    let be = |v: &[u16]| -> Vec<u8> { v.iter().flat_map(|x| x.to_be_bytes()).collect() };
    let covs: [(&str, Vec<u16>); 6] = [
        ("f1-empty", vec![1, 0]),
        ("f1-edges", vec![1, 4, 0, 1, 0xFFFE, 0xFFFF]),
        ("f1-one", vec![1, 1, 0x8000]),
        ("f2-edges", vec![2, 2, 0, 1, 0, 0xFFFE, 0xFFFF, 2]),
        ("f2-all", vec![2, 1, 0, 0x1FFF, 0]),
        ("f2-empty", vec![2, 0]),
    ];
    for (label, words) in covs {
        out.push(once_seed(format!("synth:extarg/coverage-{label}"), sel(b"covr"), be(&words)));
    }
    let clss: [(&str, Vec<u16>); 5] = [
        ("f1-top", vec![1, 0xFFFE, 2, 5, 6]),
        ("f1-zero", vec![1, 0, 3, 1, 2, 3]),
        ("f1-empty", vec![1, 7, 0]),
        ("f2-edges", vec![2, 2, 0, 1, 4, 0xFFFE, 0xFFFF, 9]),
        ("f2-empty", vec![2, 0]),
    ];
    for (label, words) in clss {
        out.push(once_seed(format!("synth:extarg/classdef-{label}"), sel(b"clsd"), be(&words)));
    }
}
