fn main() {
    println!("types={} skipped={} blobs={}", c01::registry::TYPES.len(), c01::registry::TYPES_SKIPPED.len(), c01::registry::STATIC_BLOBS.len());
    for (n, w) in c01::registry::TYPES_SKIPPED { println!("skipped {n}: {w}"); }
}
