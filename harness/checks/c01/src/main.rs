//! C01 — parsing and traversing untrusted font bytes never panics or hangs; observations are a pure
//! function of the bytes. See DESIGN.md §3 C01; the engine lives in the `c01` library (reused by C20).
use c01::engine::{engine_main, EngineConfig, Mode};

fn main() {
    engine_main(EngineConfig { property: "C01", mode: Mode::C01, extra: vec![] })
}
