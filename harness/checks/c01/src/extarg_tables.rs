// Included into extarg.rs: the per-table API groups, the driver and the seed list.

// ------------------------------------------------------------------------------------------
// glyf / loca
// ------------------------------------------------------------------------------------------

fn loca_group(glyf_b: &[u8], loca_b: &[u8], num_glyphs: u32, w: &mut Walker) {
    use read_fonts::tables::glyf::Glyf;
    use read_fonts::tables::loca::Loca;
    let Ok(glyf) = Glyf::read(FontData::new(glyf_b)) else { return };
    for is_long in [false, true] {
        call(w, "Loca::read", is_long as u64, 0, 0);
        let Ok(loca) = Loca::read(FontData::new(loca_b), is_long) else { continue };
        let n = loca.len();
        w.u(n as u64);
        for i in dedup([idxs(n), idxs(num_glyphs as usize)].concat()) {
            call(w, "Loca::get_raw", i as u64, is_long as u64, 0);
            let r = loca.get_raw(i);
            w.opt_u(r.map(|v| v as u64));
            oracle("agree.Loca");
            // len() is the number of glyphs = number of offsets - 1: offsets 0..=len() exist, nothing beyond
            if (i > n && r.is_some()) || (i <= n && n > 0 && r.is_none()) {
                disagree("Loca::get_raw vs len()", format!("index {i}, len() {n}, is_long {is_long}: {r:?}"));
            }
        }
        for g in dedup([gids(n as u32), gids(num_glyphs)].concat()) {
            call(w, "Loca::get_glyf", g as u64, is_long as u64, 0);
            let r = loca.get_glyf(GlyphId::new(g), &glyf);
            match &r {
                Ok(Some(_)) => w.tagb(1),
                Ok(None) => w.tagb(2),
                Err(e) => rerr(w, e),
            }
            oracle("agree.Loca");
            if g as u64 >= n as u64 && r.is_ok() {
                disagree("Loca::get_glyf beyond len()", format!("glyph {g}, len() {n}, is_long {is_long}"));
            }
            if let Ok(Some(read_fonts::tables::glyf::Glyph::Simple(sg))) = &r {
                simple_glyph_buffers(sg, g, w);
            }
        }
    }
}

/// SimpleGlyph::read_points_fast with caller-sized buffers: lengths {0, 1, n-1, n, n+1} for points x flags
fn simple_glyph_buffers(sg: &read_fonts::tables::glyf::SimpleGlyph, g: u32, w: &mut Walker) {
    use read_fonts::tables::glyf::PointFlags;
    use read_fonts::types::Point;
    let n = sg.num_points();
    if n > 4096 {
        return;
    }
    let lens = dedup(vec![0usize, 1, n.saturating_sub(1), n, n + 1]);
    for pl in &lens {
        for fl in &lens {
            let mut pts = vec![Point::<i32>::default(); *pl];
            let mut flags = vec![PointFlags::default(); *fl];
            call(w, "SimpleGlyph::read_points_fast", *pl as u64, *fl as u64, g as u64);
            let r = sg.read_points_fast(&mut pts, &mut flags);
            w.b(r.is_ok());
            oracle("agree.read_points_fast");
            // documented: "The lengths of the buffers must be equal to the value returned by num_points"
            if r.is_ok() && (*pl != n || *fl != n) {
                disagree("SimpleGlyph::read_points_fast accepts buffers not of num_points() length", format!("glyph {g}: {pl} points, {fl} flags, num_points {n}"));
            }
            if r.is_ok() {
                // documented as the faster equivalent of the points() iterator
                let it: Vec<(i32, i32, bool)> = sg.points().take(n + 1).map(|p| (p.x as i32, p.y as i32, p.on_curve)).collect();
                let fast: Vec<(i32, i32, bool)> = pts.iter().zip(flags.iter()).map(|(p, f)| (p.x, p.y, f.is_on_curve())).collect();
                if it != fast {
                    disagree("SimpleGlyph::read_points_fast vs points()", format!("glyph {g}"));
                }
            }
        }
    }
}

// ------------------------------------------------------------------------------------------
// hmtx / vmtx / hdmx / post
// ------------------------------------------------------------------------------------------

fn metrics_group(data: &[u8], vertical: bool, n_long: u16, num_glyphs: u16, w: &mut Walker) {
    use read_fonts::tables::{hmtx::Hmtx, vmtx::Vmtx};
    for nl in u16s(n_long) {
        for ng in u16s(num_glyphs) {
            let args = (nl, ng);
            let probe = dedup([gids(nl as u32), gids(ng as u32)].concat());
            let mut seen: Vec<(u32, Option<u16>)> = vec![];
            if vertical {
                call(w, "Vmtx::read_with_args", nl as u64, ng as u64, 0);
                let Ok(t) = Vmtx::read_with_args(FontData::new(data), &args) else { continue };
                for g in probe {
                    call(w, "Vmtx::advance", g as u64, nl as u64, ng as u64);
                    let a = t.advance(GlyphId::new(g));
                    call(w, "Vmtx::side_bearing", g as u64, nl as u64, ng as u64);
                    w.opt_u(t.side_bearing(GlyphId::new(g)).map(|v| v as u16 as u64));
                    w.opt_u(a.map(|v| v as u64));
                    seen.push((g, a));
                }
            } else {
                call(w, "Hmtx::read_with_args", nl as u64, ng as u64, 0);
                let Ok(t) = Hmtx::read_with_args(FontData::new(data), &args) else { continue };
                for g in probe {
                    call(w, "Hmtx::advance", g as u64, nl as u64, ng as u64);
                    let a = t.advance(GlyphId::new(g));
                    call(w, "Hmtx::side_bearing", g as u64, nl as u64, ng as u64);
                    w.opt_u(t.side_bearing(GlyphId::new(g)).map(|v| v as u16 as u64));
                    w.opt_u(a.map(|v| v as u64));
                    seen.push((g, a));
                }
            }
            if nl >= 1 {
                // OpenType hmtx/vmtx: glyphs numberOfLongMetrics..numGlyphs have the advance of the last long metric
                let last = seen.iter().find(|(g, _)| *g == nl as u32 - 1).map(|p| p.1);
                for (g, a) in &seen {
                    if *g >= nl as u32 && *g < ng as u32 {
                        oracle("agree.hmtx-advance");
                        if Some(*a) != last {
                            disagree("Hmtx/Vmtx::advance beyond the long metrics vs the last long metric", format!("glyph {g}, args ({nl}, {ng}), vertical {vertical}: {a:?} vs {last:?}"));
                        }
                    }
                }
            }
        }
    }
}

fn hdmx_group(data: &[u8], num_glyphs: u16, w: &mut Walker) {
    use read_fonts::tables::hdmx::Hdmx;
    for ng in u16s(num_glyphs) {
        call(w, "Hdmx::read", ng as u64, 0, 0);
        let Ok(t) = Hdmx::read(FontData::new(data), ng) else { continue };
        let recs: Vec<(u8, u8, usize)> = t.records().iter().take(300).filter_map(|r| r.ok()).map(|r| (r.pixel_size, r.max_width, r.widths.len())).collect();
        let sorted = recs.len() == t.records().len() && recs.windows(2).all(|p| p[0].0 < p[1].0);
        for size in 0..=255u8 {
            call(w, "Hdmx::record_for_size", size as u64, ng as u64, 0);
            let got = t.record_for_size(size).map(|r| (r.pixel_size, r.max_width, r.widths.len()));
            w.opt_u(got.map(|r| r.2 as u64));
            if sorted {
                oracle("agree.Hdmx::record_for_size");
                // documented: "the device record that exactly matches the given size"
                let want = recs.iter().find(|r| r.0 == size).copied();
                if got != want {
                    disagree("Hdmx::record_for_size vs records()", format!("size {size}, num_glyphs {ng}: {got:?} vs {want:?}"));
                }
            }
        }
        for i in idxs(t.records().len()) {
            call(w, "Hdmx::records().get", i as u64, ng as u64, 0);
            w.b(t.records().get(i).is_ok());
        }
    }
}

fn post_group(data: &[u8], w: &mut Walker) {
    use read_fonts::tables::post::Post;
    let Ok(post) = Post::read(FontData::new(data)) else { return };
    let n = post.num_names();
    for g in u16s(n.min(0xFFFF) as u16) {
        call(w, "Post::glyph_name", g as u64, 0, 0);
        let r = post.glyph_name(GlyphId16::new(g));
        w.opt_u(r.map(|s| s.len() as u64));
        oracle("agree.Post::glyph_name");
        // num_names() is documented as "the number of glyph names covered by this table"
        if g as usize >= n && r.is_some() {
            disagree("Post::glyph_name beyond num_names()", format!("glyph {g}, num_names {n}"));
        }
    }
}

// ------------------------------------------------------------------------------------------
// variation stores and their users
// ------------------------------------------------------------------------------------------

use read_fonts::tables::variations::{DeltaSetIndex, DeltaSetIndexMap, ItemVariationStore};

pub fn dsim_group(m: &DeltaSetIndexMap, w: &mut Walker) {
    let count = match m {
        DeltaSetIndexMap::Format0(f) => f.map_count() as u32,
        DeltaSetIndexMap::Format1(f) => f.map_count(),
    };
    let key = |r: Result<DeltaSetIndex, read_fonts::ReadError>| r.ok().map(|d| (d.outer, d.inner));
    let last = if count >= 1 { key(m.get(count - 1)) } else { None };
    for i in u32s(count) {
        call(w, "DeltaSetIndexMap::get", i as u64, 0, 0);
        let r = key(m.get(i));
        w.opt_u(r.map(|d| ((d.0 as u64) << 16) | d.1 as u64));
        if count >= 1 && i >= count {
            oracle("agree.DeltaSetIndexMap::get");
            // OpenType: "if an index into the mapping array is used that is greater than or equal to mapCount,
            // then the last logical entry of the mapping array is used"
            if r != last {
                disagree("DeltaSetIndexMap::get beyond mapCount vs the last entry", format!("index {i}, mapCount {count}: {r:?} vs {last:?}"));
            }
        }
    }
}

pub fn ivs_group(ivs: &ItemVariationStore, w: &mut Walker) {
    let axes = ivs.variation_region_list().map(|l| l.axis_count() as usize).unwrap_or(1).min(70);
    let sets = coord_sets(axes);
    let n_outer = ivs.item_variation_data_count();
    for outer in u16s(n_outer) {
        let item_count = match ivs.item_variation_data().get(outer as usize) {
            Some(Ok(d)) => d.item_count(),
            _ => 0,
        };
        for inner in u16s(item_count) {
            let idx = DeltaSetIndex { outer, inner };
            for c in &sets {
                call(w, "ItemVariationStore::compute_delta", outer as u64, inner as u64, c.len() as u64);
                let a = ivs.compute_delta(idx, c).ok();
                w.opt_u(a.map(|v| v as u32 as u64));
                call(w, "ItemVariationStore::compute_float_delta", outer as u64, inner as u64, c.len() as u64);
                w.b(ivs.compute_float_delta(idx, c).is_ok());
                if !c.is_empty() && c.len() < axes {
                    oracle("agree.coords-zero-padding");
                    // an axis without a coordinate is at its default (0): the documented convention of
                    // Tuple::compute_scalar, shared by every coordinate-slice API
                    let b = ivs.compute_delta(idx, &zero_padded(c, axes)).ok();
                    if a != b {
                        disagree("ItemVariationStore::compute_delta short coordinate slice vs zero-padded", format!("index ({outer},{inner}), {} of {axes} coords: {a:?} vs {b:?}", c.len()));
                    }
                }
            }
        }
    }
}

macro_rules! delta_fn {
    ($w:expr, $axes:expr, $sets:expr, $api:literal, $g:expr, |$c:ident| $e:expr) => {
        for cs in $sets.iter() {
            call($w, $api, $g as u64, cs.len() as u64, 0);
            let a = {
                let $c: &[F2Dot14] = cs;
                $e
            }
            .ok()
            .map(|v| v.to_bits());
            $w.opt_u(a.map(|v| v as u32 as u64));
            if !cs.is_empty() && cs.len() < $axes {
                oracle("agree.coords-zero-padding");
                let p = zero_padded(cs, $axes);
                let b = {
                    let $c: &[F2Dot14] = &p;
                    $e
                }
                .ok()
                .map(|v| v.to_bits());
                if a != b {
                    disagree(concat!($api, " short coordinate slice vs zero-padded"), format!("argument {}, {} of {} coords: {a:?} vs {b:?}", $g, cs.len(), $axes));
                }
            }
        }
    };
}

fn hvar_group(data: &[u8], num_glyphs: u32, w: &mut Walker) {
    let Ok(t) = read_fonts::tables::hvar::Hvar::read(FontData::new(data)) else { return };
    let Ok(ivs) = t.item_variation_store() else { return };
    let axes = ivs.variation_region_list().map(|l| l.axis_count() as usize).unwrap_or(1).min(70);
    let sets = coord_sets(axes);
    for g in gids(num_glyphs) {
        let gid = GlyphId::new(g);
        delta_fn!(w, axes, sets, "Hvar::advance_width_delta", g, |c| t.advance_width_delta(gid, c));
        delta_fn!(w, axes, sets, "Hvar::lsb_delta", g, |c| t.lsb_delta(gid, c));
        delta_fn!(w, axes, sets, "Hvar::rsb_delta", g, |c| t.rsb_delta(gid, c));
    }
    ivs_group(&ivs, w);
    for m in [t.advance_width_mapping(), t.lsb_mapping(), t.rsb_mapping()].into_iter().flatten().flatten() {
        dsim_group(&m, w);
    }
}

fn vvar_group(data: &[u8], num_glyphs: u32, w: &mut Walker) {
    let Ok(t) = read_fonts::tables::vvar::Vvar::read(FontData::new(data)) else { return };
    let Ok(ivs) = t.item_variation_store() else { return };
    let axes = ivs.variation_region_list().map(|l| l.axis_count() as usize).unwrap_or(1).min(70);
    let sets = coord_sets(axes);
    for g in gids(num_glyphs) {
        let gid = GlyphId::new(g);
        delta_fn!(w, axes, sets, "Vvar::advance_height_delta", g, |c| t.advance_height_delta(gid, c));
        delta_fn!(w, axes, sets, "Vvar::tsb_delta", g, |c| t.tsb_delta(gid, c));
        delta_fn!(w, axes, sets, "Vvar::bsb_delta", g, |c| t.bsb_delta(gid, c));
        delta_fn!(w, axes, sets, "Vvar::v_org_delta", g, |c| t.v_org_delta(gid, c));
    }
    ivs_group(&ivs, w);
    for m in [t.advance_height_mapping(), t.tsb_mapping(), t.bsb_mapping(), t.v_org_mapping()].into_iter().flatten().flatten() {
        dsim_group(&m, w);
    }
}

fn mvar_group(data: &[u8], w: &mut Walker) {
    let Ok(t) = read_fonts::tables::mvar::Mvar::read(FontData::new(data)) else { return };
    let Some(Ok(ivs)) = t.item_variation_store() else { return };
    let axes = ivs.variation_region_list().map(|l| l.axis_count() as usize).unwrap_or(1).min(70);
    let sets = coord_sets(axes);
    let mut tags: Vec<Tag> = t.value_records().iter().take(4).map(|r| r.value_tag()).collect();
    tags.extend([Tag::new(b"\0\0\0\0"), Tag::new(b"xhgt"), Tag::new(b"\xff\xff\xff\xff")]);
    for tag in tags {
        let tv = u32::from_be_bytes(tag.to_be_bytes());
        delta_fn!(w, axes, sets, "Mvar::metric_delta", tv, |c| t.metric_delta(tag, c));
    }
    ivs_group(&ivs, w);
}

fn gvar_group(gvar_b: &[u8], glyf_b: &[u8], loca_b: &[u8], is_long: bool, w: &mut Walker) {
    use read_fonts::tables::gvar::Gvar;
    let Ok(gvar) = Gvar::read(FontData::new(gvar_b)) else { return };
    let n = gvar.glyph_count() as u32;
    let axes = gvar.axis_count() as usize;
    let sets = coord_sets(axes.min(70));
    let glyf = read_fonts::tables::glyf::Glyf::read(FontData::new(glyf_b)).ok();
    let loca = read_fonts::tables::loca::Loca::read(FontData::new(loca_b), is_long).ok();
    let mut with_data = 0;
    for g in dedup([(0..n.min(6)).collect(), gids(n)].concat()) {
        let gid = GlyphId::new(g);
        call(w, "Gvar::data_for_gid", g as u64, 0, 0);
        let d = gvar.data_for_gid(gid);
        call(w, "Gvar::glyph_variation_data", g as u64, 0, 0);
        let v = gvar.glyph_variation_data(gid);
        w.b(d.is_ok());
        w.b(v.is_ok());
        // both are documented to return Ok(None) "if there is no variation data for this glyph" (glyph_variation_data
        // reads the shared tuples first, so the comparison needs those to be readable)
        if gvar.shared_tuples().is_ok() {
            oracle("agree.Gvar-none");
        }
        if gvar.shared_tuples().is_ok() && matches!(d, Ok(None)) != matches!(v, Ok(None)) {
            disagree("Gvar::data_for_gid vs glyph_variation_data: Ok(None)", format!("glyph {g} of {n}"));
        }
        if let (Some(glyf), Some(loca)) = (&glyf, &loca) {
            for cs in &sets {
                call(w, "Gvar::phantom_point_deltas", g as u64, cs.len() as u64, 0);
                let key = |r: Result<Option<[read_fonts::types::Point<read_fonts::types::Fixed>; 4]>, read_fonts::ReadError>| r.ok().map(|o| o.map(|p| p.map(|q| (q.x.to_bits(), q.y.to_bits()))));
                let a = key(gvar.phantom_point_deltas(glyf, loca, cs, gid));
                w.b(a.is_some());
                if !cs.is_empty() && cs.len() < axes && axes <= 70 {
                    oracle("agree.coords-zero-padding");
                    let b = key(gvar.phantom_point_deltas(glyf, loca, &zero_padded(cs, axes), gid));
                    if a != b {
                        disagree("Gvar::phantom_point_deltas short coordinate slice vs zero-padded", format!("glyph {g}, {} of {axes} coords", cs.len()));
                    }
                }
            }
        }
        if let Ok(Some(vd)) = v {
            with_data += 1;
            if with_data > 4 {
                continue;
            }
            for tup in vd.tuples().take(6) {
                for cs in &sets {
                    call(w, "TupleVariation::compute_scalar", g as u64, cs.len() as u64, 0);
                    let a = tup.compute_scalar(cs).map(|f| f.to_bits());
                    call(w, "TupleVariation::compute_scalar_f32", g as u64, cs.len() as u64, 0);
                    let af = tup.compute_scalar_f32(cs).map(|f| f.to_bits());
                    w.opt_u(a.map(|v| v as u32 as u64));
                    if cs.len() < axes && axes <= 70 {
                        oracle("agree.Tuple::compute_scalar-padding");
                        // documented: "If it is less, missing (trailing) axes will be assumed to have zero values"
                        let p = zero_padded(cs, axes);
                        if a != tup.compute_scalar(&p).map(|f| f.to_bits()) || af != tup.compute_scalar_f32(&p).map(|f| f.to_bits()) {
                            disagree("TupleVariation::compute_scalar short coordinate slice vs zero-padded", format!("glyph {g}, {} of {axes} coords", cs.len()));
                        }
                    }
                }
            }
        }
    }
    let len = gvar_b.len();
    for a in idxs(len) {
        for b in idxs(len) {
            call(w, "Gvar::glyph_variation_data_for_range", a as u64, b as u64, 0);
            w.b(gvar.glyph_variation_data_for_range(a..b).is_ok());
        }
    }
}

fn cvar_group(data: &[u8], axis_count: u16, cvt_len: usize, w: &mut Walker) {
    let Ok(cvar) = read_fonts::tables::cvar::Cvar::read(FontData::new(data)) else { return };
    let out_lens = dedup(vec![0usize, 1, cvt_len.saturating_sub(1), cvt_len, cvt_len + 1, 65]);
    let big = out_lens.iter().copied().max().unwrap_or(0);
    for ac in u16s(axis_count) {
        call(w, "Cvar::variation_data", ac as u64, 0, 0);
        match cvar.variation_data(ac) {
            Ok(vd) => w.u(vd.tuples().take(4096).count() as u64),
            Err(e) => rerr(w, &e),
        }
        for cs in coord_sets(axis_count as usize) {
            let mut full = vec![0i32; big];
            call(w, "Cvar::deltas", ac as u64, cs.len() as u64, big as u64);
            let full_ok = cvar.deltas(ac, &cs, &mut full).is_ok();
            for v in full.iter().take(16) {
                w.h.i64(*v as i64);
            }
            for ol in &out_lens {
                let mut out = vec![0i32; *ol];
                call(w, "Cvar::deltas", ac as u64, cs.len() as u64, *ol as u64);
                let ok = cvar.deltas(ac, &cs, &mut out).is_ok();
                oracle("agree.Cvar::deltas-prefix");
                // every delta is accumulated at its own position and positions outside the slice are skipped
                // ("should have a length greater than or equal to the number of values"): a shorter slice sees a prefix
                if ok != full_ok || (ok && out[..] != full[..*ol]) {
                    disagree("Cvar::deltas into a shorter slice vs the prefix of a longer one", format!("axis_count {ac}, {} coords, lengths {ol} and {big}", cs.len()));
                }
            }
            if ac == axis_count && !cs.is_empty() && cs.len() < axis_count as usize {
                oracle("agree.coords-zero-padding");
                let mut padded = vec![0i32; big];
                let ok = cvar.deltas(ac, &zero_padded(&cs, axis_count as usize), &mut padded).is_ok();
                if ok != full_ok || padded != full {
                    disagree("Cvar::deltas short coordinate slice vs zero-padded", format!("{} of {axis_count} coords", cs.len()));
                }
            }
        }
    }
}

fn fvar_group(data: &[u8], avar_b: Option<&[u8]>, w: &mut Walker) {
    use read_fonts::types::Fixed;
    let Ok(fvar) = read_fonts::tables::fvar::Fvar::read(FontData::new(data)) else { return };
    let Ok(axes) = fvar.axes() else { return };
    let n = axes.len();
    let avar = avar_b.and_then(|b| read_fonts::tables::avar::Avar::read(FontData::new(b)).ok());
    let tags: Vec<Tag> = axes.iter().take(8).map(|a| a.axis_tag()).collect();
    for val in [i32::MIN, -0x10000, 0, 1, 400 << 16, i32::MAX - 1, i32::MAX] {
        let user: Vec<(Tag, Fixed)> = tags.iter().map(|t| (*t, Fixed::from_bits(val))).collect();
        let mut exact = vec![F2Dot14::default(); n];
        fvar.user_to_normalized(None, user.clone(), &mut exact);
        for len in dedup(vec![0usize, 1, n.saturating_sub(1), n, n + 1, 65]) {
            let mut out = vec![F2Dot14::from_bits(0x1234); len];
            call(w, "Fvar::user_to_normalized", len as u64, val as u32 as u64, 0);
            fvar.user_to_normalized(None, user.clone(), &mut out);
            oracle("agree.Fvar::user_to_normalized-length");
            // documented: "If the length is smaller, axes at out of bounds indices are ignored. If the length is
            // larger, the excess entries will be filled with zeros."
            let want: Vec<F2Dot14> = (0..len).map(|i| exact.get(i).copied().unwrap_or_default()).collect();
            if out != want {
                disagree("Fvar::user_to_normalized output length vs the exact-length result", format!("length {len} of {n} axes, value {val:#x}"));
            }
            if let Some(av) = &avar {
                let mut out = vec![F2Dot14::default(); len];
                call(w, "Fvar::user_to_normalized(avar)", len as u64, val as u32 as u64, 0);
                fvar.user_to_normalized(Some(av), user.clone(), &mut out);
                for o in out.iter().take(8) {
                    w.i(o.to_bits() as i64);
                }
            }
        }
    }
    if let Ok(inst) = fvar.instances() {
        for i in idxs(inst.len()) {
            call(w, "Fvar::instances().get", i as u64, 0, 0);
            let r = inst.get(i);
            if i >= inst.len() && r.is_ok() {
                disagree("Fvar::instances().get beyond len()", format!("index {i} of {}", inst.len()));
            }
            w.b(r.is_ok());
        }
    }
}

include!("extarg_tables2.rs");
