//! Typed drivers, part 3: CFF / CFF2 (INDEX, DICT, charset, FDSelect, charstring evaluation into a
//! null sink), bitmap location lookup (CBLC/EBLC + CBDT/EBDT), VARC, IFT, COLR, small tables.

use crate::drivers::{coords_set, gid_boundaries, rerr, report_overrun};
use crate::walker::Walker;
use read_fonts::tables::postscript::{charstring, dict, Index, Index1, Index2, StringId};
use read_fonts::types::{Fixed, GlyphId, GlyphId16};
use read_fonts::{FontData, FontRead, FontReadWithArgs};

fn pserr(w: &mut Walker, e: &read_fonts::tables::postscript::Error) {
    w.tagb(0);
    // hash the Display form's discriminating prefix cheaply: Debug of the variant
    let s = format!("{e:?}");
    w.s(&s);
    w.calls += 1;
}

struct NullSink {
    h: vcore::Fnv,
    n: u64,
}
impl charstring::CommandSink for NullSink {
    fn move_to(&mut self, x: Fixed, y: Fixed) {
        self.n += 1;
        self.h.i64(((x.to_bits() as i64) << 32) ^ y.to_bits() as i64 ^ 1);
    }
    fn line_to(&mut self, x: Fixed, y: Fixed) {
        self.n += 1;
        self.h.i64(((x.to_bits() as i64) << 32) ^ y.to_bits() as i64 ^ 2);
    }
    fn curve_to(&mut self, a: Fixed, b: Fixed, c: Fixed, d: Fixed, x: Fixed, y: Fixed) {
        self.n += 1;
        for v in [a, b, c, d, x, y] {
            self.h.i64(v.to_bits() as i64);
        }
    }
    fn close(&mut self) {
        self.n += 1;
        self.h.byte(9);
    }
    fn hstem(&mut self, y: Fixed, dy: Fixed) {
        self.h.i64(((y.to_bits() as i64) << 32) ^ dy.to_bits() as i64 ^ 3);
    }
    fn vstem(&mut self, x: Fixed, dx: Fixed) {
        self.h.i64(((x.to_bits() as i64) << 32) ^ dx.to_bits() as i64 ^ 4);
    }
    fn hint_mask(&mut self, mask: &[u8]) {
        self.h.bytes(mask);
    }
    fn counter_mask(&mut self, mask: &[u8]) {
        self.h.bytes(mask);
    }
}

fn index_obs(ix: &Index, w: &mut Walker) {
    let n = ix.count();
    w.u(n as u64);
    w.i(ix.subr_bias() as i64);
    w.u(ix.off_size() as u64);
    match ix.size_in_bytes() {
        Ok(v) => w.u(v as u64),
        Err(e) => rerr(w, &e),
    }
    for i in (0..n.min(48)).chain([n.wrapping_sub(1), n, n.wrapping_add(1), u32::MAX]) {
        match ix.get_offset(i as usize) {
            Ok(v) => w.u(v as u64),
            Err(e) => pserr(w, &e),
        }
        match ix.get(i as usize) {
            Ok(v) => w.u(v.len() as u64),
            Err(e) => pserr(w, &e),
        }
    }
}

#[derive(Default)]
struct DictInfo {
    charstrings: Option<usize>,
    private: Vec<std::ops::Range<usize>>,
    fd_array: Option<usize>,
    fd_select: Option<usize>,
    subrs: Option<usize>,
    vstore: Option<usize>,
}

fn dict_obs(d: &[u8], blend: Option<read_fonts::tables::postscript::BlendState>, info: &mut DictInfo, w: &mut Walker) {
    let mut n = 0u64;
    for t in dict::tokens(d) {
        n += 1;
        if n > d.len() as u64 + 2 {
            report_overrun("dict::tokens yields more tokens than the DICT has bytes", n);
            break;
        }
        match t {
            Ok(dict::Token::Operator(op)) => w.h.u64(op as u64),
            Ok(dict::Token::Operand(_)) => w.h.byte(1),
            Err(e) => {
                pserr(w, &e);
                break;
            }
        }
    }
    w.calls += n;
    let mut n = 0u64;
    for e in dict::entries(d, blend) {
        n += 1;
        if n > d.len() as u64 + 2 {
            report_overrun("dict::entries yields more entries than the DICT has bytes", n);
            break;
        }
        match e {
            Ok(e) => {
                use dict::Entry as E;
                match &e {
                    E::CharstringsOffset(o) => info.charstrings = Some(*o),
                    E::PrivateDictRange(r) => info.private.push(r.clone()),
                    E::FdArrayOffset(o) => info.fd_array = Some(*o),
                    E::FdSelectOffset(o) => info.fd_select = Some(*o),
                    E::SubrsOffset(o) => info.subrs = Some(*o),
                    E::VariationStoreOffset(o) => info.vstore = Some(*o),
                    _ => {}
                }
                let s = format!("{e:?}");
                w.s(&s);
            }
            Err(e) => {
                pserr(w, &e);
                break;
            }
        }
    }
    w.calls += n;
    w.nodes += n;
}

const MAX_CHARSTRINGS: u32 = 96;

fn charstrings_obs(
    data: &[u8],
    info: &DictInfo,
    privs: &[(std::ops::Range<usize>, Option<usize>)],
    global: Index,
    is_cff2: bool,
    vstore: Option<read_fonts::tables::variations::ItemVariationStore>,
    w: &mut Walker,
) {
    let Some(cs_off) = info.charstrings else { return w.tagb(0) };
    let Some(cs_data) = data.get(cs_off..) else { return w.tagb(0) };
    let cs = match Index::new(cs_data, is_cff2) {
        Ok(i) => i,
        Err(e) => return pserr(w, &e),
    };
    index_obs(&cs, w);
    // local subrs of the first private dict that has them
    let subrs: Option<Index> = privs.iter().find_map(|(r, so)| {
        let so = (*so)?;
        let start = r.start.checked_add(so)?;
        Index::new(data.get(start..)?, is_cff2).ok()
    });
    if let Some(s) = &subrs {
        index_obs(s, w);
    }
    let coords = coords_set();
    let n = cs.count();
    for gid in (0..n.min(MAX_CHARSTRINGS)).chain([n.wrapping_sub(1)]) {
        if !w.step() {
            break;
        }
        let Ok(code) = cs.get(gid as usize) else { continue };
        for (ci, c) in coords.iter().enumerate() {
            if ci > 0 && vstore.is_none() {
                break;
            }
            let blend = match &vstore {
                Some(vs) => match read_fonts::tables::postscript::BlendState::new(vs.clone(), c, 0) {
                    Ok(b) => Some(b),
                    Err(e) => {
                        pserr(w, &e);
                        None
                    }
                },
                None => None,
            };
            let mut sink = NullSink { h: vcore::Fnv::new(), n: 0 };
            let r = charstring::evaluate(code, global.clone(), subrs.clone(), blend, &mut sink);
            w.calls += 1 + sink.n;
            w.nodes += sink.n;
            w.u(sink.h.finish());
            match r {
                Ok(()) => w.tagb(1),
                Err(e) => pserr(w, &e),
            }
        }
    }
}

pub fn cff_driver(data: &[u8], _ctx: &[Vec<u8>], _a: [u32; 3], w: &mut Walker) {
    use read_fonts::tables::cff::Cff;
    let cff = match Cff::read(FontData::new(data)) {
        Ok(c) => c,
        Err(e) => return rerr(w, &e),
    };
    w.table(&cff.header(), 1);
    let names: Index = cff.names().into();
    index_obs(&names, w);
    let strings: Index = cff.strings().into();
    index_obs(&strings, w);
    let global: Index = cff.global_subrs().into();
    index_obs(&global, w);
    let tops: Index = cff.top_dicts().into();
    index_obs(&tops, w);
    for i in [0usize, 1, 2, usize::MAX] {
        match cff.name(i) {
            Some(s) => w.u(s.chars().count() as u64),
            None => w.tagb(0),
        }
    }
    for sid in [0i32, 1, 390, 391, 392, 1000, 65535] {
        let sid = StringId::from(sid);
        match sid.standard_string() {
            Ok(s) => w.u(s.bytes().len() as u64),
            Err(i) => w.u(i as u64),
        }
        match cff.string(sid) {
            Some(s) => w.u(s.bytes().len() as u64),
            None => w.tagb(0),
        }
    }
    for ti in 0..(tops.count().min(2) as usize) {
        let Ok(top) = tops.get(ti) else { continue };
        let mut info = DictInfo::default();
        dict_obs(top, None, &mut info, w);
        match cff.charset(ti) {
            Ok(Some(cs)) => {
                let n = cs.num_glyphs();
                w.u(n as u64);
                for g in (0..n.min(64)).chain(gid_boundaries(n)) {
                    match cs.string_id(GlyphId::new(g)) {
                        Ok(s) => w.u(s.to_u16() as u64),
                        Err(e) => rerr(w, &e),
                    }
                }
                let mut k = 0u64;
                for (g, s) in cs.iter() {
                    k += 1;
                    w.h.u64(((g.to_u32() as u64) << 16) | s.to_u16() as u64);
                    if k > n as u64 + 1 || k > 70_000 {
                        if k > n as u64 + 1 {
                            report_overrun("Charset::iter yields more entries than num_glyphs", k);
                        }
                        break;
                    }
                }
                w.calls += k;
                w.nodes += k;
                w.u(k);
            }
            Ok(None) => w.tagb(2),
            Err(e) => pserr(w, &e),
        }
        // private dicts: from the top dict and from every font dict of the FDArray
        let mut privs: Vec<(std::ops::Range<usize>, Option<usize>)> = vec![];
        let mut ranges = info.private.clone();
        if let Some(fa) = info.fd_array {
            if let Some(Ok(fd_ix)) = data.get(fa..).map(|d| Index::new(d, false)) {
                index_obs(&fd_ix, w);
                for i in 0..fd_ix.count().min(8) {
                    if let Ok(fd) = fd_ix.get(i as usize) {
                        let mut fi = DictInfo::default();
                        dict_obs(fd, None, &mut fi, w);
                        ranges.extend(fi.private);
                    }
                }
            }
        }
        for r in ranges.iter().take(8) {
            match data.get(r.clone()) {
                Some(p) => {
                    let mut pi = DictInfo::default();
                    dict_obs(p, None, &mut pi, w);
                    privs.push((r.clone(), pi.subrs));
                }
                None => w.tagb(0),
            }
        }
        if let Some(fs) = info.fd_select {
            if let Some(d) = data.get(fs..) {
                match read_fonts::tables::postscript::FdSelect::read(FontData::new(d)) {
                    Ok(sel) => {
                        for g in (0..64).chain(gid_boundaries(64)) {
                            w.opt_u(sel.font_index(GlyphId::new(g)).map(|v| v as u64));
                        }
                    }
                    Err(e) => rerr(w, &e),
                }
            }
        }
        charstrings_obs(data, &info, &privs, global.clone(), false, None, w);
    }
}

pub fn cff2_driver(data: &[u8], _ctx: &[Vec<u8>], _a: [u32; 3], w: &mut Walker) {
    use read_fonts::tables::cff2::Cff2;
    let cff = match Cff2::read(FontData::new(data)) {
        Ok(c) => c,
        Err(e) => return rerr(w, &e),
    };
    w.table(cff.header(), 1);
    let global: Index = cff.global_subrs().into();
    index_obs(&global, w);
    let mut info = DictInfo::default();
    dict_obs(cff.top_dict_data(), None, &mut info, w);
    let vstore = info.vstore.and_then(|o| {
        // the store is preceded by a 2-byte length
        let d = data.get(o.checked_add(2)?..)?;
        read_fonts::tables::variations::ItemVariationStore::read(FontData::new(d)).ok()
    });
    if let Some(vs) = &vstore {
        crate::drivers2::ivs_obs(vs, w);
    }
    let coords = coords_set();
    let mut privs: Vec<(std::ops::Range<usize>, Option<usize>)> = vec![];
    if let Some(fa) = info.fd_array {
        if let Some(Ok(fd_ix)) = data.get(fa..).map(|d| Index::new(d, true)) {
            index_obs(&fd_ix, w);
            for i in 0..fd_ix.count().min(8) {
                if let Ok(fd) = fd_ix.get(i as usize) {
                    let mut fi = DictInfo::default();
                    dict_obs(fd, None, &mut fi, w);
                    for r in fi.private.iter().take(2) {
                        if let Some(p) = data.get(r.clone()) {
                            let mut pi = DictInfo::default();
                            for c in coords.iter().take(3) {
                                let blend = vstore.as_ref().and_then(|vs| {
                                    read_fonts::tables::postscript::BlendState::new(vs.clone(), c, 0).ok()
                                });
                                pi = DictInfo::default();
                                dict_obs(p, blend, &mut pi, w);
                            }
                            privs.push((r.clone(), pi.subrs));
                        }
                    }
                }
            }
        }
    }
    if let Some(fs) = info.fd_select {
        if let Some(d) = data.get(fs..) {
            match read_fonts::tables::postscript::FdSelect::read(FontData::new(d)) {
                Ok(sel) => {
                    for g in (0..64).chain(gid_boundaries(64)) {
                        w.opt_u(sel.font_index(GlyphId::new(g)).map(|v| v as u64));
                    }
                }
                Err(e) => rerr(w, &e),
            }
        }
    }
    charstrings_obs(data, &info, &privs, global.clone(), true, vstore, w);
}

/// Sub-blobs of a CFF table for the seed list: (charstrings, dict blobs). Uses the code under test
/// (only called in the seed-construction child).
pub fn cff_sub_blobs(data: &[u8], max: usize) -> (Vec<Vec<u8>>, Vec<Vec<u8>>) {
    let mut cs_out = vec![];
    let mut dicts = vec![];
    let Ok(cff) = read_fonts::tables::cff::Cff::read(FontData::new(data)) else { return (cs_out, dicts) };
    let tops: Index = cff.top_dicts().into();
    let Ok(top) = tops.get(0) else { return (cs_out, dicts) };
    dicts.push(top.to_vec());
    let mut cs_off = None;
    for e in dict::entries(top, None).flatten() {
        match e {
            dict::Entry::CharstringsOffset(o) => cs_off = Some(o),
            dict::Entry::PrivateDictRange(r) => {
                if let Some(p) = data.get(r) {
                    dicts.push(p.to_vec())
                }
            }
            _ => {}
        }
    }
    if let Some(Ok(ix)) = cs_off.and_then(|o| data.get(o..)).map(|d| Index::new(d, false)) {
        for i in 0..(ix.count() as usize).min(max) {
            if let Ok(c) = ix.get(i) {
                if !c.is_empty() {
                    cs_out.push(c.to_vec());
                }
            }
        }
    }
    (cs_out, dicts)
}

/// a[2]: 0 = bare Index1, 1 = bare Index2, 2 = DICT bytes, 3 = charstring bytes (no subrs)
pub fn ps_blob_driver(data: &[u8], _ctx: &[Vec<u8>], a: [u32; 3], w: &mut Walker) {
    match a[2] {
        0 => match Index1::read(FontData::new(data)) {
            Ok(i) => index_obs(&i.into(), w),
            Err(e) => rerr(w, &e),
        },
        1 => match Index2::read(FontData::new(data)) {
            Ok(i) => index_obs(&i.into(), w),
            Err(e) => rerr(w, &e),
        },
        2 => {
            let mut info = DictInfo::default();
            dict_obs(data, None, &mut info, w)
        }
        _ => {
            let mut sink = NullSink { h: vcore::Fnv::new(), n: 0 };
            let r = charstring::evaluate(data, Index::default(), None, None, &mut sink);
            w.calls += 4 * sink.n; // every emitted path command is an observation
            w.nodes += sink.n;
            w.u(sink.h.finish());
            match r {
                Ok(()) => w.tagb(1),
                Err(e) => pserr(w, &e),
            }
        }
    }
}

// ------------------------------------------------------------------------------------------
// bitmaps: data = CBLC/EBLC, ctx[0] = CBDT/EBDT; a[2]: 0 = CBLC is data, 1 = EBLC is data,
// 2 = CBDT is data (ctx[0] = CBLC), 3 = EBDT is data (ctx[0] = EBLC)
// ------------------------------------------------------------------------------------------

pub fn bitmap_driver(data: &[u8], ctx: &[Vec<u8>], a: [u32; 3], w: &mut Walker) {
    use read_fonts::tables::bitmap::{BitmapContent, BitmapLocation, BitmapSize};
    use read_fonts::tables::{cbdt::Cbdt, cblc::Cblc, ebdt::Ebdt, eblc::Eblc};
    let empty: Vec<u8> = vec![];
    let other = ctx.first().unwrap_or(&empty);
    let (loc_b, dat_b): (&[u8], &[u8]) = if a[2] >= 2 { (other, data) } else { (data, other) };
    let color = a[2] == 0 || a[2] == 2;
    let lfd = FontData::new(loc_b);
    let (sizes, offset_data): (&[BitmapSize], FontData) = if color {
        match Cblc::read(lfd) {
            Ok(t) => (t.bitmap_sizes(), t.offset_data()),
            Err(e) => return rerr(w, &e),
        }
    } else {
        match Eblc::read(lfd) {
            Ok(t) => (t.bitmap_sizes(), t.offset_data()),
            Err(e) => return rerr(w, &e),
        }
    };
    let cbdt = Cbdt::read(FontData::new(dat_b)).ok();
    let ebdt = Ebdt::read(FontData::new(dat_b)).ok();
    let data_of = |loc: &BitmapLocation, w: &mut Walker| {
        let r = if color { cbdt.as_ref().map(|t| t.data(loc)) } else { ebdt.as_ref().map(|t| t.data(loc)) };
        match r {
            Some(Ok(d)) => {
                w.tagb(1);
                match &d.metrics {
                    read_fonts::tables::bitmap::BitmapMetrics::Small(m) => {
                        w.u(((m.height() as u64) << 8) | m.width() as u64);
                        w.i(((m.bearing_x() as i64) << 16) ^ ((m.bearing_y() as i64) << 8) ^ m.advance() as i64);
                    }
                    read_fonts::tables::bitmap::BitmapMetrics::Big(m) => {
                        w.u(((m.height() as u64) << 8) | m.width() as u64);
                        w.i(((m.hori_bearing_x() as i64) << 24) ^ ((m.hori_bearing_y() as i64) << 16) ^ ((m.vert_bearing_x() as i64) << 8) ^ m.vert_bearing_y() as i64);
                        w.u(((m.hori_advance() as u64) << 8) | m.vert_advance() as u64);
                    }
                }
                match d.content {
                    BitmapContent::Data(fmt, bytes) => {
                        w.u(fmt as u64);
                        w.u(bytes.len() as u64)
                    }
                    BitmapContent::Composite(comps) => w.u(comps.len() as u64),
                }
            }
            Some(Err(e)) => rerr(w, &e),
            None => w.tagb(2),
        }
        w.calls += 1;
    };
    w.u(sizes.len() as u64);
    for (si, size) in sizes.iter().enumerate() {
        if si >= 64 || !w.step() {
            break;
        }
        let s = size.start_glyph_index().to_u32();
        let e = size.end_glyph_index().to_u32();
        let mut gids: Vec<u32> = (s..=e.min(s.saturating_add(1024))).collect();
        gids.extend(gid_boundaries(s));
        gids.extend(gid_boundaries(e));
        for g in gids {
            if !w.step() {
                break;
            }
            match size.location(offset_data, GlyphId::new(g)) {
                Ok(loc) => {
                    w.u(loc.format as u64);
                    w.u(loc.data_offset as u64);
                    w.u(loc.data_size as u64);
                    w.b(loc.is_empty());
                    w.b(loc.metrics.is_some());
                    data_of(&loc, w);
                }
                Err(e) => rerr(w, &e),
            }
        }
        match size.index_subtable_list(offset_data) {
            Ok(l) => w.u(l.index_subtable_records().len() as u64),
            Err(e) => rerr(w, &e),
        }
    }
    // hostile locations against the data table
    // (offsets and sizes stay within what `location()` can produce from 32-bit font fields)
    for (fmt, off, sz) in [(1u16, 0usize, 0usize), (17, 4, u32::MAX as usize), (5, 2 * (u32::MAX as usize), 1), (19, 0, 8), (8, 4, 64), (9, 4, 64), (0xFFFF, 0, 0)] {
        let loc = BitmapLocation { format: fmt, data_offset: off, data_size: sz, bit_depth: 1, metrics: None };
        data_of(&loc, w);
    }
}

// ------------------------------------------------------------------------------------------
// VARC / IFT / COLR / small tables
// ------------------------------------------------------------------------------------------

pub fn varc_driver(data: &[u8], _ctx: &[Vec<u8>], _a: [u32; 3], w: &mut Walker) {
    use read_fonts::tables::varc::Varc;
    let varc = match Varc::read(FontData::new(data)) {
        Ok(v) => v,
        Err(e) => return rerr(w, &e),
    };
    match varc.coverage() {
        Ok(c) => crate::drivers2::coverage_obs(&c, w),
        Err(e) => rerr(w, &e),
    }
    for i in [0usize, 1, 2, 3, 255, usize::MAX] {
        match varc.axis_indices(i) {
            Ok(p) => {
                let mut k = 0u64;
                for d in p.iter() {
                    k += 1;
                    w.h.i64(d as i64);
                    if k > 128 * data.len() as u64 + 16 {
                        report_overrun("PackedDeltas::iter yields more than 128 items per input byte", k);
                        break;
                    }
                }
                w.calls += k;
                w.u(k);
            }
            Err(e) => rerr(w, &e),
        }
    }
    for i in (0..16usize).chain([255, usize::MAX]) {
        if !w.step() {
            break;
        }
        match varc.glyph(i) {
            Ok(g) => {
                let mut k = 0u64;
                for c in g.components() {
                    k += 1;
                    if k > data.len() as u64 + 2 {
                        report_overrun("VarcGlyph::components yields more components than the table has bytes", k);
                        break;
                    }
                    match c {
                        Ok(_c) => w.tagb(1), // VarcComponent has no public accessors
                        Err(e) => {
                            rerr(w, &e);
                            break;
                        }
                    }
                }
                w.u(k);
            }
            Err(e) => rerr(w, &e),
        }
    }
    if let Some(Ok(mvs)) = varc.multi_var_store() {
        match mvs.region_list() {
            Ok(r) => w.u(r.regions().len() as u64),
            Err(e) => rerr(w, &e),
        }
        for d in mvs.variation_data().iter().take(8) {
            match d {
                Ok(d) => {
                    match d.delta_sets() {
                        Ok(ix) => w.u(ix.count() as u64),
                        Err(e) => rerr(w, &e),
                    }
                    for i in [0usize, 1, usize::MAX] {
                        match d.delta_set(i) {
                            Ok(p) => w.u(p.iter().take(70_000).count() as u64),
                            Err(e) => rerr(w, &e),
                        }
                    }
                }
                Err(e) => rerr(w, &e),
            }
        }
    }
}

/// a[2]: 0 = `IFT `/`IFTX` mapping table, 1 = glyph-keyed patch header bytes (GlyphPatches with a[0] flags)
pub fn ift_driver(data: &[u8], _ctx: &[Vec<u8>], a: [u32; 3], w: &mut Walker) {
    use read_fonts::tables::ift::{GlyphKeyedFlags, GlyphPatches, Ift};
    if a[2] == 1 {
        match GlyphPatches::read_with_args(FontData::new(data), &GlyphKeyedFlags::from_bits_truncate(a[0] as u8)) {
            Ok(p) => {
                let tc = p.table_count() as usize;
                for ti in (0..tc.min(4)).chain([tc, 255]) {
                    let mut k = 0u64;
                    for r in p.glyph_data_for_table(ti) {
                        k += 1;
                        if k > data.len() as u64 + 2 {
                            report_overrun("GlyphPatches::glyph_data_for_table yields more items than the patch has bytes", k);
                            break;
                        }
                        match r {
                            Ok((g, d)) => {
                                w.u(g.to_u32() as u64);
                                w.u(d.len() as u64)
                            }
                            Err(e) => rerr(w, &e),
                        }
                    }
                    w.u(k);
                }
            }
            Err(e) => rerr(w, &e),
        }
        return;
    }
    match Ift::read(FontData::new(data)) {
        Ok(Ift::Format1(t)) => {
            w.tagb(1);
            w.u(t.entry_count() as u64);
            match t.uri_template_as_string() {
                Ok(s) => w.s(s),
                Err(e) => rerr(w, &e),
            }
            for i in [0u16, 1, 7, 8, 9, 255, 0xFFFF] {
                w.b(t.is_entry_applied(i));
            }
            let mut k = 0u64;
            let gc = t.glyph_count().to_u32() as u64;
            for (g, e) in t.gid_to_entry_iter() {
                k += 1;
                w.h.u64(((g.to_u32() as u64) << 16) | e as u64);
                if k > gc + 1 {
                    report_overrun("PatchMapFormat1::gid_to_entry_iter yields more items than glyph_count", k);
                    break;
                }
                if k & 0xFFF == 0 && !w.step() {
                    break;
                }
            }
            w.calls += k;
            w.nodes += k;
            w.u(k);
            if let Some(Ok(fm)) = t.feature_map() {
                for mi in [0u16, 1, 255, 256, 0xFFFF] {
                    match fm.entry_records_size(mi) {
                        Ok(v) => w.u(v as u64),
                        Err(e) => rerr(w, &e),
                    }
                }
            }
        }
        Ok(Ift::Format2(t)) => {
            w.tagb(2);
            match t.uri_template_as_string() {
                Ok(s) => w.s(s),
                Err(e) => rerr(w, &e),
            }
        }
        Err(e) => rerr(w, &e),
    }
}

pub fn colr_driver(data: &[u8], _ctx: &[Vec<u8>], _a: [u32; 3], w: &mut Walker) {
    use read_fonts::tables::colr::Colr;
    let colr = match Colr::read(FontData::new(data)) {
        Ok(c) => c,
        Err(e) => return rerr(w, &e),
    };
    let nb = colr.num_base_glyph_records() as u32;
    for g in (0..32u32).chain(gid_boundaries(nb)) {
        if !w.step() {
            break;
        }
        let gid = GlyphId::new(g);
        match colr.v0_base_glyph(gid) {
            Ok(Some(r)) => {
                w.u(r.start as u64);
                w.u(r.end as u64);
                for i in r.clone().take(16).chain([r.end, usize::MAX]) {
                    match colr.v0_layer(i) {
                        Ok((g, p)) => w.u(((g.to_u16() as u64) << 16) | p as u64),
                        Err(e) => rerr(w, &e),
                    }
                }
            }
            Ok(None) => w.tagb(2),
            Err(e) => rerr(w, &e),
        }
        match colr.v1_base_glyph(gid) {
            // the PaintId is documented as an address-derived opaque token for recursion detection:
            // it is deliberately NOT part of the observation digest
            Ok(Some((_p, _id))) => w.tagb(1),
            Ok(None) => w.tagb(2),
            Err(e) => rerr(w, &e),
        }
        match colr.v1_clip_box(gid) {
            Ok(Some(_)) => w.tagb(1),
            Ok(None) => w.tagb(2),
            Err(e) => rerr(w, &e),
        }
    }
    // closures (subsetting helpers in read-fonts): v1 closure over three glyph sets, then the v0 closures
    {
        use read_fonts::collections::IntSet;
        for set in [vec![], (0u32..8).collect::<Vec<_>>(), vec![0u32, 1, 0xFFFE, 0xFFFF]] {
            let mut glyphs = IntSet::<GlyphId>::new();
            for g in set {
                glyphs.insert(GlyphId::new(g));
            }
            let (mut layers, mut palettes, mut vars) = (IntSet::<u32>::new(), IntSet::<u16>::new(), IntSet::<u32>::new());
            colr.v1_closure(&mut glyphs, &mut layers, &mut palettes, &mut vars);
            w.u(glyphs.len());
            w.u(layers.len());
            w.u(palettes.len());
            w.u(vars.len());
            w.opt_u(vars.first().map(|v| v as u64));
            w.opt_u(vars.last().map(|v| v as u64));
            let mut v0 = IntSet::<GlyphId>::new();
            colr.v0_closure_glyphs(&glyphs, &mut v0);
            w.u(v0.len());
            colr.v0_closure_palette_indices(&v0, &mut palettes);
            w.u(palettes.len());
            w.calls += 3;
        }
    }
    for i in (0..16usize).chain([255, usize::MAX]) {
        match colr.v1_layer(i) {
            Ok((_p, _id)) => w.tagb(1),
            Err(e) => rerr(w, &e),
        }
    }
}

/// small tables with a few hand-written helpers; a[2] = table tag
pub fn misc_driver(data: &[u8], _ctx: &[Vec<u8>], a: [u32; 3], w: &mut Walker) {
    let fd = FontData::new(data);
    match &a[2].to_be_bytes() {
        b"SVG " => {
            if let Ok(t) = read_fonts::tables::svg::Svg::read(fd) {
                for g in (0..16u32).chain(gid_boundaries(16)) {
                    match t.glyph_data(GlyphId::new(g)) {
                        Ok(Some(d)) => w.u(d.len() as u64),
                        Ok(None) => w.tagb(2),
                        Err(e) => rerr(w, &e),
                    }
                }
            }
        }
        b"STAT" => {
            if let Ok(t) = read_fonts::tables::stat::Stat::read(fd) {
                if let Some(Ok(arr)) = t.offset_to_axis_values() {
                    for v in arr.axis_values().iter().take(64) {
                        match v {
                            Ok(v) => {
                                w.opt_u(v.value().map(|f| f.to_bits() as u32 as u64));
                                w.opt_u(v.linked_value().map(|f| f.to_bits() as u32 as u64));
                                w.opt_u(v.axis_index().map(|f| f as u64));
                            }
                            Err(e) => rerr(w, &e),
                        }
                    }
                }
            }
        }
        b"feat" => {
            if let Ok(t) = read_fonts::tables::feat::Feat::read(fd) {
                for f in [0u16, 1, 2, 3, 0x7FFF, 0xFFFF] {
                    match t.find(f) {
                        Some(n) => {
                            w.b(n.is_exclusive());
                            w.u(n.default_setting_index() as u64);
                        }
                        None => w.tagb(0),
                    }
                }
            }
        }
        b"ankr" => {
            if let Ok(t) = read_fonts::tables::ankr::Ankr::read(fd) {
                for g in (0..16u32).chain(gid_boundaries(16)) {
                    match t.anchor_points(GlyphId::new(g)) {
                        Ok(p) => w.u(p.len() as u64),
                        Err(e) => rerr(w, &e),
                    }
                }
            }
        }
        b"ltag" => {
            if let Ok(t) = read_fonts::tables::ltag::Ltag::read(fd) {
                let mut k = 0u64;
                for (i, s) in t.tag_indices().take(4096) {
                    k += 1;
                    w.h.u64(i as u64);
                    w.s(s);
                }
                w.u(k);
                w.opt_u(t.index_for_tag("en").map(|v| v as u64));
            }
        }
        b"meta" => {
            if let Ok(t) = read_fonts::tables::meta::Meta::read(fd) {
                for m in t.data_maps().iter().take(32) {
                    match m.data(t.offset_data()) {
                        Ok(read_fonts::tables::meta::Metadata::ScriptLangTags(tags)) => {
                            crate::drivers::varlen_obs(
                                "VarLenArray<ScriptLangTag>::get vs iter",
                                &tags,
                                |r| r.as_ref().map(|s| s.as_str().to_string()).map_err(|e| format!("{e:?}")),
                                w,
                            );
                            let mut k = 0u64;
                            for s in tags.iter().take(4096) {
                                k += 1;
                                match s {
                                    Ok(s) => w.s(s.as_str()),
                                    Err(e) => rerr(w, &e),
                                }
                            }
                            w.u(k);
                        }
                        Ok(read_fonts::tables::meta::Metadata::Other(b)) => w.u(b.len() as u64),
                        Err(e) => rerr(w, &e),
                    }
                }
            }
        }
        _ => w.tagb(0xFF),
    }
    let _ = GlyphId16::new(0);
}
