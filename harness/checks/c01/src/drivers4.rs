//! Typed drivers, part 4 (round 2): deep layout access (devices, anchors of every format, mark / base /
//! ligature / mark2 arrays with their read arguments, pair sets and class records, feature parameters,
//! feature variations and condition sets, GDEF attach points and ligature carets), gvar phantom-point
//! and delta accumulation helpers, aat lookups and state tables, raw `cvt `.

use crate::drivers::{coords_set, gid_boundaries, rerr};
use crate::walker::Walker;
use read_fonts::tables::gpos::{AnchorTable, DeviceOrVariationIndex, ValueRecord};
use read_fonts::tables::layout::{Condition, FeatureList, FeatureParams, FeatureVariations};
use read_fonts::types::{BigEndian, Fixed, GlyphId, GlyphId16, Point};
use read_fonts::{FontData, FontRead, ReadError};

const MAX_RECORDS: usize = 24;

pub fn device_obs(d: &Result<DeviceOrVariationIndex, ReadError>, w: &mut Walker) {
    match d {
        Ok(DeviceOrVariationIndex::Device(dev)) => {
            w.tagb(1);
            w.u(dev.start_size() as u64);
            w.u(dev.end_size() as u64);
            w.u(dev.delta_format() as u64);
            // at most 8 values per delta word
            let lim = 8 * dev.delta_value().len() as u64 + 8;
            let mut n = 0u64;
            for v in dev.iter() {
                n += 1;
                w.h.i64(v as i64);
                if n > lim {
                    crate::drivers::report_overrun("Device::iter yields more than 8 values per delta word", n);
                    break;
                }
            }
            w.calls += n;
            w.nodes += n;
            w.u(n);
        }
        Ok(DeviceOrVariationIndex::VariationIndex(v)) => {
            w.tagb(2);
            w.u(v.delta_set_outer_index() as u64);
            w.u(v.delta_set_inner_index() as u64);
            let idx: read_fonts::tables::variations::DeltaSetIndex = v.clone().into();
            w.u(((idx.outer as u64) << 16) | idx.inner as u64);
        }
        Err(e) => rerr(w, e),
    }
}

pub fn anchor_obs(a: &Result<AnchorTable, ReadError>, w: &mut Walker) {
    match a {
        Ok(a) => {
            w.u(a.anchor_format() as u64);
            w.i(a.x_coordinate() as i64);
            w.i(a.y_coordinate() as i64);
            match a {
                AnchorTable::Format1(_) => w.tagb(1),
                AnchorTable::Format2(f) => w.u(f.anchor_point() as u64),
                AnchorTable::Format3(f) => {
                    w.u(f.x_device_offset().offset().to_u32() as u64);
                    w.u(f.y_device_offset().offset().to_u32() as u64);
                }
            }
            for d in [a.x_device(), a.y_device()] {
                match d {
                    Some(d) => device_obs(&d, w),
                    None => w.tagb(0),
                }
            }
        }
        Err(e) => rerr(w, e),
    }
}

fn value_record_deep(v: &ValueRecord, data: FontData, w: &mut Walker) {
    for x in [v.x_placement(), v.y_placement(), v.x_advance(), v.y_advance()] {
        w.opt_u(x.map(|v| v as u16 as u64));
    }
    for d in [
        v.x_placement_device(data),
        v.y_placement_device(data),
        v.x_advance_device(data),
        v.y_advance_device(data),
    ] {
        match d {
            Some(d) => device_obs(&d, w),
            None => w.tagb(0),
        }
    }
}

fn feature_list_obs(fl: &FeatureList, w: &mut Walker) {
    let recs = fl.feature_records();
    w.u(recs.len() as u64);
    for rec in recs.iter().take(64) {
        if !w.step() {
            break;
        }
        w.h.bytes(&rec.feature_tag().to_be_bytes());
        match rec.feature(fl.offset_data()) {
            Ok(f) => {
                w.u(f.lookup_index_count() as u64);
                match f.feature_params() {
                    Some(Ok(FeatureParams::Size(s))) => {
                        w.tagb(1);
                        w.u(s.design_size() as u64);
                        w.u(s.identifier() as u64);
                        w.u(s.name_entry() as u64);
                        w.u(s.range_start() as u64);
                        w.u(s.range_end() as u64);
                    }
                    Some(Ok(FeatureParams::StylisticSet(s))) => {
                        w.tagb(2);
                        w.u(s.version() as u64);
                        w.u(s.ui_name_id().to_u16() as u64);
                    }
                    Some(Ok(FeatureParams::CharacterVariant(c))) => {
                        w.tagb(3);
                        w.u(c.format() as u64);
                        w.u(c.feat_ui_label_name_id().to_u16() as u64);
                        w.u(c.num_named_parameters() as u64);
                        w.u(c.char_count() as u64);
                        for ch in c.character().iter().take(64) {
                            w.h.u64(ch.get().to_u32() as u64);
                        }
                    }
                    Some(Err(e)) => rerr(w, &e),
                    None => w.tagb(0),
                }
            }
            Err(e) => rerr(w, &e),
        }
    }
}

fn condition_obs(c: &Result<Condition, ReadError>, w: &mut Walker, depth: u32) {
    match c {
        Ok(Condition::Format1AxisRange(c)) => {
            w.tagb(1);
            w.u(c.axis_index() as u64);
            w.i(c.filter_range_min_value().to_bits() as i64);
            w.i(c.filter_range_max_value().to_bits() as i64);
        }
        Ok(Condition::Format2VariableValue(c)) => {
            w.tagb(2);
            w.i(c.default_value() as i64);
            w.u(c.var_index() as u64);
        }
        Ok(Condition::Format3And(c)) => {
            w.tagb(3);
            if depth < 4 {
                for s in c.conditions().iter().take(8) {
                    if !w.step() {
                        break;
                    }
                    condition_obs(&s, w, depth + 1);
                }
            }
        }
        Ok(Condition::Format4Or(c)) => {
            w.tagb(4);
            if depth < 4 {
                for s in c.conditions().iter().take(8) {
                    if !w.step() {
                        break;
                    }
                    condition_obs(&s, w, depth + 1);
                }
            }
        }
        Ok(Condition::Format5Negate(c)) => {
            w.tagb(5);
            if depth < 4 {
                condition_obs(&c.condition(), w, depth + 1);
            }
        }
        Err(e) => rerr(w, e),
    }
}

fn feature_variations_obs(fv: &FeatureVariations, w: &mut Walker) {
    let data = fv.offset_data();
    for rec in fv.feature_variation_records().iter().take(16) {
        if !w.step() {
            break;
        }
        match rec.condition_set(data) {
            Some(Ok(cs)) => {
                w.u(cs.condition_count() as u64);
                for c in cs.conditions().iter().take(16) {
                    condition_obs(&c, w, 0);
                }
            }
            Some(Err(e)) => rerr(w, &e),
            None => w.tagb(0),
        }
        match rec.feature_table_substitution(data) {
            Some(Ok(ts)) => {
                for s in ts.substitutions().iter().take(16) {
                    w.u(s.feature_index() as u64);
                    match s.alternate_feature(ts.offset_data()) {
                        Ok(f) => w.u(f.lookup_index_count() as u64),
                        Err(e) => rerr(w, &e),
                    }
                }
            }
            Some(Err(e)) => rerr(w, &e),
            None => w.tagb(0),
        }
    }
}

fn gpos_deep(data: &[u8], w: &mut Walker) {
    use read_fonts::tables::gpos::{Gpos, PairPos, PositionSubtables as PS};
    let gpos = match Gpos::read(FontData::new(data)) {
        Ok(g) => g,
        Err(e) => return rerr(w, &e),
    };
    match gpos.feature_list() {
        Ok(fl) => feature_list_obs(&fl, w),
        Err(e) => rerr(w, &e),
    }
    if let Some(Ok(fv)) = gpos.feature_variations() {
        feature_variations_obs(&fv, w);
    }
    let Ok(ll) = gpos.lookup_list() else { return };
    for (li, lookup) in ll.lookups().iter().enumerate() {
        if li >= 48 || !w.step() {
            break;
        }
        let Ok(lookup) = lookup else { continue };
        let Ok(subs) = lookup.subtables() else { continue };
        macro_rules! each {
            ($st:expr, |$t:ident| $body:block) => {{
                for (si, sub) in $st.iter().enumerate() {
                    if si >= 4 || !w.step() {
                        break;
                    }
                    if let Ok($t) = sub $body
                }
            }};
        }
        match subs {
            PS::Single(_) | PS::Cursive(_) | PS::Contextual(_) | PS::ChainContextual(_) => {}
            PS::Pair(st) => each!(st, |t| {
                match &t {
                    PairPos::Format1(f) => {
                        let sets = f.pair_sets();
                        w.u(sets.len() as u64);
                        for ps in sets.iter().take(MAX_RECORDS) {
                            match ps {
                                Ok(ps) => {
                                    let recs = ps.pair_value_records();
                                    let n = recs.len();
                                    w.u(n as u64);
                                    for i in (0..n.min(MAX_RECORDS)).chain([n, usize::MAX]) {
                                        match recs.get(i) {
                                            Ok(r) => {
                                                w.u(r.second_glyph().to_u16() as u64);
                                                value_record_deep(r.value_record1(), ps.offset_data(), w);
                                                value_record_deep(r.value_record2(), ps.offset_data(), w);
                                            }
                                            Err(e) => rerr(w, &e),
                                        }
                                    }
                                }
                                Err(e) => rerr(w, &e),
                            }
                        }
                    }
                    PairPos::Format2(f) => {
                        let c1 = f.class1_records();
                        let n1 = c1.len();
                        w.u(n1 as u64);
                        for i in (0..n1.min(8)).chain([n1, usize::MAX]) {
                            match c1.get(i) {
                                Ok(r1) => {
                                    let c2 = r1.class2_records();
                                    let n2 = c2.len();
                                    w.u(n2 as u64);
                                    for j in (0..n2.min(8)).chain([n2, usize::MAX]) {
                                        match c2.get(j) {
                                            Ok(r2) => {
                                                value_record_deep(r2.value_record1(), f.offset_data(), w);
                                                value_record_deep(r2.value_record2(), f.offset_data(), w);
                                            }
                                            Err(e) => rerr(w, &e),
                                        }
                                    }
                                }
                                Err(e) => rerr(w, &e),
                            }
                        }
                    }
                }
            }),
            PS::MarkToBase(st) => each!(st, |t| {
                w.u(t.mark_class_count() as u64);
                match t.mark_array() {
                    Ok(ma) => {
                        for r in ma.mark_records().iter().take(MAX_RECORDS) {
                            w.u(r.mark_class() as u64);
                            anchor_obs(&r.mark_anchor(ma.offset_data()), w);
                        }
                    }
                    Err(e) => rerr(w, &e),
                }
                match t.base_array() {
                    Ok(ba) => {
                        let recs = ba.base_records();
                        let n = recs.len();
                        w.u(n as u64);
                        for i in (0..n.min(MAX_RECORDS)).chain([n, usize::MAX]) {
                            match recs.get(i) {
                                Ok(r) => {
                                    w.u(r.base_anchor_offsets().len() as u64);
                                    for a in r.base_anchors(ba.offset_data()).iter().take(8) {
                                        match a {
                                            Some(a) => anchor_obs(&a, w),
                                            None => w.tagb(0),
                                        }
                                    }
                                }
                                Err(e) => rerr(w, &e),
                            }
                        }
                    }
                    Err(e) => rerr(w, &e),
                }
            }),
            PS::MarkToLig(st) => each!(st, |t| {
                match t.mark_array() {
                    Ok(ma) => {
                        for r in ma.mark_records().iter().take(MAX_RECORDS) {
                            w.u(r.mark_class() as u64);
                            anchor_obs(&r.mark_anchor(ma.offset_data()), w);
                        }
                    }
                    Err(e) => rerr(w, &e),
                }
                match t.ligature_array() {
                    Ok(la) => {
                        for att in la.ligature_attaches().iter().take(8) {
                            match att {
                                Ok(att) => {
                                    let recs = att.component_records();
                                    let n = recs.len();
                                    w.u(n as u64);
                                    for i in (0..n.min(8)).chain([n, usize::MAX]) {
                                        match recs.get(i) {
                                            Ok(r) => {
                                                for a in r.ligature_anchors(att.offset_data()).iter().take(8) {
                                                    match a {
                                                        Some(a) => anchor_obs(&a, w),
                                                        None => w.tagb(0),
                                                    }
                                                }
                                            }
                                            Err(e) => rerr(w, &e),
                                        }
                                    }
                                }
                                Err(e) => rerr(w, &e),
                            }
                        }
                    }
                    Err(e) => rerr(w, &e),
                }
            }),
            PS::MarkToMark(st) => each!(st, |t| {
                match t.mark1_array() {
                    Ok(ma) => {
                        for r in ma.mark_records().iter().take(MAX_RECORDS) {
                            w.u(r.mark_class() as u64);
                            anchor_obs(&r.mark_anchor(ma.offset_data()), w);
                        }
                    }
                    Err(e) => rerr(w, &e),
                }
                match t.mark2_array() {
                    Ok(m2) => {
                        let recs = m2.mark2_records();
                        let n = recs.len();
                        w.u(n as u64);
                        for i in (0..n.min(MAX_RECORDS)).chain([n, usize::MAX]) {
                            match recs.get(i) {
                                Ok(r) => {
                                    for a in r.mark2_anchors(m2.offset_data()).iter().take(8) {
                                        match a {
                                            Some(a) => anchor_obs(&a, w),
                                            None => w.tagb(0),
                                        }
                                    }
                                }
                                Err(e) => rerr(w, &e),
                            }
                        }
                    }
                    Err(e) => rerr(w, &e),
                }
            }),
        }
    }
}

fn gsub_deep(data: &[u8], w: &mut Walker) {
    use read_fonts::tables::gsub::Gsub;
    let gsub = match Gsub::read(FontData::new(data)) {
        Ok(g) => g,
        Err(e) => return rerr(w, &e),
    };
    match gsub.feature_list() {
        Ok(fl) => feature_list_obs(&fl, w),
        Err(e) => rerr(w, &e),
    }
    if let Some(Ok(fv)) = gsub.feature_variations() {
        feature_variations_obs(&fv, w);
    }
}

fn gdef_deep(data: &[u8], w: &mut Walker) {
    use read_fonts::tables::gdef::{CaretValue, Gdef};
    let gdef = match Gdef::read(FontData::new(data)) {
        Ok(g) => g,
        Err(e) => return rerr(w, &e),
    };
    match gdef.attach_list() {
        Some(Ok(al)) => {
            w.u(al.glyph_count() as u64);
            for ap in al.attach_points().iter().take(MAX_RECORDS) {
                match ap {
                    Ok(ap) => {
                        w.u(ap.point_count() as u64);
                        for p in ap.point_indices().iter().take(32) {
                            w.h.u64(p.get() as u64);
                        }
                    }
                    Err(e) => rerr(w, &e),
                }
            }
        }
        Some(Err(e)) => rerr(w, &e),
        None => w.tagb(0),
    }
    match gdef.lig_caret_list() {
        Some(Ok(l)) => {
            w.u(l.lig_glyph_count() as u64);
            for g in l.lig_glyphs().iter().take(MAX_RECORDS) {
                match g {
                    Ok(g) => {
                        w.u(g.caret_count() as u64);
                        for c in g.caret_values().iter().take(8) {
                            match c {
                                Ok(CaretValue::Format1(c)) => w.i(c.coordinate() as i64),
                                Ok(CaretValue::Format2(c)) => w.u(c.caret_value_point_index() as u64),
                                Ok(CaretValue::Format3(c)) => {
                                    w.i(c.coordinate() as i64);
                                    device_obs(&c.device(), w);
                                }
                                Err(e) => rerr(w, &e),
                            }
                        }
                    }
                    Err(e) => rerr(w, &e),
                }
            }
        }
        Some(Err(e)) => rerr(w, &e),
        None => w.tagb(0),
    }
}

/// a[2] = table tag (GSUB / GPOS / GDEF); 3 = bare Device / VariationIndex blob; 4 = bare AnchorTable
pub fn layout2_driver(data: &[u8], _ctx: &[Vec<u8>], a: [u32; 3], w: &mut Walker) {
    match &a[2].to_be_bytes() {
        b"GSUB" => gsub_deep(data, w),
        b"GPOS" => gpos_deep(data, w),
        b"GDEF" => gdef_deep(data, w),
        _ => {
            if a[2] == 3 {
                device_obs(&DeviceOrVariationIndex::read(FontData::new(data)), w);
            } else {
                anchor_obs(&AnchorTable::read(FontData::new(data)), w);
            }
        }
    }
}

// ------------------------------------------------------------------------------------------
// gvar with glyf + loca: phantom point deltas and delta accumulation
// data = gvar, ctx = [glyf, loca], a = [is_long, num_glyphs, _]
// ------------------------------------------------------------------------------------------

pub fn gvar2_driver(data: &[u8], ctx: &[Vec<u8>], a: [u32; 3], w: &mut Walker) {
    use read_fonts::tables::glyf::{Glyf, PointFlags};
    use read_fonts::tables::gvar::Gvar;
    use read_fonts::tables::loca::Loca;
    // a[2] == 0: data = gvar, ctx = [glyf, loca];  a[2] == 1: data = glyf (hostile), ctx = [gvar, loca]
    let empty = vec![];
    let other = ctx.first().unwrap_or(&empty);
    let (gvar_b, glyf_b): (&[u8], &[u8]) = if a[2] == 1 { (other, data) } else { (data, other) };
    let gvar = match Gvar::read(FontData::new(gvar_b)) {
        Ok(g) => g,
        Err(e) => return rerr(w, &e),
    };
    let loca_b = ctx.get(1).unwrap_or(&empty);
    let (Ok(glyf), Ok(loca)) = (Glyf::read(FontData::new(glyf_b)), Loca::read(FontData::new(loca_b), a[0] != 0)) else {
        return w.tagb(0);
    };
    let coords = coords_set();
    let n = gvar.glyph_count() as u32;
    // phantom points for every glyph id (bounded by the horizon); accumulation for the first 48
    for gid in (0..n).chain(gid_boundaries(n)) {
        if !w.step() {
            break;
        }
        let g = GlyphId::new(gid);
        for c in coords.iter().skip(if gid < 48 { 1 } else { 3 }) {
            match gvar.phantom_point_deltas(&glyf, &loca, c, g) {
                Ok(Some(d)) => {
                    for p in d {
                        w.i(p.x.to_bits() as i64);
                        w.i(p.y.to_bits() as i64);
                    }
                }
                Ok(None) => w.tagb(2),
                Err(e) => rerr(w, &e),
            }
        }
        // delta accumulation into buffers sized from the glyph (points + 4 phantoms), and into
        // deliberately short / empty buffers
        let np = match loca.get_glyf(g, &glyf) {
            Ok(Some(read_fonts::tables::glyf::Glyph::Simple(s))) => s.num_points().min(4096),
            Ok(Some(read_fonts::tables::glyf::Glyph::Composite(c))) => c.components().take(256).count(),
            _ => 0,
        } + 4;
        if gid >= 48 && gid < n {
            continue;
        }
        let Ok(Some(vd)) = gvar.glyph_variation_data(g) else { continue };
        for (ti, tup) in vd.tuples().enumerate() {
            if ti >= 8 || !w.step() {
                break;
            }
            for len in [np, np.saturating_sub(5), 0] {
                for scalar in [Fixed::ONE, Fixed::from_bits(0x4000), Fixed::from_bits(i32::MIN)] {
                    let mut deltas = vec![Point::<Fixed>::default(); len];
                    let mut flags = vec![PointFlags::default(); len];
                    let r = if tup.has_deltas_for_all_points() {
                        tup.accumulate_dense_deltas(&mut deltas, scalar)
                    } else {
                        tup.accumulate_sparse_deltas(&mut deltas, &mut flags, scalar)
                    };
                    match r {
                        Ok(()) => {
                            for d in deltas.iter().take(64) {
                                w.h.i64(((d.x.to_bits() as i64) << 32) ^ d.y.to_bits() as i64);
                            }
                            w.tagb(1)
                        }
                        Err(e) => rerr(w, &e),
                    }
                    w.calls += 1;
                    w.nodes += len as u64 / 16;
                }
            }
        }
    }
}

// ------------------------------------------------------------------------------------------
// aat lookups / state tables (blob level; a[2]: 0 = Lookup, 1 = StateTable, 2 = ExtendedStateTable)
// ------------------------------------------------------------------------------------------

pub fn aat_driver(data: &[u8], _ctx: &[Vec<u8>], a: [u32; 3], w: &mut Walker) {
    use read_fonts::tables::aat::{ExtendedStateTable, Lookup, StateTable};
    let fd = FontData::new(data);
    let idx = [0u16, 1, 2, 3, 7, 8, 0x7FFF, 0xFFFE, 0xFFFF];
    match a[2] {
        0 => match Lookup::read(fd) {
            Ok(l) => {
                for i in idx {
                    match l.value::<u16>(i) {
                        Ok(v) => w.u(v as u64),
                        Err(e) => rerr(w, &e),
                    }
                    match l.value::<u32>(i) {
                        Ok(v) => w.u(v as u64),
                        Err(e) => rerr(w, &e),
                    }
                    match l.value::<GlyphId16>(i) {
                        Ok(v) => w.u(v.to_u16() as u64),
                        Err(e) => rerr(w, &e),
                    }
                }
            }
            Err(e) => rerr(w, &e),
        },
        1 => match StateTable::read(fd) {
            Ok(t) => {
                for g in idx {
                    match t.class(GlyphId16::new(g)) {
                        Ok(c) => w.u(c as u64),
                        Err(e) => rerr(w, &e),
                    }
                }
                for s in [0u16, 1, 2, 0xFFFF] {
                    for c in [0u8, 1, 3, 4, 255] {
                        match t.entry(s, c) {
                            Ok(e) => {
                                w.u(e.new_state as u64);
                                w.u(e.flags as u64)
                            }
                            Err(e) => rerr(w, &e),
                        }
                    }
                }
            }
            Err(e) => rerr(w, &e),
        },
        _ => match ExtendedStateTable::<u16>::read(fd) {
            Ok(t) => {
                for g in idx {
                    match t.class(GlyphId16::new(g)) {
                        Ok(c) => w.u(c as u64),
                        Err(e) => rerr(w, &e),
                    }
                }
                for s in [0u16, 1, 2, 0xFFFF] {
                    for c in [0u16, 1, 3, 4, 0xFFFF] {
                        match t.entry(s, c) {
                            Ok(e) => {
                                w.u(e.new_state as u64);
                                w.u(e.flags as u64)
                            }
                            Err(e) => rerr(w, &e),
                        }
                    }
                }
            }
            Err(e) => rerr(w, &e),
        },
    }
}

/// raw arrays read the way `TableProvider` does (a[2] = tag): `cvt ` as `[BigEndian<i16>]`
pub fn raw_driver(data: &[u8], _ctx: &[Vec<u8>], a: [u32; 3], w: &mut Walker) {
    let fd = FontData::new(data);
    if &a[2].to_be_bytes() == b"cvt " {
        // TableProvider::cvt: read_array over the whole table
        match fd.read_array::<BigEndian<i16>>(0..fd.len()) {
            Ok(v) => {
                w.u(v.len() as u64);
                for x in v.iter().take(4096) {
                    w.h.i64(x.get() as i64);
                }
                w.calls += v.len().min(4096) as u64;
            }
            Err(e) => rerr(w, &e),
        }
        for r in [0..0usize, 0..1, 1..3, 0..usize::MAX, fd.len()..fd.len() + 2] {
            w.b(fd.read_array::<BigEndian<i16>>(r).is_ok());
        }
    } else {
        w.tagb(0xFF);
    }
}

// ------------------------------------------------------------------------------------------
// TrueType bytecode decoding (fpgm / prep / glyph instructions): data = a program
// ------------------------------------------------------------------------------------------

pub fn bytecode_driver(data: &[u8], _ctx: &[Vec<u8>], _a: [u32; 3], w: &mut Walker) {
    use read_fonts::tables::glyf::bytecode::{decode_all, Decoder};
    // every instruction consumes at least one byte: the iterator cannot yield more items than the program has bytes
    let lim = data.len() as u64 + 2;
    for pc in [0usize, 1, data.len().saturating_sub(1), data.len(), data.len() + 1] {
        let mut n = 0u64;
        for ins in decode_all(data, pc) {
            n += 1;
            match ins {
                Ok(i) => {
                    w.h.u64(((i.opcode as u8 as u64) << 32) | i.pc as u64);
                    for v in i.inline_operands.values().take(256) {
                        w.h.i64(v as i64);
                    }
                }
                Err(_) => w.h.byte(0xEE),
            }
            if n > lim {
                crate::drivers::report_overrun("bytecode::decode_all yields more instructions than the program has bytes", n);
                break;
            }
        }
        w.calls += n;
        w.nodes += n / 4;
        w.u(n);
        let mut d = Decoder::new(data, pc);
        for _ in 0..3 {
            match d.decode() {
                Some(Ok(i)) => w.u(i.opcode as u8 as u64),
                Some(Err(_)) => w.tagb(0),
                None => w.tagb(2),
            }
        }
        w.u(d.pc as u64);
    }
}
