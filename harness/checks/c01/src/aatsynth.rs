//! Synthesised AAT family (independent of the corpus): hand-assembled legacy `StateTable`, `ExtendedStateTable` and
//! `Lookup` (formats 0/2/4/6/8/10) blobs whose header fields and offsets take boundary values, each executed once
//! (selector seeds, `pos_limit == 0`) with every public accessor called at argument boundaries derived from the blob.
//! Oracle: totality only (no panic / no hang; `Ok` and `Err` are both fine).

use crate::drivers::rerr;
use crate::seeds::Seed;
use crate::walker::Walker;
use read_fonts::tables::aat::{ExtendedStateTable, Lookup, StateTable};
use read_fonts::types::GlyphId16;
use read_fonts::{FontData, FontRead};

fn be16(words: &[u16]) -> Vec<u8> {
    words.iter().flat_map(|w| w.to_be_bytes()).collect()
}

/// sizes: 0, 1, 2, 255, 256, multiples of 0x100 incl. 0xFF00, 0x7FFF, 0x8000, 0xFFFF
pub const SIZES16: [u16; 13] = [0, 1, 2, 4, 255, 256, 0x0200, 0x1000, 0x7F00, 0x7FFF, 0x8000, 0xFF00, 0xFFFF];
pub const SIZES32: [u32; 15] =
    [0, 1, 2, 4, 255, 256, 0xFF00, 0x7FFF, 0x8000, 0xFFFF, 0x1_0000, 0x00FF_FFFF, 0x7FFF_FFFF, 0x8000_0000, 0xFFFF_FFFF];

/// legacy state table, 32 bytes: header 0..8, class table 8..16 (first glyph, count, 4 classes), state array 16..24,
/// entry table 24..32 (two entries: new state, flags)
fn legacy(state_size: u16, class_off: u16, array_off: u16, entry_off: u16, first: u16, n: u16, new_state: u16) -> Vec<u8> {
    let mut b = be16(&[state_size, class_off, array_off, entry_off, first, n]);
    b.extend([0u8, 1, 2, 3]);
    b.extend([0u8, 1, 0, 1, 1, 0, 1, 0]);
    b.extend(be16(&[new_state, 0x8000, 0xFFFF, 0x0001]));
    b
}

/// extended state table, 60 bytes: header 0..16, class lookup (format 8) 16..30 + 2 bytes padding, state array
/// 32..48 (8 x u16), entry table 48..60 (two entries with a u16 payload)
fn extended(n_classes: u32, class_off: u32, array_off: u32, entry_off: u32) -> Vec<u8> {
    let mut b: Vec<u8> = [n_classes, class_off, array_off, entry_off].iter().flat_map(|w| w.to_be_bytes()).collect();
    b.extend(be16(&[8, 3, 4, 0, 1, 2, 3, 0]));
    b.extend(be16(&[0, 1, 0, 1, 1, 0, 1, 0xFFFF]));
    b.extend(be16(&[1, 0x8000, 7, 0xFFFF, 0, 9]));
    b
}

fn lookups() -> Vec<(String, Vec<u8>)> {
    let mut v = vec![];
    // format 0: a plain array of 0..=3 values
    for n in 0..=3usize {
        let mut w = vec![0u16];
        w.extend((0..n).map(|i| 0x10 + i as u16));
        v.push((format!("f0,n={n}"), be16(&w)));
        let mut b = be16(&w);
        b.push(0xAA); // odd trailing byte
        v.push((format!("f0,n={n}+1"), b));
    }
    // formats 2 / 4 / 6: binary-search header (unit size, unit count) x two units + terminator
    for fmt in [2u16, 4, 6] {
        let true_unit: u16 = if fmt == 6 { 4 } else { 6 };
        for unit in [0u16, 1, 2, 3, 4, 5, 6, 7, 8, 255, 256, 0x7FFF, 0x8000, 0xFFFF] {
            for n_units in [0u16, 1, 2, 3, 4, 255, 256, 0x2AAA, 0x2AAB, 0x7FFF, 0x8000, 0xFFFF] {
                let offs: &[u16] = if fmt == 4 { &[0, 12, 34, 35, 36, 37, 0x7FFF, 0xFFFF] } else { &[0x21] };
                for &o in offs {
                    if fmt == 4 && o != 34 && !(unit == true_unit || unit == 0 || unit == 0xFFFF) {
                        continue;
                    }
                    let mut w = vec![fmt, unit, n_units, 0, 0, 0];
                    if fmt == 6 {
                        w.extend([5, o, 9, o.wrapping_add(1), 0xFFFF, 0xFFFF]);
                    } else {
                        // (last, first, value | offset)
                        w.extend([5, 3, o, 9, 8, o.wrapping_add(2), 0xFFFF, 0xFFFF, 0]);
                    }
                    w.extend([0x31, 0x32, 0x33, 0x34]);
                    v.push((format!("f{fmt},unit={unit:#x},n={n_units:#x},v={o:#x}"), be16(&w)));
                }
            }
        }
        // inverted / full-range segments
        if fmt != 6 {
            for (last, first) in [(0u16, 0u16), (3, 5), (0xFFFF, 0), (0xFFFE, 0xFFFE), (0xFFFF, 0xFFFF), (0, 0xFFFF)] {
                let w = vec![fmt, 6, 1, 0, 0, 0, last, first, 18, 0xFFFF, 0xFFFF, 0, 0x31, 0x32];
                v.push((format!("f{fmt},seg={first:#x}..={last:#x}"), be16(&w)));
            }
        }
    }
    // format 8: trimmed array
    for first in [0u16, 1, 3, 0x7FFF, 0x8000, 0xFFFD, 0xFFFE, 0xFFFF] {
        for count in [0u16, 1, 2, 3, 4, 255, 256, 0x7FFF, 0x8000, 0xFFFF] {
            v.push((format!("f8,first={first:#x},count={count:#x}"), be16(&[8, first, count, 0x41, 0x42, 0x43])));
        }
    }
    // format 10: trimmed array with a value size
    for unit in [0u16, 1, 2, 3, 4, 5, 7, 8, 9, 16, 255, 256, 0x7FFF, 0x8000, 0xFFFF] {
        for first in [0u16, 3, 0xFFFE, 0xFFFF] {
            for count in [0u16, 1, 2, 3, 4, 5, 0x7FFF, 0x8000, 0xFFFF] {
                v.push((
                    format!("f10,unit={unit:#x},first={first:#x},count={count:#x}"),
                    be16(&[10, unit, first, count, 0x5152, 0x5354, 0x5556, 0x5758]),
                ));
            }
        }
    }
    // unknown formats
    for fmt in [1u16, 3, 5, 7, 9, 11, 0xFFFF] {
        v.push((format!("f{fmt}"), be16(&[fmt, 6, 1, 0, 0, 0, 5, 3, 1])));
    }
    v
}

pub fn aatsynth_seeds(out: &mut Vec<Seed>) {
    let d = crate::drivers::find("aatsynth").expect("aatsynth");
    let mut push = |name: String, kind: u32, data: Vec<u8>| {
        out.push(Seed {
            name,
            class: "synth",
            ty: None,
            args: [0; 3],
            drivers: vec![(d, [0, 0, kind])],
            data,
            ctx: vec![],
            pos_limit: 0, // selector only: executed once
            extra_trunc: vec![],
        })
    };
    // legacy: state size x (class table, state array, entry table) offsets {inside, 0, last byte, end, past end, max}
    for s in SIZES16 {
        for co in [8u16, 0, 29, 32, 33, 0xFFFF] {
            for ao in [16u16, 0, 31, 32, 33, 0xFFFF] {
                for eo in [24u16, 0, 28, 32, 33, 0xFFFF] {
                    push(format!("synth:aat/state/size={s:#x},class@{co},array@{ao},entries@{eo}"), 1, legacy(s, co, ao, eo, 3, 4, 16));
                }
            }
        }
        for (first, n) in [(0u16, 0u16), (0, 4), (1, 1), (3, 0xFFFF), (0xFFFC, 4), (0xFFFE, 4), (0xFFFF, 1), (0x8000, 0x8000)] {
            push(format!("synth:aat/state/size={s:#x},first={first:#x},n={n:#x}"), 1, legacy(s, 8, 16, 24, first, n, 16));
        }
        for ns in [0u16, 1, 15, 17, 24, 0x7FFF, 0x8000, 0xFFFF] {
            for ao in [16u16, 0, 0x8000, 0xFFFF] {
                push(format!("synth:aat/state/size={s:#x},array@{ao},newstate={ns:#x}"), 1, legacy(s, 8, ao, 24, 3, 4, ns));
            }
        }
    }
    // extended
    for s in SIZES32 {
        for co in [16u32, 0, 60, 61, 0xFFFF_FFFF] {
            for ao in [32u32, 0, 58, 60, 61, 0xFFFF_FFFF] {
                for eo in [48u32, 0, 56, 60, 61, 0xFFFF_FFFF] {
                    push(format!("synth:aat/xstate/n={s:#x},class@{co},array@{ao},entries@{eo}"), 2, extended(s, co, ao, eo));
                }
            }
        }
    }
    for (name, data) in lookups() {
        push(format!("synth:aat/lookup/{name}"), 0, data);
    }
}

/// glyph ids: fixed boundaries plus every 16-bit word of the blob and its neighbours (first glyph - 1, first glyph,
/// last, last + 1 of every format are among them)
fn gids(data: &[u8]) -> Vec<u16> {
    let mut v = vec![0u16, 1, 2, 3, 4, 5, 6, 7, 8, 9, 10, 0x7FFF, 0x8000, 0xFFFD, 0xFFFE, 0xFFFF];
    for c in data.chunks_exact(2).take(24) {
        let x = u16::from_be_bytes([c[0], c[1]]);
        v.extend([x.wrapping_sub(1), x, x.wrapping_add(1)]);
    }
    // first + count - 1, first + count of the trimmed-array forms
    for i in 0..data.len().min(16) / 2 {
        if i + 1 < data.len() / 2 {
            let a = u16::from_be_bytes([data[2 * i], data[2 * i + 1]]);
            let b = u16::from_be_bytes([data[2 * i + 2], data[2 * i + 3]]);
            v.extend([a.wrapping_add(b).wrapping_sub(1), a.wrapping_add(b)]);
        }
    }
    v.sort_unstable();
    v.dedup();
    v
}

fn around(n: u32) -> Vec<u16> {
    let n = n as u16;
    let mut v = vec![0u16, 1, 2, 3, n.wrapping_sub(1), n, n.wrapping_add(1), 254, 255, 256, 257, 0x7FFF, 0x8000, 0xFFFE, 0xFFFF];
    v.sort_unstable();
    v.dedup();
    v
}

pub fn aatsynth_driver(data: &[u8], _ctx: &[Vec<u8>], a: [u32; 3], w: &mut Walker) {
    let fd = FontData::new(data);
    match a[2] {
        0 => match Lookup::read(fd) {
            Ok(l) => {
                for g in gids(data) {
                    match l.value::<u16>(g) {
                        Ok(v) => w.u(v as u64),
                        Err(e) => rerr(w, &e),
                    }
                    match l.value::<u32>(g) {
                        Ok(v) => w.u(v as u64),
                        Err(e) => rerr(w, &e),
                    }
                    match l.value::<GlyphId16>(g) {
                        Ok(v) => w.u(v.to_u16() as u64),
                        Err(e) => rerr(w, &e),
                    }
                    w.calls += 3;
                }
            }
            Err(e) => rerr(w, &e),
        },
        1 => match StateTable::read(fd) {
            Ok(t) => {
                for g in gids(data) {
                    match t.class(GlyphId16::new(g)) {
                        Ok(c) => w.u(c as u64),
                        Err(e) => rerr(w, &e),
                    }
                    w.calls += 1;
                }
                let n = data.get(..2).map(|b| u16::from_be_bytes([b[0], b[1]])).unwrap_or(0) as u32;
                let mut classes: Vec<u8> = around(n).into_iter().map(|c| c as u8).collect();
                classes.extend(around(n >> 8).into_iter().map(|c| c as u8));
                classes.sort_unstable();
                classes.dedup();
                for s in around(n) {
                    for &c in &classes {
                        match t.entry(s, c) {
                            Ok(e) => {
                                w.u(e.new_state as u64);
                                w.u(e.flags as u64)
                            }
                            Err(e) => rerr(w, &e),
                        }
                        w.calls += 1;
                    }
                }
            }
            Err(e) => rerr(w, &e),
        },
        _ => {
            let n = data.get(..4).map(|b| u32::from_be_bytes([b[0], b[1], b[2], b[3]])).unwrap_or(0);
            let mut args = around(n);
            args.extend(around(n >> 16));
            args.sort_unstable();
            args.dedup();
            match ExtendedStateTable::<u16>::read(fd) {
                Ok(t) => {
                    for g in gids(data) {
                        match t.class(GlyphId16::new(g)) {
                            Ok(c) => w.u(c as u64),
                            Err(e) => rerr(w, &e),
                        }
                        w.calls += 1;
                    }
                    for &s in &args {
                        for &c in &args {
                            match t.entry(s, c) {
                                Ok(e) => {
                                    w.u(e.new_state as u64);
                                    w.u(e.flags as u64);
                                    w.u(e.payload as u64)
                                }
                                Err(e) => rerr(w, &e),
                            }
                            w.calls += 1;
                        }
                    }
                }
                Err(e) => rerr(w, &e),
            }
            // wider payload (morx insertion / kerx anchor entries carry two 16-bit words)
            match ExtendedStateTable::<u32>::read(fd) {
                Ok(t) => {
                    for &s in &args {
                        for &c in &args {
                            match t.entry(s, c) {
                                Ok(e) => {
                                    w.u(e.new_state as u64);
                                    w.u(e.payload as u64)
                                }
                                Err(e) => rerr(w, &e),
                            }
                            w.calls += 1;
                        }
                    }
                }
                Err(e) => rerr(w, &e),
            }
        }
    }
}

pub fn describe() -> String {
    format!(
        "legacy StateTable: {} state sizes x (6 class-table x 6 state-array x 6 entry-table offsets + 8 class ranges + 8 new-state values x 4 array offsets); ExtendedStateTable<u16|u32>: {} class counts x 5 x 6 x 6 offsets; Lookup formats 0/2/4/6/8/10 (+ unknown): {} blobs; every blob run once",
        SIZES16.len(),
        SIZES32.len(),
        lookups().len()
    )
}
