//! X4 — supervisor / worker engine with per-case watchdog, in-flight case reporting, the panic
//! classifier and the purity oracle. Shared by C01 (release, every panic counts) and C20 (strict
//! profile, only arithmetic-overflow / debug-assert panics count).
//!
//! Process model: the supervisor (the check binary) plans a deterministic list of *units* (a seed +
//! a contiguous slice of its deviation enumeration), starts N workers (re-exec of the same binary
//! with `VERIF_WORKER=1`), and hands units to idle workers. A worker rebuilds the identical seed and
//! unit lists, executes the unit's cases one by one, publishes (unit, case number) in a shared
//! memory-mapped progress file *before* each case, catches panics itself and streams violations and
//! per-unit results on stdout. The supervisor's watchdog kills a worker whose in-flight case does not
//! change for `watchdog_s`; a killed / aborted / crashed worker turns its in-flight case into a
//! violation and is restarted after that case.

use crate::drivers;
use crate::seeds::{build_seeds, exec_case, Seed, SeedStats};
use crate::space::{atoms_in_range, header_atoms, position_atoms, Atom, Dev};
use crate::walker::Walker;
use serde_json::{json, Value};
use std::collections::{BTreeMap, HashSet};
use std::io::{BufRead, BufReader, Write};
use std::process::{Child, Command, Stdio};
use std::sync::atomic::{AtomicBool, AtomicI32, AtomicU64, AtomicUsize, Ordering};
use std::sync::{Arc, Mutex};
use std::time::{Duration, Instant};
use vcore::{Run, Tier};

#[derive(Clone, Copy, PartialEq, Eq, Debug)]
pub enum Mode {
    /// every panic / abort / timeout / overrun / impurity is a violation
    C01,
    /// only arithmetic-overflow and debug-assertion panics are violations
    C20,
}

/// A hook for sibling crates: extra drivers (e.g. C02's skrifa drivers) appended to the driver list
/// of whole-file seeds. `run(bytes, &mut Walker)`.
#[derive(Clone)]
pub struct ExtraDriver {
    pub name: &'static str,
    pub run: fn(&[u8], &mut Walker),
    /// when true, whole-file seeds are deviated at every position (up to the size cap), not only in
    /// the directory area
    pub deviate_whole_file: bool,
}

#[derive(Clone)]
pub struct EngineConfig {
    pub property: &'static str,
    pub mode: Mode,
    pub extra: Vec<ExtraDriver>,
}

#[derive(Clone, Debug)]
pub struct Bounds {
    pub workers: usize,
    pub watchdog_s: f64,
    pub horizon: u64,
    pub max_depth: u32,
    /// k=1: only positions < k1_pos_cap of each seed are deviated
    pub k1_pos_cap: usize,
    /// k=1 for table seeds larger than this is skipped entirely (thorough: usize::MAX)
    pub k1_seed_cap: usize,
    /// k=2 (all pairs) on table/static seeds of at most this many bytes
    pub k2_len: usize,
    /// per seed type-name: at most this many seeds get the k=2 treatment (shortest first)
    pub k2_seeds_per_type: usize,
    pub zero_len: usize,
    pub purity_every_case: bool,
    pub deadline_s: f64,
    pub chunk: usize,
}

pub fn bounds_for(tier: Tier, mode: Mode) -> Bounds {
    let env = |k: &str| std::env::var(k).ok().and_then(|v| v.parse::<f64>().ok());
    let mut b = match tier {
        Tier::Quick => Bounds {
            workers: 16,
            watchdog_s: 10.0,
            horizon: 20_000,
            max_depth: 12,
            k1_pos_cap: 2048,
            k1_seed_cap: 16 * 1024,
            k2_len: 96,
            k2_seeds_per_type: 1,
            zero_len: 96,
            purity_every_case: false,
            deadline_s: 45.0,
            chunk: 256,
        },
        Tier::Thorough => Bounds {
            workers: 16,
            watchdog_s: 20.0,
            horizon: 50_000,
            max_depth: 12,
            k1_pos_cap: 16 * 1024,
            k1_seed_cap: usize::MAX,
            k2_len: 256,
            k2_seeds_per_type: 1,
            zero_len: 160,
            purity_every_case: true,
            deadline_s: 1700.0,
            chunk: 256,
        },
    };
    crate::space::ODD_U16.store(tier == Tier::Thorough, Ordering::Relaxed);
    if mode == Mode::C20 {
        // the strict profile is 2-3x slower: halve the quick position cap
        b.deadline_s = tier.pick(45.0, 1700.0);
        b.k1_pos_cap = tier.pick(1024, b.k1_pos_cap);
    }
    if let Some(v) = env("VERIF_THREADS") {
        b.workers = (v as usize).max(1);
    }
    if let Some(v) = env("C01_DEADLINE") {
        b.deadline_s = v;
    }
    if let Some(v) = env("C01_K1_POS_CAP") {
        b.k1_pos_cap = v as usize;
    }
    if let Some(v) = env("C01_WATCHDOG") {
        b.watchdog_s = v;
    }
    b
}

// ------------------------------------------------------------------------------------------
// units and case enumeration
// ------------------------------------------------------------------------------------------

#[derive(Clone, Debug)]
pub enum UnitKind {
    /// all atomic deviations attached to positions lo..hi (+ header block and extra truncations
    /// when lo == 0)
    K1 { lo: usize, hi: usize },
    /// all pairs (a, b), a in a_lo..a_hi of the seed's proper atom list, b after a
    K2 { a_lo: usize, a_hi: usize },
    /// zero seed: for every length 0..=L, every atomic deviation of the zero buffer of that length
    Zero,
}

#[derive(Clone, Debug)]
pub struct Unit {
    pub seed: usize,
    pub kind: UnitKind,
}

pub struct Plan {
    pub seeds: Vec<Seed>,
    pub units: Vec<Unit>,
    pub stats: SeedStats,
    pub caps: Vec<String>,
    pub k2_seeds: usize,
}

fn proper_atoms(seed: &Seed) -> Vec<Atom> {
    let mut v = atoms_in_range(&seed.data, 0, seed.data.len());
    v.remove(0); // Atom::None
    v
}

/// Pure planning (no code under test is executed): turn the seed list into work units.
pub fn make_plan(tier: Tier, mode: Mode, cfg: &EngineConfig, seeds: Vec<Seed>, stats: SeedStats) -> Plan {
    let b = bounds_for(tier, mode);
    let mut seeds = seeds;
    // C02 drivers plug in here: extra drivers are attached to whole-file seeds by index
    // (usize::MAX - i marks extra driver i; see exec()).
    for s in seeds.iter_mut() {
        if s.class == "file" {
            for (i, e) in cfg.extra.iter().enumerate() {
                s.drivers.push((usize::MAX - i, [0; 3]));
                if e.deviate_whole_file {
                    s.pos_limit = s.data.len();
                }
            }
        }
    }
    let mut units = vec![];
    let mut caps: Vec<String> = vec![];
    let mut n_pos_capped = 0usize;
    let mut n_seed_skipped = 0usize;
    for (si, s) in seeds.iter().enumerate() {
        match s.class {
            "zero" => units.push(Unit { seed: si, kind: UnitKind::Zero }),
            // synthesised families: the pristine case and the extension atoms only
            "synth" => units.push(Unit { seed: si, kind: UnitKind::K1 { lo: 0, hi: 0 } }),
            _ => {
                if s.class == "table" && s.data.len() > b.k1_seed_cap {
                    n_seed_skipped += 1;
                    // still run the pristine seed + header block
                    units.push(Unit { seed: si, kind: UnitKind::K1 { lo: 0, hi: 0 } });
                    continue;
                }
                let lim = s.pos_limit.min(s.data.len());
                let hi_all = lim.min(b.k1_pos_cap);
                if hi_all < lim {
                    n_pos_capped += 1;
                }
                let mut lo = 0;
                loop {
                    let hi = (lo + b.chunk).min(hi_all);
                    units.push(Unit { seed: si, kind: UnitKind::K1 { lo, hi } });
                    lo = hi;
                    if lo >= hi_all {
                        break;
                    }
                }
            }
        }
    }
    // order by value: corpus tables / files before static blobs before zero buffers, and within a class the
    // leading chunk (headers, counts, offsets) of every seed before any second chunk — so that a deadline
    // under load cuts the least valuable units
    // (thorough: table positions >= 2048 come last, after the cheap static / zero / k=2 classes, so that every
    // class is completed before the long tail of large tables)
    let rank = |u: &Unit| -> (u8, usize, usize) {
        let lo = match u.kind {
            UnitKind::K1 { lo, .. } => lo,
            _ => 0,
        };
        let c = match seeds[u.seed].class {
            "synth" => 0u8,
            "table" | "file" if lo < 2048 => 1,
            "table" | "file" => 5,
            "static" => 2,
            _ => 3,
        };
        (c, lo, u.seed)
    };
    units.sort_by_key(rank);
    if n_pos_capped > 0 {
        caps.push(format!(
            "k=1: {} seeds longer than {} bytes were deviated only at positions < {}",
            n_pos_capped, b.k1_pos_cap, b.k1_pos_cap
        ));
    }
    if n_seed_skipped > 0 {
        caps.push(format!(
            "k=1: {} table seeds longer than {} bytes got only the pristine case and extensions",
            n_seed_skipped, b.k1_seed_cap
        ));
    }
    // k=2: shortest `k2_seeds_per_type` table/static seeds of each target with len <= k2_len
    let mut by_target: BTreeMap<String, Vec<usize>> = BTreeMap::new();
    for (si, s) in seeds.iter().enumerate() {
        if (s.class == "table" || s.class == "static") && s.data.len() <= b.k2_len && !s.data.is_empty() {
            by_target.entry(s.target_name()).or_default().push(si);
        }
    }
    let mut k2_seeds = 0;
    let mut k2_dropped = 0;
    for (_t, mut v) in by_target {
        v.sort_by_key(|si| (seeds[*si].data.len(), *si));
        k2_dropped += v.len().saturating_sub(b.k2_seeds_per_type);
        for si in v.into_iter().take(b.k2_seeds_per_type) {
            k2_seeds += 1;
            let m = proper_atoms(&seeds[si]).len();
            let step = 8usize;
            let mut a = 0;
            while a < m {
                units.push(Unit { seed: si, kind: UnitKind::K2 { a_lo: a, a_hi: (a + step).min(m) } });
                a += step;
            }
        }
    }
    // k=2 units (rank 3) go before the rank-4 tail
    units.sort_by_key(|u| match u.kind {
        UnitKind::K2 { .. } => 4u8,
        UnitKind::Zero => 3,
        UnitKind::K1 { lo, .. } => match seeds[u.seed].class {
            "synth" => 0,
            "table" | "file" if lo < 2048 => 1,
            "table" | "file" => 5,
            "static" => 2,
            _ => 3,
        },
    });
    if k2_dropped > 0 {
        caps.push(format!(
            "k=2: only the {} shortest seed(s) <= {} bytes of each target type get all pairs ({} further short seeds k=1 only)",
            b.k2_seeds_per_type, b.k2_len, k2_dropped
        ));
    }
    Plan { seeds, units, stats, caps, k2_seeds }
}

/// Enumerate the cases of a unit in fixed order. `f(case_no, base_len, dev)`; return false to stop.
pub fn for_each_case(seed: &Seed, unit: &Unit, mut f: impl FnMut(u64, usize, Dev) -> bool) {
    let mut no = 0u64;
    match unit.kind {
        UnitKind::K1 { lo, hi } => {
            let n = seed.data.len();
            let mut atoms = vec![];
            if lo == 0 && seed.class == "synth" && seed.pos_limit == 0 {
                // enumerating drivers: the seed is only a selector, run it once
                atoms.push(Atom::None);
            } else if lo == 0 {
                header_atoms(&mut atoms);
                for t in &seed.extra_trunc {
                    atoms.push(Atom::Trunc(*t));
                }
            }
            for p in lo..hi.min(n) {
                position_atoms(&seed.data, p, &mut atoms);
            }
            for a in atoms {
                if !f(no, n, Dev::One(a)) {
                    return;
                }
                no += 1;
            }
        }
        UnitKind::K2 { a_lo, a_hi } => {
            let atoms = proper_atoms(seed);
            let n = seed.data.len();
            for i in a_lo..a_hi.min(atoms.len()) {
                for j in i + 1..atoms.len() {
                    if !f(no, n, Dev::Two(atoms[i], atoms[j])) {
                        return;
                    }
                    no += 1;
                }
            }
        }
        UnitKind::Zero => {
            for len in 0..=seed.data.len() {
                let base = &seed.data[..len];
                for a in atoms_in_range(base, 0, len) {
                    if !f(no, len, Dev::One(a)) {
                        return;
                    }
                    no += 1;
                }
            }
        }
    }
}

// ------------------------------------------------------------------------------------------
// progress file (shared memory)
// ------------------------------------------------------------------------------------------

pub struct Progress {
    ptr: *mut AtomicU64,
    _file: std::fs::File,
}
unsafe impl Send for Progress {}
unsafe impl Sync for Progress {}

impl Progress {
    pub fn open(path: &std::path::Path) -> std::io::Result<Self> {
        use std::os::unix::io::AsRawFd;
        let file = std::fs::OpenOptions::new().read(true).write(true).create(true).truncate(false).open(path)?;
        file.set_len(64)?;
        // SAFETY: a 64-byte shared mapping of a file we own; only accessed through atomics.
        let p = unsafe {
            libc::mmap(std::ptr::null_mut(), 64, libc::PROT_READ | libc::PROT_WRITE, libc::MAP_SHARED, file.as_raw_fd(), 0)
        };
        if p == libc::MAP_FAILED {
            return Err(std::io::Error::last_os_error());
        }
        Ok(Progress { ptr: p as *mut AtomicU64, _file: file })
    }
    fn slot(&self, i: usize) -> &AtomicU64 {
        // SAFETY: i < 8, mapping is 64 bytes, page aligned
        unsafe { &*self.ptr.add(i) }
    }
    pub fn set(&self, unit: u64, case_no: u64) {
        self.slot(0).store(unit, Ordering::Relaxed);
        self.slot(1).store(case_no, Ordering::Relaxed);
        self.slot(2).fetch_add(1, Ordering::Release);
    }
    pub fn get(&self) -> (u64, u64, u64) {
        let s = self.slot(2).load(Ordering::Acquire);
        (self.slot(0).load(Ordering::Relaxed), self.slot(1).load(Ordering::Relaxed), s)
    }
}

// ------------------------------------------------------------------------------------------
// case execution (worker side)
// ------------------------------------------------------------------------------------------

fn exec(seed: &Seed, bytes: &[u8], ctx: &[Vec<u8>], cfg: &EngineConfig, w: &mut Walker) {
    // split drivers into built-in and extra
    let mut s2;
    let seed_ref = if seed.drivers.iter().any(|(d, _)| *d >= drivers::DRIVERS.len()) {
        s2 = seed.clone();
        s2.drivers.retain(|(d, _)| *d < drivers::DRIVERS.len());
        &s2
    } else {
        seed
    };
    exec_case(seed_ref, bytes, ctx, w);
    for (d, _) in &seed.drivers {
        if *d >= drivers::DRIVERS.len() {
            let i = usize::MAX - *d;
            if let Some(e) = cfg.extra.get(i) {
                w.tagb(0xD1);
                (e.run)(bytes, w);
            }
        }
    }
}

#[derive(Debug, Clone)]
pub struct CaseOutcome {
    pub digest: u64,
    pub nontrivial: bool,
    pub calls: u64,
    pub read_ok: bool,
    pub horizon_hit: bool,
    /// outcome class for the quick-tier purity rule: (read shape, root fields, log2 of calls)
    pub class: u32,
}

/// (kind, identity, what) of a violation found while executing one case in-process
pub type Found = (String, String, String);

thread_local! {
    static PANIC_FN: std::cell::RefCell<BTreeMap<(String, u32), String>> = const { std::cell::RefCell::new(BTreeMap::new()) };
}

/// Wrap the vcore panic hook: the first time a panic is seen at a given (file, line), capture a
/// backtrace and remember the innermost frame that belongs to a repository crate, so identities can
/// name the function instead of a line number.
pub fn install_fn_hook() {
    vcore::install_panic_hook();
    let inner = std::panic::take_hook();
    std::panic::set_hook(Box::new(move |info| {
        if let Some(l) = info.location() {
            let key = (l.file().to_string(), l.line());
            let known = PANIC_FN.with(|m| m.borrow().contains_key(&key));
            if !known {
                let bt = std::backtrace::Backtrace::force_capture().to_string();
                let mut name = String::new();
                for line in bt.lines() {
                    let t = line.trim_start();
                    let Some((_, sym)) = t.split_once(": ") else { continue };
                    if !t.as_bytes().first().map(|c| c.is_ascii_digit()).unwrap_or(false) {
                        continue;
                    }
                    let s = sym.trim_start_matches('<');
                    if ["read_fonts::", "font_types::", "skrifa::", "write_fonts::", "incremental_font_transfer::", "klippa::"]
                        .iter()
                        .any(|p| s.starts_with(p))
                    {
                        name = sym.to_string();
                        break;
                    }
                }
                // drop the hash suffix and closure markers
                if let Some(i) = name.rfind("::h") {
                    if name[i + 3..].chars().all(|c| c.is_ascii_hexdigit()) {
                        name.truncate(i);
                    }
                }
                let name = name.replace("::{{closure}}", "");
                PANIC_FN.with(|m| m.borrow_mut().insert(key, name));
            }
        }
        inner(info);
    }));
}

pub fn fn_of(p: &vcore::PanicInfo) -> String {
    PANIC_FN.with(|m| m.borrow().get(&(p.file.clone(), p.line)).cloned().unwrap_or_default())
}

pub fn site_of(p: &vcore::PanicInfo) -> String {
    let root = vcore::repo_root();
    let root = root.to_string_lossy();
    let f = p.file.as_str();
    let f = f.strip_prefix(root.as_ref()).unwrap_or(f);
    let f = f.trim_start_matches('/');
    // normalise `src/tables/../../generated/x.rs`
    if let Some(i) = f.find("/../../generated/") {
        if let Some(j) = f.find("/src/") {
            return format!("{}/generated/{}", &f[..j], &f[i + 17..]);
        }
    }
    if f.is_empty() {
        p.site()
    } else {
        f.to_string()
    }
}

pub fn run_case(
    seed: &Seed,
    bytes: &[u8],
    cfg: &EngineConfig,
    b: &Bounds,
    ignored: &mut u64,
) -> Result<CaseOutcome, Found> {
    let mut w = Walker::new(b.horizon, b.max_depth);
    w.input_len = bytes.len() as u64;
    drivers::take_overrun();
    drivers::take_driver_panic();
    drivers::take_disagreement();
    let r = vcore::guard(|| exec(seed, bytes, &seed.ctx, cfg, &mut w));
    let mut sub_case = String::new();
    let r = match (r, drivers::take_driver_panic()) {
        (Ok(()), Some((p, sc))) => {
            sub_case = format!(" [sub-case {sc}]");
            Err(p)
        }
        (r, _) => r,
    };
    match r {
        Ok(()) => {
            if let Some((what, detail)) = drivers::take_disagreement() {
                if cfg.mode == Mode::C01 {
                    return Err((
                        "impure".into(),
                        format!("impure {} [{}]", what, seed.target_name()),
                        format!("{what}: {detail} (on {} bytes)", bytes.len()),
                    ));
                }
            }
            if let Some(o) = drivers::take_overrun() {
                if cfg.mode == Mode::C01 {
                    return Err((
                        "overrun".into(),
                        format!("nontermination {} [{}]", o.what, seed.target_name()),
                        format!("{} ({} steps) on {} bytes", o.what, o.steps, bytes.len()),
                    ));
                }
            }
            Ok(CaseOutcome {
                digest: w.digest(),
                nontrivial: w.read_ok && w.root_fields >= 2,
                calls: w.calls,
                read_ok: w.read_ok,
                horizon_hit: w.horizon_hit,
                class: ((w.read_ok as u32) << 24) | (w.root_fields.min(255) << 16) | ((64 - w.calls.leading_zeros()) << 8) | (w.errs.min(255)),
            })
        }
        Err(p) => {
            let arith = p.is_arith_or_debug_assert();
            if cfg.mode == Mode::C20 && !arith {
                *ignored += 1;
                // not this property's business (C01/C02 run in release)
                return Ok(CaseOutcome { digest: 0x9A41C, nontrivial: false, calls: w.calls, read_ok: w.read_ok, horizon_hit: false, class: 0 });
            }
            let kind = if arith { "overflow" } else { "panic" };
            Err((
                kind.into(),
                format!("{} {} fn={}: {}", kind, site_of(&p), fn_of(&p), p.kind()),
                format!("{} at {}:{} — {}{}", kind, p.file, p.line, p.message, sub_case),
            ))
        }
    }
}

/// helper thread for the "on whichever thread" clause of the purity oracle
struct Helper {
    tx: std::sync::mpsc::Sender<(usize, Vec<u8>)>,
    rx: std::sync::mpsc::Receiver<Option<u64>>,
}

fn spawn_helper(seeds: Arc<Vec<Seed>>, cfg: EngineConfig, b: Bounds) -> Helper {
    let (tx, rx_job) = std::sync::mpsc::channel::<(usize, Vec<u8>)>();
    let (tx_res, rx) = std::sync::mpsc::channel::<Option<u64>>();
    std::thread::Builder::new()
        .stack_size(16 << 20)
        .spawn(move || {
            while let Ok((si, bytes)) = rx_job.recv() {
                let mut ign = 0;
                let r = run_case(&seeds[si], &bytes, &cfg, &b, &mut ign).ok().map(|o| o.digest);
                if tx_res.send(r).is_err() {
                    break;
                }
            }
        })
        .expect("spawn helper");
    Helper { tx, rx }
}

/// The purity oracle for one case: same digest (1) on a second walk, (2) on a second OS thread,
/// (3) from a copy at a different address and alignment (offset +1 inside a larger buffer; the
/// context tables are moved as well).
fn purity(seed_idx: usize, seed: &Seed, bytes: &[u8], first: u64, cfg: &EngineConfig, b: &Bounds, helper: &Helper) -> Option<Found> {
    let mut ign = 0;
    let bad = |which: &str, got: Option<u64>| {
        Some((
            "impure".to_string(),
            format!("impure {} [{}]", which, seed.target_name()),
            format!("digest {:016x} on the first walk, {:?} {}", first, got.map(|d| format!("{:016x}", d)), which),
        ))
    };
    let d2 = run_case(seed, bytes, cfg, b, &mut ign).ok().map(|o| o.digest);
    if d2 != Some(first) {
        return bad("on a second walk of the same bytes", d2);
    }
    if helper.tx.send((seed_idx, bytes.to_vec())).is_ok() {
        let d3 = helper.rx.recv().ok().flatten();
        if d3 != Some(first) {
            return bad("on a second OS thread", d3);
        }
    }
    // shifted copy: allocation of len+9, data placed at offset +1 (odd address)
    let mut big = vec![0xA5u8; bytes.len() + 9];
    big[1..1 + bytes.len()].copy_from_slice(bytes);
    let moved = &big[1..1 + bytes.len()];
    let mut s2 = seed.clone();
    s2.ctx = seed.ctx.iter().map(|c| c.clone()).collect(); // fresh allocations for the context too
    let d4 = run_case(&s2, moved, cfg, b, &mut ign).ok().map(|o| o.digest);
    if d4 != Some(first) {
        return bad("from a copy at a different address/alignment", d4);
    }
    None
}

fn hex16(v: &[u64]) -> String {
    let mut s = String::with_capacity(v.len() * 16);
    for d in v {
        s.push_str(&format!("{:016x}", d));
    }
    s
}
fn unhex16(s: &str) -> Vec<u64> {
    (0..s.len() / 16).filter_map(|i| u64::from_str_radix(&s[16 * i..16 * i + 16], 16).ok()).collect()
}

pub fn worker_main(cfg: EngineConfig) -> ! {
    install_fn_hook();
    let tier = match std::env::var("VERIF_TIER").as_deref() {
        Ok("thorough") => Tier::Thorough,
        _ => Tier::Quick,
    };
    let b = bounds_for(tier, cfg.mode);
    if std::env::var("VERIF_WORKER").as_deref() == Ok("plan") {
        // seed construction child: parses the pristine corpus with the code under test
        let (seeds, st) = build_seeds(tier);
        let path = std::env::var("VERIF_SEEDS").expect("VERIF_SEEDS");
        std::fs::write(&path, crate::seeds::serialize(&seeds, &st)).expect("write seeds");
        println!("PLANNED\t{}", seeds.len());
        std::process::exit(0);
    }
    let (seeds, st) = load_seeds().expect("seed file");
    let plan = make_plan(tier, cfg.mode, &cfg, seeds, st);
    let seeds = Arc::new(plan.seeds);
    let units = plan.units;
    let prog = Progress::open(std::path::Path::new(&std::env::var("VERIF_PROGRESS").expect("VERIF_PROGRESS"))).expect("progress file");
    let helper = spawn_helper(seeds.clone(), cfg.clone(), b.clone());
    let stdout = std::io::stdout();
    let mut out = std::io::BufWriter::new(stdout.lock());
    writeln!(out, "READY\t{}\t{}", seeds.len(), units.len()).unwrap();
    out.flush().unwrap();
    let stdin = std::io::stdin();
    let mut sent_all: HashSet<u64> = HashSet::new();
    let mut sent_nt: HashSet<u64> = HashSet::new();
    let mut buf: Vec<u8> = Vec::new();
    for line in stdin.lock().lines() {
        let Ok(line) = line else { break };
        let parts: Vec<&str> = line.split('\t').collect();
        match parts[0] {
            "U" => {
                let ui: usize = parts[1].parse().unwrap();
                let skip: u64 = parts.get(2).and_then(|s| s.parse().ok()).unwrap_or(0);
                let unit = &units[ui];
                let seed = &seeds[unit.seed];
                let mut evals = 0u64;
                let mut calls = 0u64;
                let mut ok = 0u64;
                let mut nt = 0u64;
                let mut ignored = 0u64;
                let mut horizon = 0u64;
                let mut purity_n = 0u64;
                let mut unit_seen: HashSet<u32> = HashSet::new();
                let mut new_all: Vec<u64> = vec![];
                let mut new_nt: Vec<u64> = vec![];
                for_each_case(seed, unit, |no, base_len, dev| {
                    if no < skip {
                        return true;
                    }
                    prog.set(ui as u64 + 1, no);
                    dev.apply(&seed.data[..base_len], &mut buf);
                    evals += 1;
                    match run_case(seed, &buf, &cfg, &b, &mut ignored) {
                        Ok(o) => {
                            calls += o.calls;
                            ok += o.read_ok as u64;
                            nt += o.nontrivial as u64;
                            horizon += o.horizon_hit as u64;
                            let fresh = unit_seen.insert(o.class);
                            // thorough: every k=1 case of table/file/static seeds; otherwise the first case of
                            // each new outcome class within the unit
                            let every = b.purity_every_case && seed.class != "zero" && matches!(unit.kind, UnitKind::K1 { lo, .. } if lo < 4096);
                            // enumerating synth drivers (pos_limit == 0: sparse-bit-set family incl. the ~1 s giants)
                            // are not re-walked: four executions of a giant would exceed the watchdog on a busy machine
                            let enumerating = seed.class == "synth" && seed.pos_limit == 0;
                            if cfg.mode == Mode::C01 && (every || fresh) && !enumerating {
                                purity_n += 1;
                                if let Some((k, id, what)) = purity(unit.seed, seed, &buf, o.digest, &cfg, &b, &helper) {
                                    let v = json!({"kind": k, "identity": id, "what": what, "unit": ui, "case": no});
                                    writeln!(out, "V\t{}", v).unwrap();
                                }
                            }
                            if sent_all.insert(o.digest) {
                                new_all.push(o.digest);
                            }
                            if o.nontrivial && sent_nt.insert(o.digest) {
                                new_nt.push(o.digest);
                            }
                        }
                        Err((k, id, what)) => {
                            let v = json!({"kind": k, "identity": id, "what": what, "unit": ui, "case": no});
                            writeln!(out, "V\t{}", v).unwrap();
                        }
                    }
                    true
                });
                prog.set(0, 0);
                let st = crate::extarg::take_stats();
                if !st.is_empty() {
                    // external-argument family: per-API call counts and oracle applications of this unit
                    writeln!(out, "S\t{}", json!(st)).unwrap();
                }
                writeln!(
                    out,
                    "R\t{}\t{}\t{}\t{}\t{}\t{}\t{}\t{}\t{}\t{}",
                    ui, evals, calls, ok, nt, ignored, horizon, purity_n, hex16(&new_all), hex16(&new_nt)
                )
                .unwrap();
                out.flush().unwrap();
            }
            "X" => {
                // explicit case (replay): X \t seed_idx \t base_len \t dev-json
                let si: usize = parts[1].parse().unwrap();
                let base_len: usize = parts[2].parse().unwrap();
                let dev = Dev::from_json(&serde_json::from_str::<Value>(parts[3]).unwrap()).unwrap();
                let seed = &seeds[si];
                prog.set(u64::MAX, 0);
                dev.apply(&seed.data[..base_len.min(seed.data.len())], &mut buf);
                let mut ignored = 0;
                match run_case(seed, &buf, &cfg, &b, &mut ignored) {
                    Ok(o) => {
                        let mut found = None;
                        if cfg.mode == Mode::C01 && !(seed.class == "synth" && seed.pos_limit == 0) {
                            found = purity(si, seed, &buf, o.digest, &cfg, &b, &helper);
                        }
                        match found {
                            Some((k, id, what)) => writeln!(out, "V\t{}", json!({"kind": k, "identity": id, "what": what, "unit": 0, "case": 0})).unwrap(),
                            None => writeln!(out, "OK\t{:016x}\t{}\t{}", o.digest, o.calls, ignored).unwrap(),
                        }
                    }
                    Err((k, id, what)) => writeln!(out, "V\t{}", json!({"kind": k, "identity": id, "what": what, "unit": 0, "case": 0})).unwrap(),
                }
                prog.set(0, 0);
                writeln!(out, "R\t0\t1\t0\t0\t0\t0\t0\t0\t\t").unwrap();
                out.flush().unwrap();
            }
            "Q" => break,
            _ => {}
        }
    }
    let _ = out.flush();
    std::process::exit(0);
}

// ------------------------------------------------------------------------------------------
// supervisor
// ------------------------------------------------------------------------------------------

struct Slot {
    child: Child,
    stdin: std::process::ChildStdin,
    reader: BufReader<std::process::ChildStdout>,
    prog: Arc<Progress>,
}

fn load_seeds() -> Option<(Vec<Seed>, SeedStats)> {
    let path = std::env::var("VERIF_SEEDS").ok()?;
    let b = std::fs::read(path).ok()?;
    crate::seeds::deserialize(&b)
}

/// Build the seed list in a supervised child (the pristine corpus is parsed by the code under test).
/// Err((kind, what)) when the child hangs, aborts or fails.
fn plan_in_child(tier: Tier, seeds_path: &std::path::Path) -> Result<(Vec<Seed>, SeedStats), (String, String)> {
    let exe = std::env::current_exe().map_err(|e| ("machinery".to_string(), e.to_string()))?;
    let mut child = Command::new(exe)
        .env("VERIF_WORKER", "plan")
        .env("VERIF_TIER", tier.name())
        .env("VERIF_SEEDS", seeds_path)
        .stdin(Stdio::null())
        .stdout(Stdio::null())
        .stderr(Stdio::piped())
        .spawn()
        .map_err(|e| ("machinery".to_string(), e.to_string()))?;
    let t0 = Instant::now();
    loop {
        match child.try_wait() {
            Ok(Some(st)) => {
                if st.success() {
                    break;
                }
                let mut err = String::new();
                if let Some(mut e) = child.stderr.take() {
                    use std::io::Read;
                    let _ = e.read_to_string(&mut err);
                }
                return Err((death_kind(st, false), err.chars().take(400).collect()));
            }
            Ok(None) => {
                if t0.elapsed().as_secs_f64() > 90.0 {
                    let _ = child.kill();
                    let _ = child.wait();
                    return Err(("timeout".into(), "seed construction did not finish within 90 s".into()));
                }
                std::thread::sleep(Duration::from_millis(10));
            }
            Err(e) => return Err(("machinery".into(), e.to_string())),
        }
    }
    let b = std::fs::read(seeds_path).map_err(|e| ("machinery".to_string(), e.to_string()))?;
    crate::seeds::deserialize(&b).ok_or(("machinery".to_string(), "seed file does not parse".to_string()))
}

fn spawn_worker(idx: usize, tier: Tier, dir: &std::path::Path, prog: Arc<Progress>, pid_cell: &AtomicI32) -> std::io::Result<Slot> {
    let exe = std::env::current_exe()?;
    let path = dir.join(format!("w{idx}.progress"));
    prog.set(0, 0);
    let mut child = Command::new(exe)
        .env("VERIF_WORKER", "1")
        .env("VERIF_TIER", tier.name())
        .env("VERIF_PROGRESS", &path)
        .env("VERIF_SEEDS", dir.join("seeds.bin"))
        .stdin(Stdio::piped())
        .stdout(Stdio::piped())
        .stderr(Stdio::null())
        .spawn()?;
    pid_cell.store(child.id() as i32, Ordering::SeqCst);
    let stdin = child.stdin.take().unwrap();
    let reader = BufReader::with_capacity(1 << 20, child.stdout.take().unwrap());
    Ok(Slot { child, stdin, reader, prog })
}

#[derive(Clone, Debug)]
pub struct ViolationRec {
    pub unit: usize,
    pub case: u64,
    pub kind: String,
    pub identity: String,
    pub what: String,
}

#[derive(Default)]
struct Totals {
    evals: u64,
    calls: u64,
    ok: u64,
    nt_cases: u64,
    ignored: u64,
    horizon: u64,
    purity: u64,
    restarts: u64,
    abandoned: u64,
    skipped_synth: u64,
    unconfirmed: u64,
    all: HashSet<u64>,
    nt: HashSet<u64>,
    violations: Vec<ViolationRec>,
    units_done: usize,
    by_class: BTreeMap<String, u64>,
    ok_by_type: BTreeMap<usize, u64>,
    extarg: BTreeMap<String, u64>,
    machinery: Option<String>,
}

fn death_kind(status: std::process::ExitStatus, killed: bool) -> String {
    use std::os::unix::process::ExitStatusExt;
    if killed {
        return "timeout".into();
    }
    match status.signal() {
        Some(libc::SIGSEGV) | Some(libc::SIGBUS) => "stack-overflow-or-segv".into(),
        Some(libc::SIGABRT) => "abort".into(),
        Some(s) => format!("signal-{s}"),
        None => format!("exit-{}", status.code().unwrap_or(-1)),
    }
}

/// Drive `units` (indices into plan.units) or explicit X commands through the worker pool.
fn work_dir(run: &Run) -> std::path::PathBuf {
    let dir = std::env::temp_dir().join(format!("verif-{}-{}", run.property.to_lowercase(), std::process::id()));
    let _ = std::fs::create_dir_all(&dir);
    dir
}

fn supervise(plan: &Plan, tier: Tier, b: &Bounds, explicit: Option<Vec<String>>, run: &Run) -> Totals {
    let dir = work_dir(run);
    let n_units = explicit.as_ref().map(|e| e.len()).unwrap_or(plan.units.len());
    let next = AtomicUsize::new(0);
    let totals = Mutex::new(Totals::default());
    let workers = if explicit.is_some() { 1 } else { b.workers };
    // deadlines are measured from the start of the run (planning and start-up included)
    let start = Instant::now() - Duration::from_secs_f64(run.elapsed());
    let deadline_hit = AtomicBool::new(false);
    let hard_stop = AtomicBool::new(false);
    let done = AtomicBool::new(false);
    // per-slot shared state for the watchdog
    let pids: Vec<AtomicI32> = (0..workers).map(|_| AtomicI32::new(0)).collect();
    let busy: Vec<AtomicBool> = (0..workers).map(|_| AtomicBool::new(false)).collect();
    let killed: Vec<AtomicBool> = (0..workers).map(|_| AtomicBool::new(false)).collect();
    let wd_factor: Vec<AtomicU64> = (0..workers).map(|_| AtomicU64::new(1)).collect();
    let deaths_by_target: Mutex<BTreeMap<String, u32>> = Mutex::new(BTreeMap::new());
    let progs: Vec<Arc<Progress>> = (0..workers)
        .map(|i| Arc::new(Progress::open(&dir.join(format!("w{i}.progress"))).expect("progress file")))
        .collect();

    std::thread::scope(|sc| {
        // watchdog
        sc.spawn(|| {
            let mut last: Vec<(u64, Instant)> = (0..workers).map(|_| (u64::MAX, Instant::now())).collect();
            while !done.load(Ordering::SeqCst) {
                std::thread::sleep(Duration::from_millis(25));
                if explicit.is_none() && start.elapsed().as_secs_f64() > b.deadline_s + 8.0 && !hard_stop.swap(true, Ordering::SeqCst) {
                    // hard stop: units still running 8 s after the deadline are cut (a cap, not a verdict)
                    for i in 0..workers {
                        let pid = pids[i].load(Ordering::SeqCst);
                        if pid > 0 {
                            // SAFETY: plain kill(2) on our own children
                            unsafe {
                                libc::kill(pid, libc::SIGKILL);
                            }
                        }
                    }
                }
                for i in 0..workers {
                    if !busy[i].load(Ordering::SeqCst) {
                        last[i] = (u64::MAX, Instant::now());
                        continue;
                    }
                    let (_u, _c, seq) = progs[i].get();
                    if seq != last[i].0 {
                        last[i] = (seq, Instant::now());
                    } else if last[i].1.elapsed().as_secs_f64() > b.watchdog_s * wd_factor[i].load(Ordering::SeqCst) as f64 {
                        let pid = pids[i].load(Ordering::SeqCst);
                        if pid > 0 && !killed[i].swap(true, Ordering::SeqCst) {
                            // SAFETY: plain kill(2) on our own child
                            unsafe {
                                libc::kill(pid, libc::SIGKILL);
                            }
                        }
                        last[i] = (u64::MAX, Instant::now());
                    }
                }
            }
        });
        let mut handles = vec![];
        for wi in 0..workers {
            let (next, totals, pids, busy, killed, progs, dir, explicit, deadline_hit, hard_stop, wd_factor, deaths_by_target) =
                (&next, &totals, &pids, &busy, &killed, &progs, &dir, &explicit, &deadline_hit, &hard_stop, &wd_factor, &deaths_by_target);
            handles.push(sc.spawn(move || {
                let mut local = Totals::default();
                let mut slot: Option<Slot> = None;
                let mut pending: Option<(usize, u64)> = None; // (unit, skip) to resume after a death
                let mut unit_deaths: BTreeMap<usize, u32> = BTreeMap::new();
                'outer: loop {
                    // (re)start the worker when needed
                    if slot.is_none() && hard_stop.load(Ordering::SeqCst) {
                        break 'outer;
                    }
                    if slot.is_none() {
                        match spawn_worker(wi, tier, dir, progs[wi].clone(), &pids[wi]) {
                            Ok(mut s) => {
                                let mut line = String::new();
                                match s.reader.read_line(&mut line) {
                                    Ok(n) if n > 0 && line.starts_with("READY") => slot = Some(s),
                                    _ => {
                                        local.machinery = Some("worker did not start (no READY line)".into());
                                        let _ = s.child.kill();
                                        let _ = s.child.wait();
                                        break 'outer;
                                    }
                                }
                            }
                            Err(e) => {
                                local.machinery = Some(format!("cannot spawn worker: {e}"));
                                break 'outer;
                            }
                        }
                    }
                    let (ui, skip) = match pending.take() {
                        Some(p) => p,
                        None => {
                            if start.elapsed().as_secs_f64() > b.deadline_s {
                                deadline_hit.store(true, Ordering::SeqCst);
                                break 'outer;
                            }
                            let i = next.fetch_add(1, Ordering::SeqCst);
                            if i >= n_units {
                                break 'outer;
                            }
                            if explicit.is_none() {
                                // a synthesised family whose target already killed 24 workers is not run further:
                                // the defect is reported, more deaths only cost restarts (reported as a cap)
                                let sd = &plan.seeds[plan.units[i].seed];
                                if sd.class == "synth" && deaths_by_target.lock().unwrap().get(&sd.target_name()).copied().unwrap_or(0) >= 24 {
                                    local.skipped_synth += 1;
                                    continue 'outer;
                                }
                            }
                            (i, 0)
                        }
                    };
                    let s = slot.as_mut().unwrap();
                    let cmd = match explicit {
                        Some(x) => format!("{}\n", x[ui]),
                        None => format!("U\t{}\t{}\n", ui, skip),
                    };
                    killed[wi].store(false, Ordering::SeqCst);
                    busy[wi].store(true, Ordering::SeqCst);
                    let sent = s.stdin.write_all(cmd.as_bytes()).and_then(|_| s.stdin.flush());
                    let mut finished = false;
                    if sent.is_ok() {
                        let mut line = String::new();
                        loop {
                            line.clear();
                            match s.reader.read_line(&mut line) {
                                Ok(0) | Err(_) => break,
                                Ok(_) => {}
                            }
                            let l = line.trim_end_matches('\n');
                            if let Some(rest) = l.strip_prefix("V\t") {
                                if let Ok(v) = serde_json::from_str::<Value>(rest) {
                                    local.violations.push(ViolationRec {
                                        unit: ui,
                                        case: v["case"].as_u64().unwrap_or(0),
                                        kind: v["kind"].as_str().unwrap_or("").into(),
                                        identity: v["identity"].as_str().unwrap_or("").into(),
                                        what: v["what"].as_str().unwrap_or("").into(),
                                    });
                                }
                            } else if let Some(rest) = l.strip_prefix("S\t") {
                                if let Ok(Value::Object(m)) = serde_json::from_str::<Value>(rest) {
                                    for (k, v) in m {
                                        *local.extarg.entry(k).or_insert(0) += v.as_u64().unwrap_or(0);
                                    }
                                }
                            } else if let Some(rest) = l.strip_prefix("OK\t") {
                                println!("replay: case returned, digest/calls/ignored_panics = {}", rest.replace('\t', " "));
                            } else if let Some(rest) = l.strip_prefix("R\t") {
                                let p: Vec<&str> = rest.split('\t').collect();
                                let g = |i: usize| p.get(i).and_then(|s| s.parse::<u64>().ok()).unwrap_or(0);
                                local.evals += g(1);
                                local.calls += g(2);
                                local.ok += g(3);
                                local.nt_cases += g(4);
                                local.ignored += g(5);
                                local.horizon += g(6);
                                local.purity += g(7);
                                local.all.extend(unhex16(p.get(8).unwrap_or(&"")));
                                local.nt.extend(unhex16(p.get(9).unwrap_or(&"")));
                                local.units_done += 1;
                                if explicit.is_none() {
                                    let cls = plan.seeds[plan.units[ui].seed].class;
                                    let k = match plan.units[ui].kind {
                                        UnitKind::K2 { .. } => format!("cases_{}_k2", cls),
                                        _ => format!("cases_{}_k1", cls),
                                    };
                                    *local.by_class.entry(k).or_insert(0) += g(1);
                                    if let Some(t) = plan.seeds[plan.units[ui].seed].ty {
                                        *local.ok_by_type.entry(t).or_insert(0) += g(3);
                                    }
                                }
                                finished = true;
                                break;
                            }
                        }
                    }
                    busy[wi].store(false, Ordering::SeqCst);
                    if !finished && hard_stop.load(Ordering::SeqCst) {
                        let mut s = slot.take().unwrap();
                        let _ = s.child.kill();
                        let _ = s.child.wait();
                        local.abandoned += 1;
                        deadline_hit.store(true, Ordering::SeqCst);
                        break 'outer;
                    }
                    if !finished {
                        // the worker died (or was killed by the watchdog) with a case in flight
                        let mut s = slot.take().unwrap();
                        let (pu, pc, _) = s.prog.get();
                        let was_killed = killed[wi].load(Ordering::SeqCst);
                        let _ = s.child.kill();
                        let status = s.child.wait();
                        let kind = status.map(|st| death_kind(st, was_killed)).unwrap_or_else(|_| "unknown".into());
                        local.restarts += 1;
                        eprintln!("[supervisor] worker {wi} ended with `{kind}` at unit {ui} case {pc} (progress unit {pu}); restart #{}", local.restarts);
                        let in_flight_ok = explicit.is_some() || pu == ui as u64 + 1;
                        if !in_flight_ok && was_killed && local.restarts < 50 {
                            // the watchdog's kill raced with the end of a unit (possible only when the machine
                            // is so overloaded that a worker stalls for a whole watchdog period): nothing was in
                            // flight, so simply run the unit again from its start
                            eprintln!("[supervisor] watchdog kill of worker {wi} raced with a unit boundary; re-running unit {ui}");
                            local.unconfirmed += 1;
                            pending = Some((ui, 0));
                            continue 'outer;
                        }
                        if !in_flight_ok {
                            local.machinery = Some(format!(
                                "worker {wi} died ({kind}) outside a case (progress unit {pu}, expected {})",
                                ui + 1
                            ));
                            break 'outer;
                        }
                        // A watchdog timeout is wall-clock based; on an overloaded machine a healthy case can
                        // be starved. Confirm it: re-execute exactly that case alone in a fresh worker with
                        // three times the watchdog period. Only a second timeout is a violation.
                        let mut confirmed = true;
                        if kind == "timeout" && explicit.is_none() {
                            if let Some((bl, dev)) = case_of(plan, ui, pc) {
                                if let Ok(mut s2) = spawn_worker(wi, tier, dir, progs[wi].clone(), &pids[wi]) {
                                    let mut line = String::new();
                                    let ready = matches!(s2.reader.read_line(&mut line), Ok(n) if n > 0 && line.starts_with("READY"));
                                    if ready {
                                        let cmd = format!("X\t{}\t{}\t{}\n", plan.units[ui].seed, bl, dev.to_json());
                                        wd_factor[wi].store(3, Ordering::SeqCst);
                                        killed[wi].store(false, Ordering::SeqCst);
                                        busy[wi].store(true, Ordering::SeqCst);
                                        let _ = s2.stdin.write_all(cmd.as_bytes()).and_then(|_| s2.stdin.flush());
                                        loop {
                                            line.clear();
                                            match s2.reader.read_line(&mut line) {
                                                Ok(0) | Err(_) => break,
                                                Ok(_) => {}
                                            }
                                            if let Some(rest) = line.trim_end_matches('\n').strip_prefix("V\t") {
                                                if let Ok(v) = serde_json::from_str::<Value>(rest) {
                                                    local.violations.push(ViolationRec {
                                                        unit: ui,
                                                        case: pc,
                                                        kind: v["kind"].as_str().unwrap_or("").into(),
                                                        identity: v["identity"].as_str().unwrap_or("").into(),
                                                        what: v["what"].as_str().unwrap_or("").into(),
                                                    });
                                                }
                                            } else if line.starts_with("R\t") {
                                                confirmed = false;
                                                break;
                                            }
                                        }
                                        busy[wi].store(false, Ordering::SeqCst);
                                        wd_factor[wi].store(1, Ordering::SeqCst);
                                    }
                                    if confirmed {
                                        let _ = s2.child.kill();
                                        let _ = s2.child.wait();
                                    } else {
                                        slot = Some(s2);
                                        local.unconfirmed += 1;
                                        eprintln!("[supervisor] timeout at unit {ui} case {pc} NOT confirmed on re-execution (machine overload); not a violation");
                                    }
                                }
                            }
                        }
                        if confirmed {
                            local.violations.push(ViolationRec {
                                unit: ui,
                                case: pc,
                                kind: kind.clone(),
                                identity: String::new(), // filled in by the caller (needs the seed)
                                what: format!("worker process ended with `{kind}` while this case was in flight{}", if kind == "timeout" { " (confirmed by a second, isolated execution with 3x the watchdog period)" } else { "" }),
                            });
                        }
                        // resume the unit after the fatal case — at most 3 deaths per unit and never past the
                        // deadline (each timeout costs a full watchdog period)
                        let deaths = unit_deaths.entry(ui).or_insert(0u32);
                        *deaths += 1;
                        if explicit.is_none() {
                            if *deaths < 3 && start.elapsed().as_secs_f64() < b.deadline_s {
                                pending = Some((ui, pc + 1));
                            } else {
                                local.abandoned += 1;
                            }
                        }
                        if explicit.is_none() {
                            let sd = &plan.seeds[plan.units[ui].seed];
                            *deaths_by_target.lock().unwrap().entry(sd.target_name()).or_insert(0) += 1;
                        }
                        if local.restarts > 2000 {
                            local.machinery = Some("more than 2000 worker restarts in one slot".into());
                            break 'outer;
                        }
                    }
                }
                if let Some(mut s) = slot.take() {
                    let _ = s.stdin.write_all(b"Q\n");
                    drop(s.stdin);
                    let _ = s.child.wait();
                }
                let mut t = totals.lock().unwrap();
                t.evals += local.evals;
                t.calls += local.calls;
                t.ok += local.ok;
                t.nt_cases += local.nt_cases;
                t.ignored += local.ignored;
                t.horizon += local.horizon;
                t.purity += local.purity;
                t.restarts += local.restarts;
                t.abandoned += local.abandoned;
                t.skipped_synth += local.skipped_synth;
                t.unconfirmed += local.unconfirmed;
                t.units_done += local.units_done;
                t.all.extend(local.all);
                t.nt.extend(local.nt);
                t.violations.extend(local.violations);
                for (k, v) in local.by_class {
                    *t.by_class.entry(k).or_insert(0) += v;
                }
                for (k, v) in local.ok_by_type {
                    *t.ok_by_type.entry(k).or_insert(0) += v;
                }
                for (k, v) in local.extarg {
                    *t.extarg.entry(k).or_insert(0) += v;
                }
                if t.machinery.is_none() {
                    t.machinery = local.machinery;
                }
            }));
        }
        for h in handles {
            let _ = h.join();
        }
        done.store(true, Ordering::SeqCst);
    });
    let mut t = totals.into_inner().unwrap();
    if deadline_hit.load(Ordering::SeqCst) {
        run.cap_hit(&format!(
            "deadline of {:.0} s reached: {} of {} units executed (units are taken in plan order)",
            b.deadline_s, t.units_done, n_units
        ));
    }
    if t.skipped_synth > 0 {
        run.cap_hit(&format!("{} synthesised-family units were skipped after their target had already killed 24 workers (the defect is reported; further deaths only cost restarts)", t.skipped_synth));
    }
    if t.abandoned > 0 {
        run.cap_hit(&format!("{} work units were cut short (3 worker deaths in the unit, a death past the deadline, or the hard stop 8 s after the deadline); their remaining cases were not executed", t.abandoned));
    }
    t.violations.sort_by(|a, b| (a.unit, a.case, &a.identity).cmp(&(b.unit, b.case, &b.identity)));
    t
}

fn case_of(plan: &Plan, unit: usize, case_no: u64) -> Option<(usize, Dev)> {
    let u = &plan.units[unit];
    let seed = &plan.seeds[u.seed];
    let mut found = None;
    for_each_case(seed, u, |no, base_len, dev| {
        if no == case_no {
            found = Some((base_len, dev));
            false
        } else {
            true
        }
    });
    found
}

fn replay_json(plan: &Plan, seed_idx: usize, base_len: usize, dev: &Dev) -> Value {
    let seed = &plan.seeds[seed_idx];
    let mut buf = vec![];
    dev.apply(&seed.data[..base_len.min(seed.data.len())], &mut buf);
    let mut v = json!({
        "seed": seed.name,
        "target": seed.target_name(),
        "args": seed.args,
        "base_len": base_len,
        "dev": dev.to_json(),
        "len": buf.len(),
        "ctx_lens": seed.ctx.iter().map(|c| c.len()).collect::<Vec<_>>(),
    });
    if buf.len() <= 4096 {
        v["hex"] = json!(vcore::hex(&buf));
    }
    v
}

/// The body shared by the C01 and C20 binaries.
pub fn engine_body(run: &Run, replay: Option<&Value>, cfg: &EngineConfig) {
    let tier = run.tier;
    let b = bounds_for(tier, cfg.mode);
    run.rule("a case = (seed, deviation): the seed bytes with one (k=1) or two (k=2) atomic deviations applied, read as the seed's own type and walked through every field/offset/array element, then passed to the typed drivers; distinct = distinct observation digests; non-trivial = the top-level read succeeded and exposed >= 2 fields (driver-only targets: the driver made >= 16 accessor calls)");
    run.assume("the worker process boundary, the kernel (mmap, pipes, SIGKILL) and vcore::guard are trusted; a visit horizon and iterator step caps bound each walk, so a watchdog timeout means one library call did not return");
    run.assume("seeds are the in-repo corpus (font-test-data ttf/ttc, klippa test fonts), font-test-data static blobs and all-zero buffers; X2-compiled seeds (DESIGN 2.4 iii) are not included");
    if cfg.mode == Mode::C20 {
        run.assume("C20 classifier: only panics whose payload is an arithmetic overflow / 'attempt to ...' / assertion failure count; other panics are ignored here (C01/C02 judge them in release builds)");
    }
    let dir = work_dir(run);
    struct Cleanup(std::path::PathBuf);
    impl Drop for Cleanup {
        fn drop(&mut self) {
            let _ = std::fs::remove_dir_all(&self.0);
        }
    }
    let _cleanup = Cleanup(dir.clone());
    let (seeds, stats) = match plan_in_child(tier, &dir.join("seeds.bin")) {
        Ok(x) => x,
        Err((kind, what)) if kind == "machinery" => {
            run.machinery_error(&format!("seed construction child: {what}"));
            return;
        }
        Err((kind, what)) => {
            // parsing the pristine corpus / static blobs with the code under test hung or aborted
            if cfg.mode == Mode::C01 || what.contains("attempt to") || what.contains("overflow") || what.contains("assertion") {
                run.violation(
                    &format!("{kind} seed-construction (pristine corpus parse)"),
                    &format!("building the seed list (FontRef/table reads of the unmodified corpus and static blobs) ended with `{kind}`: {what}"),
                    json!({"seed": "<seed construction>", "dev": [{"k": "none"}]}),
                );
                run.eval();
                run.observe(1, true);
                run.observe(2, true);
                run.sample(json!({"seed": "<seed construction>"}));
            } else {
                run.machinery_error(&format!("seed construction child failed: {kind}: {what}"));
            }
            return;
        }
    };
    let plan = make_plan(tier, cfg.mode, cfg, seeds, stats);

    if let Ok(uc) = std::env::var("C01_CASE") {
        // development aid: print the replay case of "<unit>:<case>" and stop
        if let Some((u, c)) = uc.split_once(':') {
            if let (Ok(u), Ok(c)) = (u.parse::<usize>(), c.parse::<u64>()) {
                if let Some((bl, dev)) = case_of(&plan, u, c) {
                    println!("{}", json!({"case": replay_json(&plan, plan.units[u].seed, bl, &dev)}));
                }
            }
        }
        return;
    }
    if let Some(case) = replay {
        let name = case["seed"].as_str().unwrap_or("");
        let Some(si) = plan.seeds.iter().position(|s| s.name == name) else {
            run.machinery_error(&format!("replay: seed `{name}` not found in the seed list"));
            return;
        };
        let Some(dev) = Dev::from_json(&case["dev"]) else {
            run.machinery_error("replay: cannot parse deviation");
            return;
        };
        let base_len = case["base_len"].as_u64().unwrap_or(plan.seeds[si].data.len() as u64) as usize;
        if let Some(h) = case["hex"].as_str() {
            let mut buf = vec![];
            dev.apply(&plan.seeds[si].data[..base_len.min(plan.seeds[si].data.len())], &mut buf);
            if vcore::hex(&buf) != h {
                run.machinery_error("replay: recorded bytes differ from seed+deviation (corpus changed?)");
                return;
            }
        }
        // vcore::Run::violation writes replays/<id>/<n>.json even in replay mode, which would overwrite
        // the recorded files of the last sweep: divert those writes into the scratch directory
        std::env::set_var("VERIF_ROOT", &dir);
        let cmd = format!("X\t{}\t{}\t{}", si, base_len, dev.to_json());
        let t = supervise(&plan, tier, &b, Some(vec![cmd]), run);
        if let Some(m) = &t.machinery {
            run.machinery_error(m);
        }
        for v in &t.violations {
            let id = if v.identity.is_empty() {
                format!("{} [{}]", v.kind, plan.seeds[si].target_name())
            } else {
                v.identity.clone()
            };
            run.violation(&id, &v.what, replay_json(&plan, si, base_len, &dev));
        }
        return;
    }

    // ---- bounds and sub-space sizes --------------------------------------------------------
    run.bound("workers", json!(b.workers));
    run.bound("watchdog_s_per_case", json!(b.watchdog_s));
    run.bound("walker_horizon_nodes", json!(b.horizon));
    run.bound("walker_max_depth", json!(b.max_depth));
    run.bound("k1_position_cap", json!(b.k1_pos_cap));
    run.bound("k1_seed_size_cap", json!(if b.k1_seed_cap == usize::MAX { json!("none") } else { json!(b.k1_seed_cap) }));
    run.bound("k2_seed_len_max", json!(b.k2_len));
    run.bound("k2_seeds_per_target", json!(b.k2_seeds_per_type));
    run.bound("zero_buffer_lengths", json!(format!("0..={}", b.zero_len)));
    run.bound("byte_alphabet", json!(["00", "01", "02", "7F", "80", "FF"]));
    run.bound("u16_alphabet", json!(format!("0,1,0x7FFF,0x8000,0xFFFF,n-2,n-1,n,n+1,pos,pos+1,pos+2 at every {} position", if tier == Tier::Thorough { "(even and odd)" } else { "even" })));
    run.bound("u32_alphabet", json!("n-1,n,n+1,0x7FFFFFFF,0x80000000,0xFFFFFFFF at every even position"));
    run.bound("extensions", json!("{1,2,4} bytes of 00 / FF"));
    run.bound("external_argument_family", crate::extarg::describe());
    run.bound("aat_synthetic_family", json!(crate::aatsynth::describe()));
    run.bound("purity", json!(if b.purity_every_case { "every k=1 case at positions < 4096 of table/file/static seeds; other cases: first case of each work unit producing each new outcome class" } else { "first case of each work unit producing each new outcome class (read ok?, root field count, log2(accessor calls), error count)" }));
    let mut n_by_class: BTreeMap<&str, u64> = BTreeMap::new();
    for s in &plan.seeds {
        *n_by_class.entry(s.class).or_insert(0) += 1;
    }
    for (k, v) in &n_by_class {
        run.count(&format!("seeds_{k}"), *v);
    }
    run.count("seeds_k2", plan.k2_seeds as u64);
    run.count("registry_types", crate::registry::TYPES.len() as u64);
    run.count("typed_drivers", (drivers::DRIVERS.len() + cfg.extra.len()) as u64);
    run.count("corpus_fonts", plan.stats.fonts as u64);
    run.count("corpus_tables_seen", plan.stats.tables_seen as u64);
    run.count("seed_duplicates_dropped", plan.stats.duplicates_dropped as u64);
    run.count("static_fit_matrix_reads", plan.stats.static_fit_tried);
    run.count("units", plan.units.len() as u64);
    run.extra("types_skipped", json!(crate::registry::TYPES_SKIPPED.iter().map(|(n, w)| format!("{n}: {w}")).collect::<Vec<_>>()));
    run.extra("corpus_tags_without_type_or_driver", json!(plan.stats.tables_without_target));
    run.extra("static_blobs", json!(crate::registry::STATIC_BLOBS.iter().map(|(n, _)| *n).collect::<Vec<_>>()));
    run.extra("typed_driver_names", json!(drivers::DRIVERS.iter().map(|d| d.name).chain(cfg.extra.iter().map(|e| e.name)).collect::<Vec<_>>()));
    run.extra("helpers_not_covered", json!(NOT_COVERED));
    for c in &plan.caps {
        run.cap_hit(c);
    }

    // ---- the sweep ------------------------------------------------------------------------
    let t = supervise(&plan, tier, &b, None, run);
    if let Some(m) = &t.machinery {
        run.machinery_error(m);
    }
    run.evals(t.evals);
    run.trans(t.calls);
    run.observe_many(&t.all, &t.nt);
    run.count("cases_read_ok", t.ok);
    run.count("cases_nontrivial", t.nt_cases);
    run.count("cases_horizon_hit", t.horizon);
    run.count("purity_rewalk_triples", t.purity);
    run.count("worker_restarts", t.restarts);
    run.count("timeouts_not_confirmed_on_reexecution", t.unconfirmed);
    run.count("units_done", t.units_done as u64);
    if cfg.mode == Mode::C20 {
        run.count("non_arithmetic_panics_ignored", t.ignored);
    }
    for (k, v) in &t.by_class {
        run.count(k, *v);
    }
    // external-argument boundary family: measured per-API call counts ("extarg.<api>") and applications of each
    // agreement oracle ("extarg.agree.<oracle>")
    let apis = t.extarg.keys().filter(|k| !k.starts_with("agree.")).count() as u64;
    run.count("extarg_apis_called", apis);
    run.count("extarg_api_calls", t.extarg.iter().filter(|(k, _)| !k.starts_with("agree.")).map(|(_, v)| *v).sum());
    run.count("extarg_agreement_checks", t.extarg.iter().filter(|(k, _)| k.starts_with("agree.")).map(|(_, v)| *v).sum());
    run.extra("extarg_calls_per_api", json!(t.extarg));
    // vacuity guard per registry type: which types were never read successfully *as the top-level
    // type of a case* (they may still be reached through offsets of other tables)
    let never: Vec<&str> = crate::registry::TYPES
        .iter()
        .enumerate()
        .filter(|(i, _)| t.ok_by_type.get(i).copied().unwrap_or(0) == 0)
        .map(|(_, t)| t.name)
        .collect();
    run.count("registry_types_read_ok_directly", (crate::registry::TYPES.len() - never.len()) as u64);
    run.extra("registry_types_never_read_ok_directly", json!(never));
    // samples: the first cases of the first table units
    for u in plan.units.iter().filter(|u| plan.seeds[u.seed].class == "table").take(3) {
        if let Some((bl, dev)) = case_of(&plan, plan.units.iter().position(|x| std::ptr::eq(x, u)).unwrap(), 7) {
            let mut v = replay_json(&plan, u.seed, bl, &dev);
            v.as_object_mut().unwrap().remove("hex");
            run.sample(v);
        }
    }
    // violations, in (unit, case) order so that the reported example per identity is deterministic
    let mut deaths_ignored = 0u64;
    for v in &t.violations {
        let u = &plan.units[v.unit];
        let seed = &plan.seeds[u.seed];
        if cfg.mode == Mode::C20 && v.identity.is_empty() {
            // timeouts / aborts are totality failures: C01/C02's verdict, only counted here
            deaths_ignored += 1;
            eprintln!("[C20] ignoring non-arithmetic worker death `{}` on seed {} (belongs to C01/C02)", v.kind, seed.name);
            continue;
        }
        let Some((bl, dev)) = case_of(&plan, v.unit, v.case) else {
            run.machinery_error(&format!("violation refers to case {} of unit {} which does not exist", v.case, v.unit));
            continue;
        };
        let id = if v.identity.is_empty() {
            format!("{} [{}]", v.kind, seed.target_name())
        } else {
            v.identity.clone()
        };
        run.violation(&id, &v.what, replay_json(&plan, u.seed, bl, &dev));
    }
    if cfg.mode == Mode::C20 {
        run.count("non_arithmetic_worker_deaths_ignored", deaths_ignored);
    }
}

/// hand-written helpers that no driver exercises yet (listed in the evidence)
pub const NOT_COVERED: &[&str] = &[
    "aat::{Lookup*, StateTable, ExtendedStateTable}: blob-level only (zero/static seeds); no corpus table and no top-level reader in read-fonts uses them except ankr",
    "TupleVariation::accumulate_{dense,sparse}_deltas: first 8 tuples of the first 48 glyphs, Fixed coordinates only (the F26Dot6/i32/f32 PointCoord instantiations are exercised by C02's skrifa drivers)",
    "postscript charstring evaluation beyond the first 96 charstrings of a table and with only the first private dict's local subrs",
    "varc::VarcComponent fields (no public accessors), MultiItemVariationStore delta application (no public API)",
    "ift: PatchMapFormat2 entry iteration and EntryData decoding live in incremental-font-transfer (C02 ift driver / C18 / C19)",
    "layout: at most 48 lookups x 4-6 subtables x 24 records per array are visited by the typed drivers (the generic walker visits all up to its horizon)",
    "os2/head/hhea/maxp/gasp/vorg/cpal/base/stat/meta: generated getters only (walker) apart from the listed helpers",
    "corpus tags without any reader in read-fonts (fed to FontRef::table_data only): DSIG, fpgm, prep, VDMX, FFTM, LTSH, kern",
    "collections::IntSet / sparse bit set (C14)",
    "X2-compiled seeds (write-fonts values) are not part of the seed list; k=3 on zero seeds is not enumerated",
];

/// Entry point for both binaries: dispatches to the worker loop when re-executed as a worker.
pub fn engine_main(cfg: EngineConfig) -> ! {
    if std::env::var("VERIF_WORKER").is_ok() {
        worker_main(cfg);
    }
    if std::env::var("C01_PROFILE").is_ok() {
        profile(&cfg);
    }
    if std::env::var("C01_EXTARG_DEV").is_ok() {
        extarg_dev(&cfg);
    }
    let property = cfg.property;
    vcore::main_for(property, move |run, replay| engine_body(run, replay, &cfg))
}

/// development aid: run only the external-argument family in-process (single thread), print every finding, the
/// slowest seeds and the per-API counters
fn extarg_dev(cfg: &EngineConfig) -> ! {
    install_fn_hook();
    let b = bounds_for(Tier::Quick, cfg.mode);
    let mut seeds = vec![];
    crate::extarg::extarg_seeds(&mut seeds);
    let mut rows: Vec<(f64, u64, String)> = vec![];
    let t_all = Instant::now();
    for s in &seeds {
        let mut ign = 0;
        let t0 = Instant::now();
        match run_case(s, &s.data, cfg, &b, &mut ign) {
            Ok(o) => rows.push((t0.elapsed().as_secs_f64(), o.calls, s.name.clone())),
            Err((k, id, what)) => println!("FOUND {k} | {id} | {what} | seed {}", s.name),
        }
    }
    rows.sort_by(|a, b| b.0.partial_cmp(&a.0).unwrap());
    for r in rows.iter().take(12) {
        println!("{:8.1} ms {:9} calls {}", r.0 * 1e3, r.1, r.2);
    }
    let st = crate::extarg::take_stats();
    for (k, v) in &st {
        println!("{v:10} {k}");
    }
    println!("seeds={} total {:.2}s apis={} calls={}", seeds.len(), t_all.elapsed().as_secs_f64(), st.keys().filter(|k| !k.starts_with("agree.")).count(), st.iter().filter(|(k, _)| !k.starts_with("agree.")).map(|(_, v)| *v).sum::<u64>());
    std::process::exit(0)
}

/// development aid: per-seed cost of the first unit (single thread), most expensive first
fn profile(cfg: &EngineConfig) -> ! {
    vcore::install_panic_hook();
    let tier = match std::env::var("VERIF_TIER").as_deref() {
        Ok("thorough") => Tier::Thorough,
        _ => Tier::Quick,
    };
    let b = bounds_for(tier, cfg.mode);
    let (seeds, st) = build_seeds(tier);
    let plan = make_plan(tier, cfg.mode, cfg, seeds, st);
    let mut rows: Vec<(f64, u64, u64, String, usize)> = vec![];
    let mut seen = HashSet::new();
    for u in &plan.units {
        let seed = &plan.seeds[u.seed];
        if seed.class == "zero" || seed.class == "static" || !seen.insert(u.seed) {
            continue;
        }
        let mut buf = vec![];
        let mut ign = 0;
        let t0 = Instant::now();
        let mut n = 0u64;
        let mut calls = 0u64;
        for_each_case(seed, u, |no, bl, dev| {
            dev.apply(&seed.data[..bl], &mut buf);
            if let Ok(o) = run_case(seed, &buf, cfg, &b, &mut ign) {
                calls += o.calls;
            }
            n += 1;
            no < 100
        });
        let dt = t0.elapsed().as_secs_f64();
        rows.push((dt / n as f64 * 1e6, calls / n.max(1), n, seed.name.clone(), seed.data.len()));
    }
    rows.sort_by(|a, b| b.0.partial_cmp(&a.0).unwrap());
    for r in rows.iter().take(60) {
        println!("{:10.1} us/case  {:9} calls/case  n={} len={} {}", r.0, r.1, r.2, r.4, r.3);
    }
    let tot: f64 = rows.iter().map(|r| r.0).sum();
    println!("seeds={} mean us/case={:.1}", rows.len(), tot / rows.len() as f64);
    std::process::exit(0)
}
