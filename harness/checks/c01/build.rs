//! Registry generator for C01 (DESIGN 3/C01 E.1).
//!
//! Scans `<repo>/read-fonts/generated/*.rs` for every type that implements `FontRead` or
//! `FontReadWithArgs` **and** `SomeTable` (or `SomeRecord`, which `traverse`s into a `SomeTable`) and
//! emits one constructor function per type into `$OUT_DIR/registry.rs`, plus the list of static byte
//! blobs exported by `font-test-data` (`pub static X: &[u8] = &[..]` and `pub fn x() -> BeBuffer`).
//!
//! The repository root is `$VERIF_REPO` or `/repo/` (tools/mutant_run.sh rewrites the literal).

use std::collections::{BTreeMap, BTreeSet};
use std::fmt::Write as _;
use std::path::PathBuf;

fn repo_root() -> PathBuf {
    std::env::var("VERIF_REPO")
        .map(PathBuf::from)
        .unwrap_or_else(|_| PathBuf::from("/repo/"))
}

#[derive(Default, Clone)]
struct Ty {
    lifetime: bool,
    font_read: bool,
    with_args: bool,
    args: Option<String>,
    some_table: bool,
    some_record: bool,
    record_lifetime: bool,
    tag: Option<String>,
    generic: bool,
}

/// `for Name<'a> {` / `for Name {` / `for Name<'a, T> {` → (name, has lifetime, generic)
fn parse_for(line: &str) -> Option<(String, bool, bool)> {
    let idx = line.find(" for ")?;
    let rest = line[idx + 5..].trim();
    let rest = rest.trim_end_matches('{').trim();
    let name: String = rest
        .chars()
        .take_while(|c| c.is_ascii_alphanumeric() || *c == '_')
        .collect();
    if name.is_empty() {
        return None;
    }
    let tail = &rest[name.len()..];
    let lifetime = tail.contains("'a") || tail.contains("'_");
    let generic = tail.contains(", T") || tail.contains("<T");
    Some((name, lifetime, generic))
}

/// conversion of the numeric triple `a: [u32; 3]` into the `Args` value of a given shape
fn arg_expr(shape: &str) -> Option<&'static str> {
    Some(match shape {
        "u16" => "(a[0] as u16)",
        "u32" => "(a[0])",
        "(u16, u16)" => "(a[0] as u16, a[1] as u16)",
        "(u16, u16, u16)" => "(a[0] as u16, a[1] as u16, a[2] as u16)",
        "(u16, ValueFormat, ValueFormat)" => "(a[0] as u16, read_fonts::tables::gpos::ValueFormat::from_bits_truncate(a[1] as u16), read_fonts::tables::gpos::ValueFormat::from_bits_truncate(a[2] as u16))",
        "(ValueFormat, ValueFormat)" => "(read_fonts::tables::gpos::ValueFormat::from_bits_truncate(a[0] as u16), read_fonts::tables::gpos::ValueFormat::from_bits_truncate(a[1] as u16))",
        "Offset32" => "(read_fonts::types::Offset32::new(a[0]))",
        "Tag" => "(read_fonts::types::Tag::from_be_bytes(a[0].to_be_bytes()))",
        "(Uint24, u16)" => "(read_fonts::types::Uint24::new(a[0] & 0xFF_FFFF), a[1] as u16)",
        "GlyphKeyedFlags" => "(read_fonts::tables::ift::GlyphKeyedFlags::from_bits_truncate(a[0] as u8))",
        "(GlyphId16, GlyphId16)" => "(read_fonts::types::GlyphId16::new(a[0] as u16), read_fonts::types::GlyphId16::new(a[1] as u16))",
        _ => return None,
    })
}

fn main() {
    let root = repo_root();
    let gen_dir = root.join("read-fonts/generated");
    println!("cargo:rerun-if-changed={}", gen_dir.display());
    println!("cargo:rerun-if-changed={}", root.join("font-test-data/src").display());
    println!("cargo:rerun-if-env-changed=VERIF_REPO");
    println!("cargo:rerun-if-changed=build.rs");

    let mut files: Vec<PathBuf> = std::fs::read_dir(&gen_dir)
        .expect("read generated dir")
        .flatten()
        .map(|e| e.path())
        .filter(|p| p.extension().map(|e| e == "rs").unwrap_or(false))
        .collect();
    files.sort();

    let mut out = String::new();
    let mut entries = String::new();
    let mut skipped: Vec<(String, String)> = vec![];
    let mut n_types = 0usize;
    let mut shapes: BTreeSet<String> = BTreeSet::new();

    for f in &files {
        println!("cargo:rerun-if-changed={}", f.display());
        let stem = f.file_stem().unwrap().to_string_lossy().to_string();
        let module = if stem == "font" {
            "read_fonts".to_string()
        } else if let Some(m) = stem.strip_prefix("generated_") {
            if m.starts_with("test_") {
                continue; // cfg(codegen_test) only
            }
            format!("read_fonts::tables::{m}")
        } else {
            continue;
        };
        let short = module.rsplit("::").next().unwrap().to_string();
        let src = std::fs::read_to_string(f).expect("read generated file");
        let lines: Vec<&str> = src.lines().collect();
        let mut tys: BTreeMap<String, Ty> = BTreeMap::new();
        for (i, l) in lines.iter().enumerate() {
            if !l.starts_with("impl") {
                continue;
            }
            let Some((name, lt, generic)) = parse_for(l) else { continue };
            let is = |pat: &str| l.contains(pat);
            let e = tys.entry(name.clone()).or_default();
            if is(" FontRead<'a> for ") {
                e.font_read = true;
                e.lifetime = lt;
                e.generic |= generic;
            } else if is(" FontReadWithArgs<'a> for ") {
                e.with_args = true;
                e.lifetime = lt;
                e.generic |= generic;
            } else if is("impl ReadArgs for ") {
                // next non-empty line: `type Args = ...;`
                for l2 in lines.iter().skip(i + 1).take(3) {
                    if let Some(p) = l2.find("type Args = ") {
                        let s = l2[p + 12..].trim().trim_end_matches(';').to_string();
                        e.args = Some(s);
                        break;
                    }
                }
            } else if is(" SomeTable<'a> for ") {
                e.some_table = true;
                e.generic |= generic;
            } else if is(" SomeRecord<'a> for ") {
                e.some_record = true;
                e.record_lifetime = lt;
            } else if is("impl TopLevelTable for ") {
                for l2 in lines.iter().skip(i + 1).take(4) {
                    if let Some(p) = l2.find("Tag::new(b\"") {
                        e.tag = Some(l2[p + 11..p + 15].to_string());
                        break;
                    }
                }
            }
        }
        for (name, t) in &tys {
            if !(t.font_read || t.with_args) {
                continue;
            }
            let full = format!("{short}::{name}");
            if t.generic {
                skipped.push((full, "generic over the subtable type; instantiated manually below".into()));
                continue;
            }
            if !(t.some_table || t.some_record) {
                skipped.push((full, "no SomeTable/SomeRecord impl".into()));
                continue;
            }
            let ty_path = if t.lifetime {
                format!("{module}::{name}<'_>")
            } else {
                format!("{module}::{name}")
            };
            let fn_name = format!("r_{}_{}", short, name);
            let (read_expr, shape) = if t.with_args {
                let shape = t.args.clone().unwrap_or_default();
                let Some(conv) = arg_expr(&shape) else {
                    skipped.push((full, format!("unknown ReadArgs shape `{shape}`")));
                    continue;
                };
                shapes.insert(shape.clone());
                (
                    format!("<{ty_path} as read_fonts::FontReadWithArgs>::read_with_args(fd, &{conv})"),
                    shape,
                )
            } else {
                (format!("<{ty_path} as read_fonts::FontRead>::read(fd)"), String::new())
            };
            let walk = if t.some_table {
                "w.root_table(&t);".to_string()
            } else {
                "let rr = read_fonts::traversal::SomeRecord::traverse(t, fd); w.root_table(&rr);".to_string()
            };
            writeln!(
                out,
                "#[allow(non_snake_case, unused_variables)]\nfn {fn_name}(data: &[u8], a: [u32; 3], w: &mut crate::walker::Walker) -> bool {{\n    let fd = read_fonts::FontData::new(data);\n    match {read_expr} {{\n        Ok(t) => {{ w.read_ok(); {walk} true }}\n        Err(e) => {{ w.read_err(&e); false }}\n    }}\n}}"
            )
            .unwrap();
            let tag = match &t.tag {
                Some(s) => {
                    let b = s.as_bytes();
                    format!("Some([{}, {}, {}, {}])", b[0], b[1], b[2], b[3])
                }
                None => "None".to_string(),
            };
            writeln!(
                entries,
                "    TypeEntry {{ name: \"{full}\", tag: {tag}, arg_shape: \"{shape}\", is_record: {}, read: {fn_name} }},",
                !t.some_table
            )
            .unwrap();
            n_types += 1;
        }
    }

    // Manual instantiations of the four generic generated types (typed lookup lists / lookups /
    // extension subtables), so that the registry reaches them directly as well.
    let manual: &[(&str, &str)] = &[
        ("gpos::PositionLookupList", "read_fonts::tables::gpos::PositionLookupList<'_>"),
        ("gsub::SubstitutionLookupList", "read_fonts::tables::gsub::SubstitutionLookupList<'_>"),
        ("gpos::PositionLookup", "read_fonts::tables::gpos::PositionLookup<'_>"),
        ("gsub::SubstitutionLookup", "read_fonts::tables::gsub::SubstitutionLookup<'_>"),
        ("layout::Lookup<SinglePos>", "read_fonts::tables::layout::Lookup<'_, read_fonts::tables::gpos::SinglePos<'_>>"),
        ("layout::Lookup<LigatureSubstFormat1>", "read_fonts::tables::layout::Lookup<'_, read_fonts::tables::gsub::LigatureSubstFormat1<'_>>"),
        ("gpos::ExtensionPosFormat1<PairPos>", "read_fonts::tables::gpos::ExtensionPosFormat1<'_, read_fonts::tables::gpos::PairPos<'_>>"),
        ("gsub::ExtensionSubstFormat1<SingleSubst>", "read_fonts::tables::gsub::ExtensionSubstFormat1<'_, read_fonts::tables::gsub::SingleSubst<'_>>"),
    ];
    for (k, (full, path)) in manual.iter().enumerate() {
        let fn_name = format!("r_manual_{k}");
        writeln!(
            out,
            "#[allow(unused_variables)]\nfn {fn_name}(data: &[u8], a: [u32; 3], w: &mut crate::walker::Walker) -> bool {{\n    let fd = read_fonts::FontData::new(data);\n    match <{path} as read_fonts::FontRead>::read(fd) {{\n        Ok(t) => {{ w.read_ok(); w.root_table(&t); true }}\n        Err(e) => {{ w.read_err(&e); false }}\n    }}\n}}"
        )
        .unwrap();
        writeln!(
            entries,
            "    TypeEntry {{ name: \"{full}\", tag: None, arg_shape: \"\", is_record: false, read: {fn_name} }},"
        )
        .unwrap();
        n_types += 1;
    }

    writeln!(out, "pub static TYPES: &[TypeEntry] = &[\n{entries}];").unwrap();
    writeln!(out, "pub static TYPES_SKIPPED: &[(&str, &str)] = &[").unwrap();
    for (n, why) in &skipped {
        writeln!(out, "    (\"{n}\", \"{why}\"),").unwrap();
    }
    writeln!(out, "];").unwrap();
    writeln!(out, "pub static ARG_SHAPES: &[&str] = &[").unwrap();
    for s in &shapes {
        writeln!(out, "    \"{s}\",").unwrap();
    }
    writeln!(out, "];").unwrap();
    let _ = n_types;

    // ---- font-test-data static blobs ------------------------------------------------------
    let ftd = root.join("font-test-data/src");
    let mut blob_files: Vec<PathBuf> = std::fs::read_dir(&ftd)
        .expect("font-test-data/src")
        .flatten()
        .map(|e| e.path())
        .filter(|p| p.extension().map(|e| e == "rs").unwrap_or(false))
        .collect();
    blob_files.sort();
    let mut blobs = String::new();
    for f in &blob_files {
        println!("cargo:rerun-if-changed={}", f.display());
        let stem = f.file_stem().unwrap().to_string_lossy().to_string();
        if stem == "lib" || stem == "bebuffer" {
            continue; // lib.rs only re-exports corpus files (include_bytes!), already seeds
        }
        let src = std::fs::read_to_string(f).unwrap();
        let lines: Vec<&str> = src.lines().collect();
        for (i, l) in lines.iter().enumerate() {
            // only top-level items (no indentation): nested modules are not scanned
            if let Some(rest) = l.strip_prefix("pub static ") {
                if let Some(p) = rest.find(": &[u8] =") {
                    let name = &rest[..p];
                    let after = rest[p + 9..].trim();
                    let next = lines.get(i + 1).map(|s| s.trim()).unwrap_or("");
                    let literal = after.starts_with("&[") || (after.is_empty() && next.starts_with("&["));
                    if literal {
                        writeln!(
                            blobs,
                            "    (\"{stem}::{name}\", || font_test_data::{stem}::{name}.to_vec()),"
                        )
                        .unwrap();
                    }
                }
            } else if let Some(rest) = l.strip_prefix("pub fn ") {
                if let Some(p) = rest.find("() -> BeBuffer") {
                    let name = &rest[..p];
                    writeln!(
                        blobs,
                        "    (\"{stem}::{name}()\", || font_test_data::{stem}::{name}().as_slice().to_vec()),"
                    )
                    .unwrap();
                }
            }
        }
    }
    writeln!(out, "pub static STATIC_BLOBS: &[(&str, fn() -> Vec<u8>)] = &[\n{blobs}];").unwrap();

    let dest = PathBuf::from(std::env::var("OUT_DIR").unwrap()).join("registry.rs");
    std::fs::write(dest, out).unwrap();
}
