//! C05 — offset packing is sound.
//!
//! Family G (hook `write_fonts::verif_hooks::pack_graph`): bounded-exhaustive enumeration of rooted
//! DAGs (canonical: node i links only to j > i, every node reachable from node 0) over a size
//! alphabet straddling the 16-bit limit and link widths {16,32} (+24 in thorough), with multi-edges
//! and offset adjustments as stated in `run.bound`. Every graph is packed and serialised by the real
//! packer and the bytes are *unfolded* by an independent decoder (`unfold`).
//!
//! Family P (public path, `write_fonts::dump_table`): real `Gpos` tables with PairPos / MarkBasePos
//! lookups large enough to force sub-table splitting and extension promotion, decoded by an
//! independent byte-level GPOS reader (`gpos_raw`) and compared with the input rules. Its
//! device-slot sub-family (`slots`) attaches a device table to every subset of the four
//! ValueRecord device slots / two anchor device slots, in tables just over the split thresholds.

mod gpos_raw;
mod gsub_path;
mod public_path;
mod slots;
mod tables_path;
mod writer_path;

use rayon::prelude::*;
use serde_json::{json, Value};
use std::collections::{BTreeMap, HashMap, HashSet};
use vcore::*;
use write_fonts::verif_hooks::{pack_graph, LinkSpec, NodeSpec};

fn main() {
    main_for("C05", body)
}

/// Σ: sizes straddling the 16-bit offset limit
const SMALL: [u32; 3] = [0, 2, 4];
const LARGE: [u32; 4] = [0x7FFE, 0xFFFE, 0x10000, 0x18000];

#[derive(Clone, Debug, PartialEq)]
pub struct G {
    pub n: usize,
    /// nominal sizes; the real size is max(nominal, bytes needed by the node's own links)
    pub sizes: Vec<u32>,
    /// (from, to, width in bytes, adjustment code); the code is the adjustment value itself (0, 2, 4;
    /// clamped to the parent's size) or 255 = "the parent's whole size" (offset base = end of the
    /// parent, as `name`-style storage areas use); a node's links are laid out back to back from byte 0
    /// in the order they appear here
    pub edges: Vec<(u8, u8, u8, u8)>,
    /// 0: object ids allocated in index order (root lowest); 1: non-root nodes get ids in reverse
    /// index order (children before parents, as the real TableWriter does)
    pub id_order: u8,
}

impl G {
    fn real_size(&self, i: usize) -> u32 {
        let need: u32 = self
            .edges
            .iter()
            .filter(|e| e.0 as usize == i)
            .map(|e| e.2 as u32)
            .sum();
        self.sizes[i].max(need)
    }
    /// the adjustment value of an edge (never larger than the parent's size)
    pub fn adj_of(&self, e: &(u8, u8, u8, u8)) -> u32 {
        let psize = self.real_size(e.0 as usize);
        match e.3 {
            0 => 0,
            255 => psize,
            v => (v as u32).min(psize),
        }
    }
    fn fill(i: usize) -> u8 {
        0xA1 + i as u8
    }
    /// (link position within parent, edge) for the links of node i
    fn links_of(&self, i: usize) -> Vec<(u32, (u8, u8, u8, u8))> {
        let mut pos = 0;
        let mut out = vec![];
        for e in self.edges.iter().filter(|e| e.0 as usize == i) {
            out.push((pos, *e));
            pos += e.2 as u32;
        }
        out
    }
    fn spec_index(&self, i: usize) -> usize {
        if self.id_order == 0 || i == 0 {
            i
        } else {
            self.n - i
        }
    }
    fn to_specs(&self) -> Vec<NodeSpec> {
        let mut specs: Vec<Option<NodeSpec>> = vec![None; self.n];
        for i in 0..self.n {
            let links = self
                .links_of(i)
                .into_iter()
                .map(|(pos, e)| LinkSpec {
                    target: self.spec_index(e.1 as usize),
                    width: e.2,
                    pos,
                    adjustment: self.adj_of(&e),
                })
                .collect();
            specs[self.spec_index(i)] = Some(NodeSpec {
                size: self.real_size(i),
                fill: G::fill(i),
                links,
            });
        }
        specs.into_iter().map(|s| s.unwrap()).collect()
    }
    fn to_json(&self) -> Value {
        json!({"family":"graph","n":self.n,"sizes":self.sizes,
               "edges": self.edges.iter().map(|e| json!([e.0,e.1,e.2,e.3])).collect::<Vec<_>>(),
               "id_order": self.id_order})
    }
    fn from_json(v: &Value) -> G {
        G {
            n: v["n"].as_u64().unwrap_or(0) as usize,
            sizes: v["sizes"].as_array().map(|a| a.iter().map(|x| x.as_u64().unwrap_or(0) as u32).collect()).unwrap_or_default(),
            edges: v["edges"]
                .as_array()
                .map(|a| {
                    a.iter()
                        .map(|e| {
                            let g = |i: usize| e[i].as_u64().unwrap_or(0) as u8;
                            (g(0), g(1), g(2), g(3))
                        })
                        .collect()
                })
                .unwrap_or_default(),
            id_order: v["id_order"].as_u64().unwrap_or(0) as u8,
        }
    }
    /// short class description used in violation identities
    fn class(&self) -> String {
        let mut widths: Vec<u8> = self.edges.iter().map(|e| e.2 * 8).collect();
        widths.sort();
        widths.dedup();
        let multi = {
            let mut s = HashSet::new();
            self.edges.iter().any(|e| !s.insert((e.0, e.1)))
        };
        let adj = self.edges.iter().any(|e| e.3 != 0);
        // structural trigger of the defect family known on the unchanged tree (space roots that also
        // have a narrow incoming link): kept in the identity so that a panic on a graph *without*
        // this feature is a different finding
        let mixed = (0..self.n).any(|j| {
            self.edges.iter().any(|e| e.1 as usize == j && e.2 == 4)
                && self.edges.iter().any(|e| e.1 as usize == j && e.2 != 4)
        });
        format!("node-with-wide-and-narrow-inlinks={} n={} widths={:?} multi-edge={} adjustment={}", mixed, self.n, widths, multi, adj)
    }
}

// ---------------------------------------------------------------------------
// the independent decoder
// ---------------------------------------------------------------------------

pub struct Unfolded {
    /// copies found: (position, node)
    pub copies: Vec<(u32, usize)>,
    pub unreached_objects: usize,
}

/// Unfold `bytes` from offset 0 along the spec graph. Everything the property demands:
/// * an offset of width w stored in a copy of p at position P resolves to P + adjustment + value;
///   there, the next size(c) bytes are a copy of c (c's fill on every non-offset byte, and,
///   recursively, c's own offsets resolve to copies of their targets);
/// * every node of the spec graph is reached; no two distinct copies overlap; a copy coincides with
///   one emitted object (start and size); the output is exactly the emitted objects back to back.
fn unfold(g: &G, bytes: &[u8], order_sizes: &[u32]) -> Result<Unfolded, (String, String)> {
    let e = |c: &str, d: String| Err((c.to_string(), d));
    let total: u64 = order_sizes.iter().map(|s| *s as u64).sum();
    if total != bytes.len() as u64 {
        return e("output-length-differs-from-emitted-objects", format!("{} vs {}", bytes.len(), total));
    }
    // emitted objects by start position
    let mut emitted: HashMap<u32, Vec<(u32, bool)>> = HashMap::new();
    let mut at = 0u32;
    for s in order_sizes {
        emitted.entry(at).or_default().push((*s, false));
        at += s;
    }
    let mut seen: HashSet<(u32, usize)> = HashSet::new();
    let mut stack = vec![(0u32, 0usize)];
    while let Some((pos, node)) = stack.pop() {
        if !seen.insert((pos, node)) {
            continue;
        }
        let size = g.real_size(node);
        if pos as u64 + size as u64 > bytes.len() as u64 {
            return e("offset-target-out-of-output", format!("node {node} at {pos} size {size} > {}", bytes.len()));
        }
        // it must be one of the emitted objects
        // (prefer a not yet claimed one: several zero-size objects can share a start position)
        let ok = emitted
            .get_mut(&pos)
            .map(|v| {
                if let Some(slot) = v.iter_mut().find(|(s, used)| *s == size && !*used) {
                    slot.1 = true;
                    true
                } else {
                    v.iter().any(|(s, _)| *s == size)
                }
            })
            .unwrap_or(false);
        if !ok {
            return e("offset-lands-inside-or-between-objects", format!("node {node} (size {size}) expected at {pos}"));
        }
        let links = g.links_of(node);
        // content: fill on all non-offset bytes
        let link_bytes: u32 = links.iter().map(|l| l.1 .2 as u32).sum();
        let fill = G::fill(node);
        let body = &bytes[(pos + link_bytes) as usize..(pos + size) as usize];
        if let Some(i) = body.iter().position(|b| *b != fill) {
            return e(
                "offset-lands-on-wrong-object",
                format!("node {node} expected at {pos}: byte +{} is {:#x}, want {:#x}", link_bytes as usize + i, body[i], fill),
            );
        }
        for (lpos, edge) in links {
            let (_, to, width, _) = edge;
            let adj = g.adj_of(&edge);
            let p = (pos + lpos) as usize;
            let raw = &bytes[p..p + width as usize];
            let val = raw.iter().fold(0u64, |a, b| (a << 8) | *b as u64);
            let target = pos as u64 + adj as u64 + val;
            if target > bytes.len() as u64 {
                return e("offset-target-out-of-output", format!("link {node}->{to} value {val} from {pos}"));
            }
            stack.push((target as u32, to as usize));
        }
    }
    let mut reached = vec![false; g.n];
    for (_, n) in &seen {
        reached[*n] = true;
    }
    if let Some(m) = reached.iter().position(|r| !r) {
        return e("reachable-object-missing", format!("node {m}"));
    }
    let mut copies: Vec<(u32, usize)> = seen.into_iter().collect();
    copies.sort();
    let solid: Vec<&(u32, usize)> = copies.iter().filter(|c| g.real_size(c.1) > 0).collect();
    for w in solid.windows(2) {
        if w[0].0 + g.real_size(w[0].1) > w[1].0 {
            return e("objects-overlap", format!("node {} at {} and node {} at {}", w[0].1, w[0].0, w[1].1, w[1].0));
        }
    }
    let unreached = emitted.values().flat_map(|v| v.iter()).filter(|(_, used)| !used).count();
    Ok(Unfolded { copies, unreached_objects: unreached })
}

/// Brute force: does *some* plain topological order (no duplication) satisfy every link?
/// Informational only (the property demands soundness, not completeness).
fn plain_order_fits(g: &G) -> bool {
    fn rec(g: &G, order: &mut Vec<usize>, used: &mut Vec<bool>) -> bool {
        if order.len() == g.n {
            let mut pos = vec![0u64; g.n];
            let mut at = 0u64;
            for &i in order.iter() {
                pos[i] = at;
                at += g.real_size(i) as u64;
            }
            return g.edges.iter().all(|e| {
                let (f, t) = (e.0 as usize, e.1 as usize);
                let max = (1u64 << (8 * e.2 as u32)) - 1;
                let a = g.adj_of(e) as u64;
                pos[t] >= pos[f] + a && pos[t] - pos[f] - a <= max
            });
        }
        for i in 1..g.n {
            if used[i] {
                continue;
            }
            // all parents placed?
            if g.edges.iter().any(|e| e.1 as usize == i && !used[e.0 as usize]) {
                continue;
            }
            used[i] = true;
            order.push(i);
            if rec(g, order, used) {
                return true;
            }
            order.pop();
            used[i] = false;
        }
        false
    }
    let mut used = vec![false; g.n];
    used[0] = true;
    rec(g, &mut vec![0], &mut used)
}

// ---------------------------------------------------------------------------
// enumeration
// ---------------------------------------------------------------------------

/// pair index order: grouped by target j, source i ascending: (0,1),(0,2),(1,2),(0,3),...
fn pairs(n: usize) -> Vec<(usize, usize)> {
    let mut p = vec![];
    for j in 1..n {
        for i in 0..j {
            p.push((i, j));
        }
    }
    p
}

/// all shapes: per pair a state 0 (no edge) or 1..=nw (edge of width W[state-1]); every node j >= 1
/// has an incoming edge (hence is reachable from 0 by induction)
fn shapes(n: usize, nw: usize) -> Vec<Vec<u8>> {
    shapes_capped(n, nw, usize::MAX)
}

/// as `shapes`, keeping only shapes with at most `max_edges` edges (a relabelling-invariant filter)
fn shapes_capped(n: usize, nw: usize, max_edges: usize) -> Vec<Vec<u8>> {
    let ps = pairs(n);
    let mut out = vec![];
    let mut cur = vec![0u8; ps.len()];
    loop {
        let ok = cur.iter().filter(|s| **s != 0).count() <= max_edges
            && (1..n).all(|j| ps.iter().zip(&cur).any(|((_, t), s)| *t == j && *s != 0));
        if ok {
            out.push(cur.clone());
        }
        // increment mixed radix
        let mut k = 0;
        loop {
            if k == cur.len() {
                return out;
            }
            cur[k] += 1;
            if cur[k] as usize <= nw {
                break;
            }
            cur[k] = 0;
            k += 1;
        }
    }
}

fn perms_nonroot(n: usize) -> Vec<Vec<usize>> {
    // permutations of 0..n fixing 0
    fn rec(cur: &mut Vec<usize>, used: &mut Vec<bool>, n: usize, out: &mut Vec<Vec<usize>>) {
        if cur.len() == n {
            out.push(cur.clone());
            return;
        }
        for i in 1..n {
            if !used[i] {
                used[i] = true;
                cur.push(i);
                rec(cur, used, n, out);
                cur.pop();
                used[i] = false;
            }
        }
    }
    let mut out = vec![];
    let mut used = vec![false; n];
    used[0] = true;
    rec(&mut vec![0], &mut used, n, &mut out);
    out
}

/// relabel a shape with π (old index -> new index); None if some edge would point backwards.
/// `ps` = pairs(n), `idx[a][b]` = position of pair (a,b) in `ps`.
fn relabel_shape(shape: &[u8], pi: &[usize], ps: &[(usize, usize)], idx: &[[usize; 8]; 8]) -> Option<Vec<u8>> {
    let mut out = vec![0u8; shape.len()];
    for (k, (i, j)) in ps.iter().enumerate() {
        if shape[k] == 0 {
            continue;
        }
        let (a, b) = (pi[*i], pi[*j]);
        if a >= b {
            return None;
        }
        out[idx[a][b]] = shape[k];
    }
    Some(out)
}

/// Isomorphism reduction (relabelling of non-root nodes): keep a shape iff it is the
/// lexicographically smallest among its valid relabellings; return it with its automorphisms.
fn canonical_shapes(n: usize, nw: usize, max_edges: usize) -> Vec<(Vec<u8>, Vec<Vec<usize>>)> {
    let perms = perms_nonroot(n);
    let ps = pairs(n);
    let mut idx = [[0usize; 8]; 8];
    for (k, (a, b)) in ps.iter().enumerate() {
        idx[*a][*b] = k;
    }
    shapes_capped(n, nw, max_edges)
        .into_par_iter()
        .filter_map(|s| {
            let mut auts = vec![];
            for pi in &perms {
                if let Some(r) = relabel_shape(&s, pi, &ps, &idx) {
                    if r < s {
                        return None;
                    }
                    if r == s {
                        auts.push(pi.clone());
                    }
                }
            }
            Some((s, auts))
        })
        .collect()
}

/// sizes are canonical under the shape's automorphisms iff no automorphism gives a smaller vector
fn sizes_canonical(sizes: &[u32], auts: &[Vec<usize>]) -> bool {
    auts.iter().all(|pi| {
        let mut r = vec![0u32; sizes.len()];
        for (i, s) in sizes.iter().enumerate() {
            r[pi[i]] = *s;
        }
        r.as_slice() >= sizes
    })
}

fn size_vectors(n: usize, small: &[u32], large: &[u32], max_large: usize) -> Vec<Vec<u32>> {
    let mut out: Vec<Vec<u32>> = vec![vec![]];
    for _ in 0..n {
        let mut next = vec![];
        for v in &out {
            let nl = v.iter().filter(|s| large.contains(s)).count();
            for s in small {
                let mut v2 = v.clone();
                v2.push(*s);
                next.push(v2);
            }
            if nl < max_large {
                for s in large {
                    let mut v2 = v.clone();
                    v2.push(*s);
                    next.push(v2);
                }
            }
        }
        out = next;
    }
    out
}

fn edges_of_shape(n: usize, shape: &[u8], widths: &[u8]) -> Vec<(u8, u8, u8, u8)> {
    let ps = pairs(n);
    let mut e = vec![];
    for i in 0..n {
        for (k, (a, b)) in ps.iter().enumerate() {
            if *a == i && shape[k] != 0 {
                e.push((*a as u8, *b as u8, widths[shape[k] as usize - 1], 0u8));
            }
        }
    }
    e
}

#[derive(Clone, Copy, PartialEq)]
enum Variants {
    /// the plain graph only
    Plain,
    /// plain + one multi-edge (edge k doubled, second link of any width) + adjustment 2 on one edge
    OneDeviation,
    /// additionally both at once (any doubled edge x any adjusted original edge)
    TwoDeviations,
}

fn variants(base: &[(u8, u8, u8, u8)], widths: &[u8], v: Variants, adj_codes: &[u8]) -> Vec<Vec<(u8, u8, u8, u8)>> {
    let mut out = vec![base.to_vec()];
    if v == Variants::Plain {
        return out;
    }
    let dup = |e: &[(u8, u8, u8, u8)], k: usize, w: u8| {
        let mut e2 = e.to_vec();
        let mut extra = e[k];
        extra.2 = w;
        extra.3 = 0;
        e2.insert(k + 1, extra);
        e2
    };
    for k in 0..base.len() {
        for w in widths {
            out.push(dup(base, k, *w));
        }
    }
    for k in 0..base.len() {
        for code in adj_codes {
            let mut e2 = base.to_vec();
            e2[k].3 = *code;
            out.push(e2);
        }
    }
    if v == Variants::TwoDeviations {
        for a in 0..base.len() {
            for code in adj_codes {
                let mut adj = base.to_vec();
                adj[a].3 = *code;
                for k in 0..base.len() {
                    for w in widths {
                        out.push(dup(&adj, k, *w));
                    }
                }
            }
        }
    }
    out
}

#[derive(Default)]
struct Local {
    all: HashSet<u64>,
    nontrivial: HashSet<u64>,
    c: BTreeMap<&'static str, u64>,
}
impl Local {
    fn bump(&mut self, k: &'static str) {
        *self.c.entry(k).or_insert(0) += 1;
    }
}

fn run_graph(run: &Run, g: &G, l: &mut Local) {
    l.bump("graphs");
    let specs = g.to_specs();
    let out = match guard(|| pack_graph(&specs)) {
        Ok(o) => o,
        Err(p) => {
            l.bump("panics");
            run.violation(
                &format!("pack_graph panic: {} [{}] ({})", p.kind().split_whitespace().collect::<Vec<_>>().join(" "), p.site(), g.class()),
                &format!("{} at {}:{}", p.message, p.file, p.line),
                g.to_json(),
            );
            return;
        }
    };
    if !out.packed {
        l.bump("refused");
        let mut h = Fnv::new();
        h.str("refused");
        h.u64(g.n as u64);
        l.all.insert(h.finish());
        if g.n <= 5 && plain_order_fits(g) {
            l.bump("refused_though_a_plain_order_fits(info:incompleteness)");
        }
        return;
    }
    l.bump("packed");
    if !out.basic_sort_sufficed {
        l.bump("packed_after_overflow_resolution");
    }
    let bytes = out.bytes.as_deref().unwrap_or(&[]);
    match unfold(g, bytes, &out.order_sizes) {
        Ok(u) => {
            // outcome digest: the layout (sequence of node copies)
            let mut h = Fnv::new();
            h.u64(out.basic_sort_sufficed as u64);
            for (_, n) in &u.copies {
                h.u64(*n as u64);
            }
            // large/small pattern so that different size classes count as different outcomes
            for i in 0..g.n {
                h.u64((g.real_size(i) >= 0x7FFE) as u64);
            }
            l.all.insert(h.finish());
            if !out.basic_sort_sufficed {
                l.nontrivial.insert(h.finish());
            }
            if u.copies.len() > g.n {
                l.bump("packed_with_duplicated_objects");
            }
            if u.unreached_objects > 0 {
                l.bump("outputs_with_unreferenced_objects(info)");
            }
        }
        Err((class, detail)) => {
            run.violation(
                &format!("pack_graph: {class} ({})", g.class()),
                &detail,
                g.to_json(),
            );
        }
    }
}

struct Family<'a> {
    name: &'static str,
    n: usize,
    widths: &'a [u8],
    sizes: Vec<Vec<u32>>,
    variants: Variants,
    iso_reduce: bool,
    id_orders: &'a [u8],
    /// only shapes with at most this many edges
    max_edges: usize,
    /// adjustment codes tried on one edge (see `G::edges`)
    adj_codes: &'a [u8],
}

fn run_family(run: &Run, f: &Family) {
    let shapes: Vec<(Vec<u8>, Vec<Vec<usize>>)> = if f.iso_reduce {
        canonical_shapes(f.n, f.widths.len(), f.max_edges)
    } else {
        shapes_capped(f.n, f.widths.len(), f.max_edges).into_iter().map(|s| (s, vec![])).collect()
    };
    // work items: (shape, chunk of size vectors)
    let chunk = 64usize;
    let nchunks = (f.sizes.len() + chunk - 1) / chunk;
    let items: Vec<(usize, usize)> = (0..shapes.len())
        .flat_map(|s| (0..nchunks).map(move |c| (s, c)))
        .collect();
    let locals: Vec<Local> = items
        .par_iter()
        .fold(Local::default, |mut l, (s, c)| {
            let (shape, auts) = &shapes[*s];
            let base = edges_of_shape(f.n, shape, f.widths);
            let vars = variants(&base, f.widths, f.variants, f.adj_codes);
            for sizes in f.sizes[c * chunk..].iter().take(chunk) {
                if f.iso_reduce && !sizes_canonical(sizes, auts) {
                    continue;
                }
                for edges in &vars {
                    for id_order in f.id_orders {
                        let g = G { n: f.n, sizes: sizes.clone(), edges: edges.clone(), id_order: *id_order };
                        run_graph(run, &g, &mut l);
                    }
                }
            }
            l
        })
        .collect();
    let mut graphs = 0;
    for l in &locals {
        run.observe_many(&l.all, &l.nontrivial);
        for (k, v) in &l.c {
            run.count(k, *v);
            if *k == "graphs" {
                graphs += v;
            }
        }
    }
    run.evals(graphs);
    run.trans(graphs * 2); // pack_objects + serialize
    run.count(&format!("graphs[{}]", f.name), graphs);
    run.count(&format!("shapes[{}]", f.name), shapes.len() as u64);
    println!("  family {}: {} shapes, {} graphs, t={:.1}s", f.name, shapes.len(), graphs, run.elapsed());
}

/// Width-boundary sub-family: every offset width has its own limit L = 2^(8w) - 1. For w = 16 and
/// 24 bits (32 cannot be reached) a handful of 2-4 node templates put the parent-to-child distance
/// of one w-bit link on exactly L-1, L, L+1, L+2:
///   T1  root(size d) -w-> C                       the link is the only one (also with adjustment 2)
///   T2  root -w-> A(size d) -w-> C                chain: no alternative order
///   T3  root -32-> F(filler), root -w-> C         order [root,F,C] has distance d, [root,C,F] fits
///   T4  root -32-> F(size d) -w-> C, root -32-> C filler is the parent, inside a 32-bit space
///   T5  root -w-> A(filler), root -w-> B          all narrow; the alternative order fits
/// A distance above L must be refused or resolved by another order; whatever is returned as packed
/// is unfolded byte for byte (each 24-bit graph is ~16 MiB, so there are only a few dozen).
fn width_boundary(run: &Run) {
    let mut graphs: Vec<(String, G)> = vec![];
    for w in [2u8, 3] {
        let limit: u32 = (1u32 << (8 * w as u32)) - 1;
        for (dn, d) in [("L-1", limit - 1), ("L", limit), ("L+1", limit + 1), ("L+2", limit + 2)] {
            let root_links_t3 = 4 + w as u32; // root of T3: a 32-bit and a w-bit link, no other bytes
            let templates: Vec<(&str, G)> = vec![
                ("T1", G { n: 2, sizes: vec![d, 4], edges: vec![(0, 1, w, 0)], id_order: 0 }),
                ("T1adj2", G { n: 2, sizes: vec![d, 4], edges: vec![(0, 1, w, 2)], id_order: 0 }),
                ("T2", G { n: 3, sizes: vec![4, d, 4], edges: vec![(0, 1, w, 0), (1, 2, w, 0)], id_order: 0 }),
                ("T3", G { n: 3, sizes: vec![0, d - root_links_t3, 4], edges: vec![(0, 1, 4, 0), (0, 2, w, 0)], id_order: 0 }),
                ("T4", G { n: 3, sizes: vec![0, d, 4], edges: vec![(0, 1, 4, 0), (0, 2, 4, 0), (1, 2, w, 0)], id_order: 0 }),
                ("T5", G { n: 3, sizes: vec![0, d - 2 * w as u32, 4], edges: vec![(0, 1, w, 0), (0, 2, w, 0)], id_order: 0 }),
            ];
            for (t, g) in templates {
                for id_order in [0u8, 1] {
                    let mut g = g.clone();
                    g.id_order = id_order;
                    graphs.push((format!("w{} {} d={} ids={}", 8 * w as u32, t, dn, id_order), g));
                }
            }
        }
    }
    let results: Vec<(String, Local)> = graphs
        .par_iter()
        .map(|(name, g)| {
            let mut l = Local::default();
            run_graph(run, g, &mut l);
            (name.clone(), l)
        })
        .collect();
    let mut outcomes = serde_json::Map::new();
    for (name, l) in &results {
        run.observe_many(&l.all, &l.nontrivial);
        for (k, v) in &l.c {
            run.count(k, *v);
        }
        let o = if l.c.contains_key("panics") { "panic" } else if l.c.contains_key("packed") { "packed" } else { "refused" };
        outcomes.insert(name.clone(), json!(o));
    }
    run.evals(graphs.len() as u64);
    run.trans(graphs.len() as u64 * 2);
    run.count("graphs[width_boundary_16_and_24_bit]", graphs.len() as u64);
    // vacuity gate: the trivially fitting cases (only link, distance <= L) must have been packed,
    // otherwise the family did not put anything on the boundary
    for w in ["w16", "w24"] {
        for d in ["L-1", "L"] {
            let key = format!("{w} T1 d={d} ids=0");
            if outcomes.get(&key).and_then(|v| v.as_str()) != Some("packed") {
                run.machinery_error(&format!("width-boundary case '{key}' was not packed: the boundary family is vacuous"));
            }
        }
    }
    run.extra("width_boundary_outcomes", Value::Object(outcomes));
    run.bound("width_boundary", json!("link widths 16 and 24 x distance in {L-1, L, L+1, L+2} (L = 2^(8w)-1) x templates {only link, only link with adjustment 2, chain, 32-bit filler with alternative order, filler parent inside a 32-bit space, narrow filler with alternative order} x both id orders"));
    println!("  family width_boundary: {} graphs, t={:.1}s", graphs.len(), run.elapsed());
}

fn body(run: &Run, replay: Option<&Value>) {
    run.rule("G: a case is one rooted DAG (shape x per-node size x link widths x multi-edge/adjustment variant x object-id order) packed and serialised by the real packer; P: one Gpos value compiled by dump_table. distinct outcomes = distinct final layouts (sequence of object copies incl. duplicates, size-class pattern, whether the first sort sufficed); non-trivial = the first sort overflowed and the packer had to assign spaces / duplicate / split / promote");
    run.assume("the hook builds the Graph exactly as Graph::from_objects would for real TableData (one TableData per NodeSpec, fill bytes, OffsetRecords as given)");
    run.assume("offset base semantics: an offset stored in an object at position P with adjustment a resolves to P + a + value (what Graph::serialize writes and what the OpenType tables using adjustments read)");
    if let Some(case) = replay {
        if case["family"] == "graph" {
            let g = G::from_json(case);
            let mut l = Local::default();
            run_graph(run, &g, &mut l);
            println!("replay counters: {:?}", l.c);
        } else if case["family"] == "gsub" {
            gsub_path::replay(run, case);
        } else if case["family"] == "gsub_promo" {
            gsub_path::replay_promo(run, case);
        } else if case["family"] == "table" {
            tables_path::replay(run, case);
        } else if case["family"] == "writer" {
            writer_path::replay(run, case);
        } else {
            public_path::replay(run, case);
        }
        return;
    }
    // development aid only: C05_ONLY=public|graph restricts the run (never set by ./check)
    let only = std::env::var("C05_ONLY").unwrap_or_default();
    if only == "count6" {
        // development aid: size of the N=6 family
        let cs = canonical_shapes(6, 2, 8);
        let sv = size_vectors(6, &[4], &[0xFFFE, 0x10000], 2);
        let graphs: usize = cs.par_iter().map(|(_, auts)| sv.iter().filter(|s| sizes_canonical(s, auts)).count()).sum();
        println!("n6: {} canonical shapes, {} size vectors, {} graphs, t={:.1}s", cs.len(), sv.len(), graphs, run.elapsed());
        run.cap_hit("C05_ONLY=count6");
        return;
    }
    if only == "slots" {
        // development aid: only the device-slot sub-family of the public path
        run.cap_hit("C05_ONLY=slots: everything but the device-slot tables skipped");
        public_path::run_all(run);
        return;
    }
    if only == "public" {
        run.cap_hit("C05_ONLY=public: graph family skipped");
        public_path::run_all(run);
        gsub_path::run_all(run);
        gsub_path::run_promo(run);
        tables_path::run_all(run);
        writer_path::run_all(run);
        return;
    }
    let quick = run.tier == Tier::Quick;
    // adjustment on one edge: 2 (quick) / 2, 4 and the parent's whole size (thorough)
    let adj_codes: &[u8] = if quick { &[2] } else { &[2, 4, 255] };
    run.bound("adjustment_values", json!(if quick { vec!["2"] } else { vec!["2", "4", "parent size"] }));
    let w2: [u8; 2] = [2, 4];
    let w3: [u8; 3] = [2, 3, 4];
    run.bound("size_alphabet", json!({"small": SMALL, "large": LARGE}));
    run.bound("widths_bits", json!(if quick { vec![16, 32] } else { vec![16, 24, 32] }));
    let all7: Vec<u32> = SMALL.iter().chain(LARGE.iter()).copied().collect();

    // determinism self-test: the first graphs twice
    {
        let f3 = shapes(3, 2);
        for s in f3.iter().take(16) {
            let g = G { n: 3, sizes: vec![4, 0x10000, 0xFFFE], edges: edges_of_shape(3, s, &w2), id_order: 0 };
            let a = guard(|| pack_graph(&g.to_specs())).ok().map(|o| (o.packed, o.bytes.map(|b| digest_of(&b))));
            let b = guard(|| pack_graph(&g.to_specs())).ok().map(|o| (o.packed, o.bytes.map(|b| digest_of(&b))));
            if a != b {
                run.machinery_error("pack_graph is not deterministic for the same spec");
            }
        }
    }

    // --- width boundaries (16- and 24-bit limits), both tiers
    width_boundary(run);
    // --- N <= 3: everything, two deviations, both id orders
    for n in 1..=3 {
        run_family(run, &Family {
            name: ["", "n1_full", "n2_full", "n3_full"][n],
            n,
            widths: if quick { &w2 } else { &w3 },
            sizes: size_vectors(n, &all7, &[], 0),
            variants: Variants::TwoDeviations,
            iso_reduce: false,
            id_orders: &[0, 1],
            max_edges: usize::MAX,
            adj_codes,
        });
    }
    // --- N = 4 plain: all shapes x all 7^4 sizes
    run_family(run, &Family {
        name: "n4_plain_full_sizes",
        n: 4,
        widths: &w2,
        sizes: size_vectors(4, &all7, &[], 0),
        variants: Variants::Plain,
        iso_reduce: false,
        id_orders: if quick { &[0] } else { &[0, 1] },
        max_edges: usize::MAX,
        adj_codes,
    });
    if quick {
        // N = 4 with one multi-edge or one adjustment, sizes {4, 0xFFFE, 0x10000}
        run_family(run, &Family {
            name: "n4_one_deviation_3sizes",
            n: 4,
            widths: &w2,
            sizes: size_vectors(4, &[4, 0xFFFE, 0x10000], &[], 0),
            variants: Variants::OneDeviation,
            iso_reduce: false,
            id_orders: &[0],
            max_edges: usize::MAX,
            adj_codes,
        });
        // N = 5, <= 2 large nodes, isomorphic relabellings removed
        run_family(run, &Family {
            name: "n5_iso_le2large_small{4}_large{FFFE,10000}",
            n: 5,
            widths: &w2,
            sizes: size_vectors(5, &[4], &[0xFFFE, 0x10000], 2),
            variants: Variants::Plain,
            iso_reduce: true,
            id_orders: &[0],
            max_edges: usize::MAX,
            adj_codes,
        });
        run.bound("graph_families", json!("N<=3: all shapes x 7 sizes x {plain, one multi-edge, one adjustment=2, both} x both id orders; N=4: all 416 shapes x 7^4 sizes plain, and x {4,FFFE,10000}^4 with one multi-edge or one adjustment; N=5: shapes up to relabelling x (<=2 large nodes from {FFFE,10000}, others size 4)"));
    } else {
        run_family(run, &Family {
            name: "n4_w24_plain_full_sizes",
            n: 4,
            widths: &w3,
            sizes: size_vectors(4, &all7, &[], 0),
            variants: Variants::Plain,
            iso_reduce: false,
            id_orders: &[0],
            max_edges: usize::MAX,
            adj_codes,
        });
        run_family(run, &Family {
            name: "n4_one_deviation_full_sizes",
            n: 4,
            widths: &w2,
            sizes: size_vectors(4, &all7, &[], 0),
            variants: Variants::OneDeviation,
            iso_reduce: false,
            id_orders: &[0],
            max_edges: usize::MAX,
            adj_codes,
        });
        run_family(run, &Family {
            name: "n5_iso_le3large_small{0,4}",
            n: 5,
            widths: &w2,
            sizes: size_vectors(5, &[0, 4], &LARGE, 3),
            variants: Variants::Plain,
            iso_reduce: true,
            id_orders: &[0],
            max_edges: usize::MAX,
            adj_codes,
        });
        // N = 5 fully (all 33 280 shapes, no relabelling reduction) over the reduced sizes {4,FFFE,10000}
        run_family(run, &Family {
            name: "n5_all_shapes_sizes{4,FFFE,10000}",
            n: 5,
            widths: &w2,
            sizes: size_vectors(5, &[4, 0xFFFE, 0x10000], &[], 0),
            variants: Variants::Plain,
            iso_reduce: false,
            id_orders: &[0],
            max_edges: usize::MAX,
            adj_codes,
        });
        // N = 5 with 24-bit links: all 722 925 shapes over widths {16,24,32}, <= 2 nodes of 0x10000
        run_family(run, &Family {
            name: "n5_w24_all_shapes_le2large_small{4}_large{10000}",
            n: 5,
            widths: &w3,
            sizes: size_vectors(5, &[4], &[0x10000], 2),
            variants: Variants::Plain,
            iso_reduce: false,
            id_orders: &[0],
            max_edges: usize::MAX,
            adj_codes,
        });
        run_family(run, &Family {
            name: "n6_iso_le8edges_le2large_small{4}_large{FFFE,10000}",
            n: 6,
            widths: &w2,
            sizes: size_vectors(6, &[4], &[0xFFFE, 0x10000], 2),
            variants: Variants::Plain,
            iso_reduce: true,
            id_orders: &[0],
            max_edges: 8,
            adj_codes,
        });
        run.bound("graph_families", json!("N<=3: all shapes (widths 16/24/32) x 7 sizes x {plain, one multi-edge, one adjustment in {2,4,parent size}, both} x both id orders; N=4: all shapes x 7^4 sizes plain (both id orders; also with 24-bit links), and with one multi-edge or one adjustment; N=5: shapes up to relabelling x (<=3 large nodes from the 4 large sizes, others {0,4}); N=5 again with all 33 280 labelled shapes over sizes {4,FFFE,10000}^5, and with 24-bit links (all 722 925 shapes, <=2 nodes of 0x10000); N=6: shapes with <= 8 edges (a spanning tree plus at most three extra links) up to relabelling x (<=2 large nodes from {FFFE,10000}, others size 4)"));
    }
    run.sample(G { n: 4, sizes: vec![4, 0x10000, 0xFFFE, 2], edges: vec![(0, 1, 4, 0), (0, 2, 2, 0), (1, 3, 2, 0), (2, 3, 2, 0)], id_order: 0 }.to_json());

    // --- public path
    if only == "graph" {
        run.cap_hit("C05_ONLY=graph: public-path family skipped");
        return;
    }
    public_path::run_all(run);
    gsub_path::run_all(run);
    gsub_path::run_promo(run);
    tables_path::run_all(run);
    writer_path::run_all(run);
}
