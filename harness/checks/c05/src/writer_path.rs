//! Family W: small object graphs through the REAL `FontWrite` / `TableWriter` path (`dump_table` of a
//! hand-written `FontWrite` type). Unlike the packer hook this goes through `TableWriter`'s
//! de-duplication of identical sub-objects (the `TableData` hash / equality), so two DIFFERENT
//! objects that merely look alike must stay apart.
//!
//! Enumerated space: root -> sibling A, sibling B (16-bit links), leaves X and Y. A sibling is a
//! sequence of fields from {byte 00, byte FF, Offset16->X, Offset24->X, Offset32->X, Offset16->Y}
//! with a total length of 2..=6 bytes and one or two offsets (481 shapes); every ORDERED PAIR of
//! siblings of equal length is compiled (121 079 graphs): this contains every pair that coincides in
//! "bytes with FF placeholders" and in targets but differs in offset position or width
//! ([FF FF][O16->X] vs [O16->X][FF FF], [O32->X] vs [O16->X][FF FF], ...).
//!
//! Oracle: the output is unfolded from offset 0 along the spec tree: data bytes must be found
//! verbatim, every offset (read with its width) must land on a byte-for-byte copy of its target
//! object, recursively; so every reachable object is present. Sharing of genuinely identical
//! objects is allowed (copies may coincide).

use rayon::prelude::*;
use serde_json::{json, Value};
use std::collections::HashSet;
use vcore::*;
use write_fonts::validate::{Validate, ValidationCtx};
use write_fonts::{FontWrite, TableWriter};

#[derive(Clone, Debug, PartialEq)]
enum Field {
    Data(Vec<u8>),
    /// (width in bytes, child index into the spec's node list)
    Off(usize, usize),
}

#[derive(Clone, Debug)]
struct Spec {
    /// nodes[0] = root; children are referenced by index (a tree: every use is compiled separately,
    /// the compiler may merge identical ones)
    nodes: Vec<Vec<Field>>,
}

struct NodeRef<'a> {
    spec: &'a Spec,
    ix: usize,
}

impl FontWrite for NodeRef<'_> {
    fn write_into(&self, writer: &mut TableWriter) {
        for f in &self.spec.nodes[self.ix] {
            match f {
                Field::Data(b) => writer.write_slice(b),
                Field::Off(width, child) => writer.write_offset(&NodeRef { spec: self.spec, ix: *child }, *width),
            }
        }
    }
}
impl Validate for NodeRef<'_> {
    fn validate_impl(&self, _ctx: &mut ValidationCtx) {}
}

const LEAF_X: usize = 3;
const LEAF_Y: usize = 4;

/// sibling shapes: field codes 0 = byte 00, 1 = byte FF, 2 = O16->X, 3 = O24->X, 4 = O32->X, 5 = O16->Y
fn field_len(code: u8) -> usize {
    [1, 1, 2, 3, 4, 2][code as usize]
}
fn shapes_of_len(len: usize) -> Vec<Vec<u8>> {
    fn rec(left: usize, offs: usize, cur: &mut Vec<u8>, out: &mut Vec<Vec<u8>>) {
        if left == 0 {
            if offs >= 1 {
                out.push(cur.clone());
            }
            return;
        }
        for code in 0..6u8 {
            let is_off = code >= 2;
            if field_len(code) <= left && offs + is_off as usize <= 2 {
                cur.push(code);
                rec(left - field_len(code), offs + is_off as usize, cur, out);
                cur.pop();
            }
        }
    }
    let mut out = vec![];
    rec(len, 0, &mut vec![], &mut out);
    out
}

fn sibling(shape: &[u8]) -> Vec<Field> {
    shape
        .iter()
        .map(|c| match c {
            0 => Field::Data(vec![0x00]),
            1 => Field::Data(vec![0xFF]),
            2 => Field::Off(2, LEAF_X),
            3 => Field::Off(3, LEAF_X),
            4 => Field::Off(4, LEAF_X),
            _ => Field::Off(2, LEAF_Y),
        })
        .collect()
}

fn spec_for(a: &[u8], b: &[u8]) -> Spec {
    Spec {
        nodes: vec![
            // root: a marker word, then 16-bit links to the two siblings
            vec![Field::Data(vec![0x52, 0x54]), Field::Off(2, 1), Field::Off(2, 2)],
            sibling(a),
            sibling(b),
            vec![Field::Data(vec![0x00, 0xFF, 0x00, 0x58])],
            vec![Field::Data(vec![0xFF, 0x00, 0xFF, 0x59])],
        ],
    }
}

/// unfold `bytes` along the spec from (node, pos); Err(detail) on the first mismatch
fn unfold(spec: &Spec, bytes: &[u8], node: usize, pos: usize, seen: &mut HashSet<(usize, usize)>) -> Result<(), String> {
    if !seen.insert((node, pos)) {
        return Ok(());
    }
    let mut cur = pos;
    for f in &spec.nodes[node] {
        match f {
            Field::Data(d) => {
                let got = bytes.get(cur..cur + d.len()).ok_or_else(|| format!("node {node} at {pos} runs past the output"))?;
                if got != d.as_slice() {
                    return Err(format!("node {node} expected at {pos}: data bytes at +{} are {:02x?}, object has {:02x?}", cur - pos, got, d));
                }
                cur += d.len();
            }
            Field::Off(width, child) => {
                let raw = bytes.get(cur..cur + width).ok_or_else(|| format!("node {node} at {pos} runs past the output"))?;
                let val = raw.iter().fold(0usize, |a, b| (a << 8) | *b as usize);
                if val == 0 {
                    return Err(format!("node {node} at {pos}: offset at +{} to node {child} is null", cur - pos));
                }
                unfold(spec, bytes, *child, pos + val, seen).map_err(|e| format!("via node {node}+{} (width {}, value {val:#x}): {e}", cur - pos, width * 8))?;
                cur += width;
            }
        }
    }
    Ok(())
}

fn shape_str(s: &[u8]) -> String {
    s.iter().map(|c| ["00", "FF", "O16>X", "O24>X", "O32>X", "O16>Y"][*c as usize]).collect::<Vec<_>>().join(" ")
}

/// class of a pair for the violation identity: do the two siblings coincide in their bytes with
/// placeholders and in their targets (the look-alike class)?
fn pair_class(a: &[u8], b: &[u8]) -> &'static str {
    let render = |s: &[u8]| -> (Vec<u8>, Vec<u8>) {
        let mut bytes = vec![];
        let mut targets = vec![];
        for c in s {
            match c {
                0 => bytes.push(0),
                1 => bytes.push(0xFF),
                _ => {
                    bytes.extend(std::iter::repeat(0xFF).take(field_len(*c)));
                    targets.push(if *c == 5 { 1 } else { 0 });
                }
            }
        }
        (bytes, targets)
    };
    if a == b {
        "identical siblings"
    } else if render(a) == render(b) {
        "look-alike siblings (same bytes-with-placeholders and targets, different offset position/width)"
    } else {
        "different siblings"
    }
}

fn check(a: &[u8], b: &[u8]) -> Result<usize, (String, String)> {
    let spec = spec_for(a, b);
    let bytes = match guard(|| write_fonts::dump_table(&NodeRef { spec: &spec, ix: 0 })) {
        Ok(Ok(b)) => b,
        Ok(Err(e)) => return Err(("dump_table error on a tiny graph".into(), format!("{e}"))),
        Err(p) => return Err((format!("dump_table panic: {} [{}]", p.kind().split_whitespace().collect::<Vec<_>>().join(" "), p.site()), p.message)),
    };
    let mut seen = HashSet::new();
    unfold(&spec, &bytes, 0, 0, &mut seen).map_err(|d| ("an offset does not land on a copy of its target object".to_string(), format!("{d}; output {}", hex(&bytes))))?;
    Ok(bytes.len())
}

pub fn run_pair(run: &Run, a: &[u8], b: &[u8]) -> Option<usize> {
    match check(a, b) {
        Ok(n) => Some(n),
        Err((class, detail)) => {
            run.violation(
                &format!("dump_table(FontWrite graph): {class} ({})", pair_class(a, b)),
                &format!("A = [{}], B = [{}]: {detail}", shape_str(a), shape_str(b)),
                json!({"family":"writer","a":a,"b":b}),
            );
            None
        }
    }
}

pub fn replay(run: &Run, case: &Value) {
    let arr = |k: &str| -> Vec<u8> { case[k].as_array().map(|v| v.iter().map(|x| x.as_u64().unwrap_or(0) as u8).collect()).unwrap_or_default() };
    if let Some(n) = run_pair(run, &arr("a"), &arr("b")) {
        println!("replay: ok, {n} bytes");
    }
}

pub fn run_all(run: &Run) {
    let mut pairs: Vec<(Vec<u8>, Vec<u8>)> = vec![];
    let mut nshapes = 0;
    for len in 2..=6 {
        let shapes = shapes_of_len(len);
        nshapes += shapes.len();
        for a in &shapes {
            for b in &shapes {
                pairs.push((a.clone(), b.clone()));
            }
        }
    }
    run.bound("writer_path", json!(format!(
        "root -> siblings A,B -> leaves X,Y through dump_table of a hand-written FontWrite type (real TableWriter de-duplication): sibling = fields from {{00, FF, O16->X, O24->X, O32->X, O16->Y}}, 2..=6 bytes, 1-2 offsets ({nshapes} shapes); all ordered pairs of equal length ({} graphs)", pairs.len())));
    let res: Vec<(HashSet<u64>, HashSet<u64>, u64, u64)> = pairs
        .par_iter()
        .fold(
            || (HashSet::new(), HashSet::new(), 0u64, 0u64),
            |(mut all, mut nt, mut n, mut lookalike), (a, b)| {
                n += 1;
                let class = pair_class(a, b);
                if class.starts_with("look-alike") {
                    lookalike += 1;
                }
                if let Some(len) = run_pair(run, a, b) {
                    let mut h = Fnv::new();
                    h.str("writer");
                    h.str(class);
                    h.u64(len as u64);
                    all.insert(h.finish());
                    if class != "different siblings" {
                        nt.insert(h.finish());
                    }
                }
                (all, nt, n, lookalike)
            },
        )
        .collect();
    let mut total = 0;
    let mut lookalike = 0;
    for (all, nt, n, l) in &res {
        run.observe_many(all, nt);
        total += n;
        lookalike += l;
    }
    run.evals(total);
    run.trans(total * 2);
    run.count("writer_path_graphs", total);
    run.count("writer_path_lookalike_sibling_pairs", lookalike);
    if lookalike == 0 {
        run.machinery_error("writer-path family contains no look-alike sibling pair");
    }
    println!("  writer path: {total} graphs ({lookalike} look-alike pairs), t={:.1}s", run.elapsed());
}
