//! Device-slot sub-family of the public path (value style `fmt == 5`).
//!
//! A GPOS value record has four device slots (xPlaDevice, yPlaDevice, xAdvDevice, yAdvDevice), an
//! anchor has two (xDevice, yDevice). The packer's sub-table splitting re-reads value records /
//! anchors of the compiled sub-table and re-links their device offsets by *counting non-null
//! offsets*; this family attaches a device table to every slot pattern and checks, by raw decoding
//! of the final bytes (`gpos_raw`, nothing from read-fonts), that the offset stored in slot s of
//! record r of rule (i, j) lands on a copy of exactly the device that was attached to slot s of
//! record r of rule (i, j), and that every slot that was authored null reads 0.
//!
//! Content is unique per (lookup, record, slot, rule): a `Dev` value holds every byte of the table
//! (Device: startSize, endSize, deltaFormat and all delta words; VariationIndex: outer, inner and
//! the 0x8000 format word), so `Dev` equality is byte-for-byte equality with the expected table.
//!
//! Enumerated space (fixed order, see `cases`):
//!   table kind {PairPos1, PairPos2, MarkBasePos}
//!   x slot mask of record 1 / record 2 (4 bits each; anchors: mark / base anchor, 2 bits each)
//!   x device kind {all Device, all VariationIndex, alternating by slot, alternating reversed}
//!   x fill {per-rule sub-mask cycling through all 16 (anchors: 4) subsets of the format mask, so
//!           null offsets sit between non-null ones; every slot of the format filled}
//!   x pool {0: unique content per rule; p: content index taken mod p, i.e. heavy sharing}
//!   x intended pieces {1: below 64 KiB, 2 and 3: just over 1x / 2x 64 KiB}
//! The number of first glyphs / class-1 classes / mark classes `k` is derived from the byte size of
//! the authored objects so that every table is only just as large as the piece count needs.

use crate::gpos_raw::{Anchor, Dev, Val};
use crate::public_path::Case;
use vcore::Tier;
use write_fonts::tables::gpos as w;
use write_fonts::tables::layout as wl;

pub const SLOT_NAMES: [&str; 4] = ["xPlaDevice", "yPlaDevice", "xAdvDevice", "yAdvDevice"];
const DELTA_ALPHABET: [i8; 5] = [-9, -2, 0, 1, 7];

/// spec encoder of a Device table: smallest format whose SIGNED range holds every delta
/// (1: -2..=1, 2: -8..=7, 3: -128..=127), packed most significant first
pub fn expected_device(start: u16, vals: &[i8]) -> Dev {
    let (format, bits) = if vals.iter().all(|d| (-2..=1).contains(d)) {
        (1u16, 2usize)
    } else if vals.iter().all(|d| (-8..=7).contains(d)) {
        (2, 4)
    } else {
        (3, 8)
    };
    let per_word = 16 / bits;
    let mask = (1u16 << bits) - 1;
    let mut words = vec![0u16; (vals.len() + per_word - 1) / per_word];
    for (n, v) in vals.iter().enumerate() {
        words[n / per_word] |= ((*v as i16 as u16) & mask) << (16 - bits * (n % per_word + 1));
    }
    Dev::Device { start, end: start + vals.len() as u16 - 1, format, words }
}

pub fn dev_size(d: &Dev) -> usize {
    match d {
        Dev::Device { words, .. } => 6 + 2 * words.len(),
        Dev::VarIdx { .. } => 6,
    }
}

/// is the device in (record, slot) a VariationIndex?
fn is_varidx(c: &Case, rec: u32, slot: u32) -> bool {
    match c.dk {
        0 => false,
        1 => true,
        2 => (rec + slot) % 2 == 1,
        _ => (rec + slot) % 2 == 0,
    }
}

/// The device attached to `slot` of record `rec` (0 / 1; anchors: 0 = mark anchor, 1 = base anchor)
/// of rule number `n` in lookup `l`. Unique per (l, rec, slot, n) for n < 65 536 (pool 0).
///   VariationIndex: outer = 8 l + 4 rec + slot, inner = n
///   Device: startSize = 9 + 8 l + 4 rec + slot, 7 deltas = the base-5 digits of n mapped to
///   {-9, -2, 0, 1, 7} (all three delta formats occur)
pub fn dev(c: &Case, l: u32, rec: u32, slot: u32, n: u32) -> (Dev, wl::DeviceOrVariationIndex) {
    let idx = if c.pool == 0 { n } else { n % c.pool };
    let tag = (8 * l + 4 * rec + slot) as u16;
    if is_varidx(c, rec, slot) {
        let (o, i) = (tag, idx as u16);
        (Dev::VarIdx { outer: o, inner: i }, wl::VariationIndex::new(o, i).into())
    } else {
        let mut vals = [0i8; 7];
        let mut x = idx;
        for v in vals.iter_mut() {
            *v = DELTA_ALPHABET[(x % 5) as usize];
            x /= 5;
        }
        let start = 9 + tag;
        (expected_device(start, &vals), wl::Device::new(start, start + 6, &vals).into())
    }
}

/// the slots of record `rec` that carry a device in rule `n` (a subset of the record's format mask)
pub fn sub_mask(c: &Case, rec: u32, n: u32) -> u8 {
    let f = if rec == 0 { c.s1 } else { c.s2 };
    if c.fill == 1 {
        f
    } else {
        f & ((n * 7 + 3 + 5 * rec) % 16) as u8
    }
}

/// value formats of the two records: record 1 = xAdvance + its device slots; record 2 = its device
/// slots, plus xPlacement iff the xPlaDevice slot is in the format (so device-only formats occur)
pub fn formats(c: &Case) -> (u16, u16) {
    (0x0004 | (c.s1 as u16) << 4, (c.s2 as u16) << 4 | (c.s2 as u16 & 1))
}

fn vf(bits: u16) -> read_fonts::tables::gpos::ValueFormat {
    read_fonts::tables::gpos::ValueFormat::from_bits(bits).expect("value format bits")
}

/// expected and authored value records of rule (i, j) of lookup l
pub fn pair_values(c: &Case, l: u32, i: u32, j: u32) -> (Val, Val, w::ValueRecord, w::ValueRecord) {
    let n = i * c.m + j;
    let (f1, f2) = formats(c);
    let adv = ((l * 31 + i * 7 + j) % 30000) as i16 + 1;
    let mut e = [Val::default(), Val::default()];
    let mut wr = [w::ValueRecord::new().with_x_advance(adv), w::ValueRecord::new()];
    e[0].v[2] = adv;
    if f2 & 1 != 0 {
        let xp = -((n % 97) as i16) - 1;
        wr[1] = wr[1].clone().with_x_placement(xp);
        e[1].v[0] = xp;
    }
    for rec in 0..2u32 {
        let sub = sub_mask(c, rec, n);
        for slot in 0..4u32 {
            if sub & (1 << slot) == 0 {
                continue;
            }
            let (ed, wd) = dev(c, l, rec, slot, n);
            e[rec as usize].dev[slot as usize] = Some(ed);
            let r = wr[rec as usize].clone();
            wr[rec as usize] = match slot {
                0 => r.with_x_placement_device(wd),
                1 => r.with_y_placement_device(wd),
                2 => r.with_x_advance_device(wd),
                _ => r.with_y_advance_device(wd),
            };
        }
    }
    let [e1, e2] = e;
    let [w1, w2] = wr;
    (e1, e2, w1.with_explicit_value_format(vf(f1)), w2.with_explicit_value_format(vf(f2)))
}

/// anchor number `n` (mark anchors: the mark index; base anchors: base * classes + class)
pub fn anchor(c: &Case, l: u32, is_base: bool, x: i16, y: i16, n: u32) -> (Anchor, w::AnchorTable) {
    let rec = is_base as u32;
    let mask = (if is_base { c.s2 } else { c.s1 }) & 3;
    let sub = if c.fill == 1 { mask } else { mask & ((n * 3 + 1 + rec) % 4) as u8 };
    if sub == 0 && (mask == 0 || n % 2 == 0) {
        return (Anchor { format: 1, x, y, point: None, xdev: None, ydev: None }, w::AnchorTable::format_1(x, y));
    }
    // sub == 0 here: a format-3 anchor whose two device offsets are both null
    let mut ed = [None, None];
    let mut wd = [None, None];
    for slot in 0..2u32 {
        if sub & (1 << slot) != 0 {
            let (e, w_) = dev(c, l, rec, slot, n);
            ed[slot as usize] = Some(e);
            wd[slot as usize] = Some(w_);
        }
    }
    let [ex, ey] = ed;
    let [wx, wy] = wd;
    (Anchor { format: 3, x, y, point: None, xdev: ex, ydev: ey }, w::AnchorTable::format_3(x, y, wx, wy))
}

fn anchor_size(a: &Anchor, count_devices: bool) -> usize {
    let own = match a.format {
        1 => 6,
        2 => 8,
        _ => 10,
    };
    own + if count_devices { a.xdev.iter().chain(a.ydev.iter()).map(dev_size).sum::<usize>() } else { 0 }
}

/// bytes that unit `i` (first glyph / class-1 record / mark class) adds to the sub-table and its
/// children. Device tables count only for PairPos2 with unique content: they hang directly off the
/// sub-table there, while the packer can move the devices of pair sets and anchors out of the way
/// (those tables must be over the limit without them to be split), and shared devices weigh nothing.
fn unit_bytes(c: &Case, i: u32) -> usize {
    let devs = c.pool == 0 && c.kind == 1;
    let val_devs = |v: &Val| if devs { v.dev.iter().flatten().map(dev_size).sum::<usize>() } else { 0 };
    let (f1, f2) = formats(c);
    let rec = 2 * (f1.count_ones() + f2.count_ones()) as usize;
    match c.kind {
        0 => {
            // coverage glyph + pair set offset + pair set
            let mut b = 2 + 2 + 2 + c.m as usize * (2 + rec);
            for j in 0..c.m {
                let (e1, e2, _, _) = pair_values(c, 0, i, j);
                b += val_devs(&e1) + val_devs(&e2);
            }
            b
        }
        1 => {
            let mut b = 2 + 2 + c.m as usize * rec;
            for j in 1..c.m {
                let (e1, e2, _, _) = pair_values(c, 0, i, j);
                b += val_devs(&e1) + val_devs(&e2);
            }
            b
        }
        _ => {
            // coverage glyph + mark record + mark anchor + one base anchor offset and anchor per base
            let mut b = 2 + 4 + anchor_size(&anchor(c, 0, false, 0, 0, i).0, devs);
            for j in 0..c.m {
                // k is not known yet; the anchor number only selects the sub-mask and content, whose
                // size distribution does not depend on k, so j * 64 + i is a fair stand-in
                b += 2 + anchor_size(&anchor(c, 0, true, 0, 0, j * 64 + i).0, devs);
            }
            b
        }
    }
}

/// smallest k >= 2 whose authored size reaches the target of the intended piece count
fn pick_k(c: &Case) -> u32 {
    let target = match c.pieces {
        1 => 38_000usize,
        2 => 76_000,
        _ => 142_000,
    };
    let mut total = 16usize;
    let mut k = 0u32;
    while total < target || k < 2 {
        total += unit_bytes(c, k);
        k += 1;
    }
    k
}

#[allow(clippy::too_many_arguments)]
fn mk(kind: u8, s1: u8, s2: u8, dk: u8, fill: u8, pool: u32, pieces: u8, cov: u8, lookups: u8) -> Case {
    let m = match kind {
        0 => 16,
        1 => 51,
        _ => 24,
    };
    let mut c = Case { kind, k: 0, m, fmt: 5, cov, lookups, ext: 0, s1, s2, dk, fill, pool, pieces };
    c.k = pick_k(&c);
    c
}

fn rot(m: u8) -> u8 {
    ((m << 1) | (m >> 3)) & 15
}

/// The slot-pattern cases, in fixed order.
pub fn cases(tier: Tier) -> Vec<Case> {
    let mut out = vec![];
    let quick = tier == Tier::Quick;
    if quick {
        // value records: all 15 non-empty slot subsets on record 1 only, on record 2 only, and on
        // both records (record 2 = the subset rotated by one slot, so the two formats differ)
        for kind in [1u8, 0] {
            for fam in 0..3u8 {
                for m in 1..16u8 {
                    let (s1, s2) = match fam {
                        0 => (m, 0),
                        1 => (0, m),
                        _ => (m, rot(m)),
                    };
                    let dks: &[u8] = if fam == 2 { &[0, 1, 2] } else { &[0, 1] };
                    for dk in dks {
                        let pieces: &[u8] = match (kind, fam) {
                            (1, 2) => &[1, 2, 3],
                            (1, _) => &[1, 2],
                            _ => &[2],
                        };
                        for p in pieces {
                            out.push(mk(kind, s1, s2, *dk, 0, 0, *p, 0, 1));
                        }
                    }
                }
            }
        }
        // anchors: every (mark anchor mask, base anchor mask) but (0, 0) x 4 device kinds
        for sm in 0..4u8 {
            for sb in 0..4u8 {
                if sm == 0 && sb == 0 {
                    continue;
                }
                for dk in 0..4u8 {
                    for p in [1u8, 2] {
                        out.push(mk(2, sm, sb, dk, 0, 0, p, 0, 1));
                    }
                }
            }
        }
    } else {
        // value records: every (record 1 mask, record 2 mask) but (0, 0) x 4 device kinds
        for kind in [1u8, 0] {
            for s1 in 0..16u8 {
                for s2 in 0..16u8 {
                    if s1 == 0 && s2 == 0 {
                        continue;
                    }
                    for dk in 0..4u8 {
                        let pieces: &[u8] = if kind == 1 { &[1, 2, 3] } else { &[1, 2] };
                        for p in pieces {
                            out.push(mk(kind, s1, s2, dk, 0, 0, *p, 0, 1));
                        }
                        // every slot of the format filled; heavy sharing; gapped coverage; two lookups
                        out.push(mk(kind, s1, s2, dk, 1, 0, 2, 0, 1));
                        out.push(mk(kind, s1, s2, dk, 0, 7, 2, 0, 1));
                        if dk < 2 {
                            out.push(mk(kind, s1, s2, dk, 0, 0, 2, 2, 1));
                        }
                        if dk == 2 && (s1 == 0 || s2 == 0 || s2 == rot(s1)) {
                            out.push(mk(kind, s1, s2, dk, 0, 0, 2, 0, 2));
                        }
                    }
                }
            }
        }
        for sm in 0..4u8 {
            for sb in 0..4u8 {
                if sm == 0 && sb == 0 {
                    continue;
                }
                for dk in 0..4u8 {
                    for p in [1u8, 2, 3] {
                        for fill in [0u8, 1] {
                            out.push(mk(2, sm, sb, dk, fill, 0, p, 0, 1));
                        }
                    }
                    out.push(mk(2, sm, sb, dk, 0, 5, 2, 0, 1));
                    out.push(mk(2, sm, sb, dk, 0, 0, 2, 1, 1));
                    out.push(mk(2, sm, sb, dk, 0, 0, 2, 0, 2));
                }
            }
        }
    }
    out
}

// --- naming the first difference (violation identities) ----------------------------------------

fn kind_name(d: &Dev) -> &'static str {
    match d {
        Dev::Device { .. } => "Device",
        Dev::VarIdx { .. } => "VariationIndex",
    }
}

fn slot_diff(got: &Option<Dev>, want: &Option<Dev>) -> Option<String> {
    match (got, want) {
        (None, None) => None,
        (None, Some(w)) => Some(format!("offset is null where a {} was attached", kind_name(w))),
        (Some(g), None) => Some(format!("offset reaches a {} where the slot was authored null", kind_name(g))),
        (Some(g), Some(w)) if g == w => None,
        (Some(g), Some(w)) if kind_name(g) == kind_name(w) => Some(format!("offset reaches another {} than the one attached", kind_name(w))),
        (Some(g), Some(w)) => Some(format!("offset reaches a {} where a {} was attached", kind_name(g), kind_name(w))),
    }
}

/// the first clause that differs between a decoded and an authored pair of value records
pub fn describe_pair_diff(got: &Option<(Val, Val)>, want: Option<&(Val, Val)>) -> String {
    let (g, w) = match (got, want) {
        (Some(g), Some(w)) => (g, w),
        (None, Some(_)) => return "authored pair has no value in the output".into(),
        (Some(_), None) => return "non-zero value for a pair that was not authored".into(),
        (None, None) => return "no difference".into(),
    };
    for (r, (gv, wv)) in [(&g.0, &w.0), (&g.1, &w.1)].into_iter().enumerate() {
        if gv.v != wv.v {
            return format!("record{} plain values differ", r + 1);
        }
        for s in 0..4 {
            if let Some(d) = slot_diff(&gv.dev[s], &wv.dev[s]) {
                return format!("record{}.{}: {}", r + 1, SLOT_NAMES[s], d);
            }
        }
    }
    "no difference".into()
}

pub fn describe_anchor_diff(got: &Option<(Anchor, Anchor)>, want: &Option<(Anchor, Anchor)>) -> String {
    let (g, w) = match (got, want) {
        (Some(g), Some(w)) => (g, w),
        (None, Some(_)) => return "authored attachment has no anchors in the output".into(),
        (Some(_), None) => return "anchors for an attachment that was not authored".into(),
        (None, None) => return "no difference".into(),
    };
    for (name, ga, wa) in [("mark", &g.0, &w.0), ("base", &g.1, &w.1)] {
        if (ga.format, ga.x, ga.y, ga.point) != (wa.format, wa.x, wa.y, wa.point) {
            return format!("{name} anchor format/coordinates differ");
        }
        if let Some(d) = slot_diff(&ga.xdev, &wa.xdev) {
            return format!("{name} anchor xDevice: {d}");
        }
        if let Some(d) = slot_diff(&ga.ydev, &wa.ydev) {
            return format!("{name} anchor yDevice: {d}");
        }
    }
    "no difference".into()
}

fn mask_name(m: u8, names: &[&str]) -> String {
    let v: Vec<&str> = names.iter().enumerate().filter(|(i, _)| m & (1 << i) != 0).map(|(_, n)| *n).collect();
    if v.is_empty() {
        "none".into()
    } else {
        v.join("+")
    }
}

/// human-readable slot masks (evidence samples, violation details)
pub fn masks(c: &Case) -> String {
    if c.kind == 2 {
        format!("mark anchors {{{}}} base anchors {{{}}}", mask_name(c.s1, &["xDevice", "yDevice"]), mask_name(c.s2, &["xDevice", "yDevice"]))
    } else {
        format!("record1 {{{}}} record2 {{{}}}", mask_name(c.s1, &SLOT_NAMES), mask_name(c.s2, &SLOT_NAMES))
    }
}

/// input class for identities: which records carry device slots and of what kind (not the exact
/// masks: the clause names the slot that broke; the masks are in the replay case)
pub fn class(c: &Case) -> String {
    let on = match (c.s1 != 0, c.s2 != 0) {
        (true, true) => "both",
        (true, false) => "first",
        _ => "second",
    };
    let what = if c.kind == 2 { "anchors(mark=first,base=second)" } else { "records" };
    format!(
        "device-slots-on-{what}={on} device-kind={} fill={} sharing={}",
        ["Device", "VariationIndex", "alternating", "alternating-reversed"][c.dk.min(3) as usize],
        if c.fill == 1 { "every-slot" } else { "sub-mask-cycle" },
        if c.pool == 0 { "none" } else { "pooled" }
    )
}
