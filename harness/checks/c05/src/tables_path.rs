//! Family T: other top-level tables whose offsets can exceed their width or use special bases,
//! compiled with `dump_table` and unfolded by small from-spec readers:
//!   name  — > 64 KiB of string data; string offsets are relative to the storage area
//!           (the `adjust_offsets` path), 16-bit: either every string is found at
//!           storageOffset + offset, or PackingFailed
//!   GDEF  — huge AttachList / LigCaretList (16-bit offsets from the list to each child)
//!   ItemVariationStore — many ItemVariationData sub-tables behind 32-bit offsets, > 64 KiB in total
//!   cmap  — several format-12 sub-tables of > 64 KiB behind 32-bit offsets
//! A refusal (`PackingFailed`) is always acceptable; bytes must decode to the input.

use crate::gpos_raw::{Rd, R};
use rayon::prelude::*;
use serde_json::{json, Value};
use std::collections::HashSet;
use vcore::*;
use write_fonts::tables::{cmap as wc, gdef as wg, layout as wl, name as wn, variations as wv};
use write_fonts::types::{F2Dot14, GlyphId16, NameId};

#[derive(Clone, Debug)]
pub struct Case {
    /// "name" | "attach" | "ligcaret" | "ivs" | "cmap12"
    pub table: String,
    /// records / covered glyphs / sub-tables
    pub k: u32,
    /// string length / points per glyph / carets per glyph / items per sub-table / groups per sub-table
    pub n: u32,
}

impl Case {
    pub fn to_json(&self) -> Value {
        json!({"family":"table","table":self.table,"k":self.k,"n":self.n})
    }
    pub fn from_json(v: &Value) -> Case {
        Case { table: v["table"].as_str().unwrap_or("").into(), k: v["k"].as_u64().unwrap_or(0) as u32, n: v["n"].as_u64().unwrap_or(0) as u32 }
    }
}

pub struct Outcome {
    pub refused: bool,
    pub len: usize,
}

fn name_string(i: u32, n: u32) -> String {
    // printable ASCII, unique per record
    (0..n).map(|j| (b'!' + ((i * 17 + j * 7 + j / 90) % 90) as u8) as char).collect()
}

fn compile<T: write_fonts::FontWrite + write_fonts::validate::Validate>(t: &T) -> Result<Option<Vec<u8>>, (String, String)> {
    match guard(|| write_fonts::dump_table(t)) {
        Ok(Ok(b)) => Ok(Some(b)),
        Ok(Err(write_fonts::error::Error::PackingFailed(_))) => Ok(None),
        Ok(Err(err)) => Err(("dump_table-error-other-than-PackingFailed".into(), format!("{err}"))),
        Err(p) => Err((format!("dump_table panic: {} [{}]", p.kind().split_whitespace().collect::<Vec<_>>().join(" "), p.site()), format!("{} at {}:{}", p.message, p.file, p.line))),
    }
}

fn decode_err<T>(r: R<T>) -> Result<T, (String, String)> {
    r.map_err(|d| ("output-does-not-decode-to-the-input".to_string(), d))
}

pub fn check(c: &Case) -> Result<Outcome, (String, String)> {
    let refused = Outcome { refused: true, len: 0 };
    match c.table.as_str() {
        "name" => {
            // first two records Macintosh/Roman (one byte per char), the rest Windows/Unicode BMP (UTF-16BE)
            let mut recs = vec![];
            let mut want: Vec<(u16, u16, u16, u16, Vec<u8>)> = vec![];
            for i in 0..c.k {
                let s = name_string(i, c.n);
                let (p, e, l) = if i < 2 { (1u16, 0u16, 0u16) } else { (3, 1, 0x409) };
                let bytes: Vec<u8> = if i < 2 { s.bytes().collect() } else { s.bytes().flat_map(|b| [0, b]).collect() };
                recs.push(wn::NameRecord::new(p, e, l, NameId::new(256 + i as u16), s.into()));
                want.push((p, e, l, 256 + i as u16, bytes));
            }
            let Some(b) = compile(&wn::Name::new(recs))? else { return Ok(refused) };
            let rd = Rd::new(&b);
            decode_err((|| -> R<()> {
                let (version, count, storage) = (rd.u16(0)?, rd.u16(2)? as usize, rd.u16(4)? as usize);
                if version != 0 || count != want.len() {
                    return Err(format!("version {version}, {count} records, input {}", want.len()));
                }
                if storage != 6 + 12 * count {
                    return Err(format!("storage offset {storage}"));
                }
                let mut spans = vec![];
                for (i, w) in want.iter().enumerate() {
                    let at = 6 + 12 * i;
                    let got = (rd.u16(at)?, rd.u16(at + 2)?, rd.u16(at + 4)?, rd.u16(at + 6)?);
                    let (len, off) = (rd.u16(at + 8)? as usize, rd.u16(at + 10)? as usize);
                    if got != (w.0, w.1, w.2, w.3) {
                        return Err(format!("record {i}: ids {got:?}"));
                    }
                    let s = b.get(storage + off..storage + off + len).ok_or_else(|| format!("record {i}: string {off}+{len} outside the table"))?;
                    if s != w.4.as_slice() {
                        return Err(format!("record {i}: offset {off} length {len} does not land on its string"));
                    }
                    spans.push((storage + off, storage + off + len));
                }
                spans.sort();
                if spans.windows(2).any(|w| w[0].1 > w[1].0) {
                    return Err("strings overlap".into());
                }
                Ok(())
            })())?;
            Ok(Outcome { refused: false, len: b.len() })
        }
        "attach" | "ligcaret" => {
            let glyphs: Vec<u16> = (0..c.k).map(|i| (5 + 2 * i) as u16).collect();
            let cov: wl::CoverageTable = glyphs.iter().map(|g| GlyphId16::new(*g)).collect();
            let vals = |i: u32| -> Vec<u16> { (0..c.n).map(|j| ((i * 131 + j * 3) % 60000) as u16).collect() };
            let gdef = if c.table == "attach" {
                wg::Gdef::new(None, Some(wg::AttachList::new(cov, (0..c.k).map(|i| wg::AttachPoint::new(vals(i))).collect())), None, None)
            } else {
                let lig = |i: u32| {
                    wg::LigGlyph::new(
                        vals(i)
                            .into_iter()
                            .enumerate()
                            .map(|(j, v)| match j % 3 {
                                0 => wg::CaretValue::format_1(v as i16),
                                1 => wg::CaretValue::format_2(v),
                                _ => wg::CaretValue::format_3(v as i16, wl::VariationIndex::new(i as u16, v).into()),
                            })
                            .collect(),
                    )
                };
                wg::Gdef::new(None, None, Some(wg::LigCaretList::new(cov, (0..c.k).map(lig).collect())), None)
            };
            let Some(b) = compile(&gdef)? else { return Ok(refused) };
            let mut rd = Rd::new(&b);
            decode_err((|| -> R<()> {
                let (major, minor) = (rd.u16(0)?, rd.u16(2)?);
                if major != 1 {
                    return Err(format!("GDEF version {major}.{minor}"));
                }
                rd.span(0, match minor { 0 => 12, 2 => 14, _ => 18 }, "GdefHeader")?;
                let list = rd.u16(if c.table == "attach" { 6 } else { 8 })? as usize;
                if list == 0 {
                    return Err("list offset is null".into());
                }
                let cnt = rd.u16(list + 2)? as usize;
                rd.span(list, list + 4 + 2 * cnt, "List")?;
                let cov_off = rd.u16(list)? as usize;
                let cov = rd.coverage(list + cov_off)?;
                if cov != glyphs || cnt != glyphs.len() {
                    return Err(format!("coverage has {} glyphs, {cnt} children, input {}", cov.len(), glyphs.len()));
                }
                for i in 0..cnt {
                    let child = list + rd.u16(list + 4 + 2 * i)? as usize;
                    let n = rd.u16(child)? as usize;
                    let want = vals(i as u32);
                    if n != want.len() {
                        return Err(format!("child {i}: {n} entries, input {}", want.len()));
                    }
                    rd.span(child, child + 2 + 2 * n, "Child")?;
                    for (j, w) in want.iter().enumerate() {
                        if c.table == "attach" {
                            if rd.u16(child + 2 + 2 * j)? != *w {
                                return Err(format!("attach point {i}/{j} differs"));
                            }
                        } else {
                            let cv = child + rd.u16(child + 2 + 2 * j)? as usize;
                            let fmt = rd.u16(cv)?;
                            let v = rd.u16(cv + 2)?;
                            if fmt as usize != j % 3 + 1 || v != *w {
                                return Err(format!("caret value {i}/{j}: format {fmt} value {v}, input format {} value {w}", j % 3 + 1));
                            }
                            if fmt == 3 {
                                rd.span(cv, cv + 6, "CaretValue3")?;
                                let d = cv + rd.u16(cv + 4)? as usize;
                                rd.span(d, d + 6, "VariationIndex")?;
                                if (rd.u16(d)?, rd.u16(d + 2)?, rd.u16(d + 4)?) != (i as u16, *w, 0x8000) {
                                    return Err(format!("caret value {i}/{j}: device offset lands on the wrong object"));
                                }
                            } else {
                                rd.span(cv, cv + 4, "CaretValue")?;
                            }
                        }
                    }
                }
                rd.check_spans().map(|_| ())
            })())?;
            Ok(Outcome { refused: false, len: b.len() })
        }
        "ivs" => {
            let regions = 3u16;
            let region = |r: u16| wv::VariationRegion::new(vec![wv::RegionAxisCoordinates::new(F2Dot14::from_f32(0.0), F2Dot14::from_f32(0.25 * (r + 1) as f32), F2Dot14::from_f32(1.0))]);
            let data = |s: u32| -> Vec<u8> { (0..c.n * regions as u32).map(|j| ((s * 37 + j * 11 + j / 251) % 251) as u8).collect() };
            let subs: Vec<Option<wv::ItemVariationData>> = (0..c.k)
                .map(|s| if s % 7 == 6 { None } else { Some(wv::ItemVariationData::new(c.n as u16, 0, (0..regions).collect(), data(s))) })
                .collect();
            let ivs = wv::ItemVariationStore::new(wv::VariationRegionList::new(1, (0..regions).map(region).collect()), subs);
            let Some(b) = compile(&ivs)? else { return Ok(refused) };
            let mut rd = Rd::new(&b);
            decode_err((|| -> R<()> {
                if rd.u16(0)? != 1 {
                    return Err("format".into());
                }
                let rl = rd.u32(2)? as usize;
                let cnt = rd.u16(6)? as usize;
                if cnt != c.k as usize {
                    return Err(format!("{cnt} sub-tables, input {}", c.k));
                }
                rd.span(0, 8 + 4 * cnt, "IVS")?;
                if (rd.u16(rl)?, rd.u16(rl + 2)?) != (1, regions) {
                    return Err("region list offset lands on the wrong object".into());
                }
                rd.span(rl, rl + 4 + 6 * regions as usize, "RegionList")?;
                for s in 0..cnt {
                    let off = rd.u32(8 + 4 * s)? as usize;
                    if s % 7 == 6 {
                        if off != 0 {
                            return Err(format!("sub-table {s}: null offset expected"));
                        }
                        continue;
                    }
                    let want = data(s as u32);
                    if (rd.u16(off)?, rd.u16(off + 2)?, rd.u16(off + 4)?) != (c.n as u16, 0, regions) {
                        return Err(format!("sub-table {s}: header differs"));
                    }
                    let at = off + 6 + 2 * regions as usize;
                    rd.span(off, at + want.len(), "ItemVariationData")?;
                    if b.get(at..at + want.len()) != Some(want.as_slice()) {
                        return Err(format!("sub-table {s}: offset {off} does not land on its delta sets"));
                    }
                }
                rd.check_spans().map(|_| ())
            })())?;
            Ok(Outcome { refused: false, len: b.len() })
        }
        _ => {
            // k format-12 sub-tables of n groups each; the last one equals the first (may be shared)
            let groups = |s: u32| -> Vec<(u32, u32, u32)> {
                let s = if s + 1 == c.k && c.k > 1 { 0 } else { s };
                (0..c.n).map(|j| (0x1000 * (s + 1) + 4 * j, 0x1000 * (s + 1) + 4 * j + 2, 1 + 3 * j + s)).collect()
            };
            let recs: Vec<wc::EncodingRecord> = (0..c.k)
                .map(|s| {
                    let g = groups(s).into_iter().map(|(a, b, g)| wc::SequentialMapGroup::new(a, b, g)).collect();
                    wc::EncodingRecord::new(if s % 2 == 0 { wc::PlatformId::Unicode } else { wc::PlatformId::Windows }, 4 + s as u16, wc::CmapSubtable::format_12(0, g))
                })
                .collect();
            let Some(b) = compile(&wc::Cmap::new(recs))? else { return Ok(refused) };
            let mut rd = Rd::new(&b);
            decode_err((|| -> R<()> {
                let cnt = rd.u16(2)? as usize;
                if rd.u16(0)? != 0 || cnt != c.k as usize {
                    return Err(format!("{cnt} encoding records, input {}", c.k));
                }
                rd.span(0, 4 + 8 * cnt, "CmapHeader")?;
                for s in 0..cnt {
                    let at = 4 + 8 * s;
                    if (rd.u16(at)?, rd.u16(at + 2)?) != (if s % 2 == 0 { 0 } else { 3 }, 4 + s as u16) {
                        return Err(format!("encoding record {s} ids differ"));
                    }
                    let off = rd.u32(at + 4)? as usize;
                    let want = groups(s as u32);
                    let n = rd.u32(off + 12)? as usize;
                    if rd.u16(off)? != 12 || n != want.len() || rd.u32(off + 4)? as usize != 16 + 12 * n {
                        return Err(format!("sub-table {s}: offset {off} does not land on a format-12 sub-table of {} groups", want.len()));
                    }
                    rd.span(off, off + 16 + 12 * n, "Cmap12")?;
                    for (j, w) in want.iter().enumerate() {
                        let g = off + 16 + 12 * j;
                        if (rd.u32(g)?, rd.u32(g + 4)?, rd.u32(g + 8)?) != *w {
                            return Err(format!("sub-table {s} group {j} differs"));
                        }
                    }
                }
                rd.check_spans().map(|_| ())
            })())?;
            Ok(Outcome { refused: false, len: b.len() })
        }
    }
}

pub fn run_case(run: &Run, c: &Case) -> Option<Outcome> {
    match check(c) {
        Ok(o) => Some(o),
        Err((class, detail)) => {
            let reason: String = {
                let mut o = String::new();
                for ch in detail.chars() {
                    let ch = if ch.is_ascii_digit() { '#' } else { ch };
                    if !(ch == '#' && o.ends_with('#')) {
                        o.push(ch);
                    }
                }
                o.chars().take(70).collect()
            };
            run.violation(&format!("dump_table({}): {class}: {reason}", c.table), &format!("{c:?}: {detail}"), c.to_json());
            None
        }
    }
}

pub fn replay(run: &Run, case: &Value) {
    let c = Case::from_json(case);
    if let Some(o) = run_case(run, &c) {
        println!("replay: refused={} len={}", o.refused, o.len);
    }
}

pub fn cases(tier: Tier) -> Vec<Case> {
    let quick = tier == Tier::Quick;
    let mut out = vec![];
    let mut push = |t: &str, k: u32, n: u32| out.push(Case { table: t.into(), k, n });
    // name: k records x 1100 chars (2 x 1100 Mac bytes + (k-2) x 2200 UTF-16 bytes): 64 KiB at k ~ 31
    for k in if quick { vec![1, 3, 29, 30, 31, 32, 33, 40] } else { (1..=45).collect::<Vec<u32>>() } {
        push("name", k, 1100);
    }
    for n in if quick { vec![0, 1, 32767] } else { vec![0, 1, 2, 16383, 32766, 32767] } {
        push("name", 3, n); // a few very long / empty strings (UTF-16 length just under 64 KiB)
    }
    // GDEF AttachList: k glyphs x 100 points (202 bytes each): 64 KiB at k ~ 320
    for k in if quick { vec![1, 100, 318, 320, 322, 324, 400] } else { (1..=3).chain(300..=340).chain([400, 650]).collect::<Vec<u32>>() } {
        push("attach", k, 100);
    }
    // GDEF LigCaretList: k glyphs x 60 carets
    for k in if quick { vec![1, 50, 100, 110, 120, 130, 200] } else { (1..=3).chain(90..=140).chain([200, 300]).collect::<Vec<u32>>() } {
        push("ligcaret", k, 60);
    }
    // ItemVariationStore: k sub-tables x n items x 3 regions (32-bit offsets)
    for (k, n) in if quick { vec![(1, 10), (8, 3000), (40, 1000), (300, 100)] } else { vec![(1, 10), (2, 21845), (8, 3000), (40, 1000), (300, 100), (2000, 40), (30, 20000)] } {
        push("ivs", k, n);
    }
    // cmap: k format-12 sub-tables x n groups
    for (k, n) in if quick { vec![(1, 10), (3, 6000), (8, 2000)] } else { vec![(1, 10), (2, 6000), (3, 6000), (8, 2000), (20, 6000), (60, 1200)] } {
        push("cmap12", k, n);
    }
    out
}

pub fn run_all(run: &Run) {
    let cs = cases(run.tier);
    run.bound("other_table_cases", json!({
        "count": cs.len(),
        "name": "k records x 1100-char strings around 64 KiB of storage; a few empty / 32767-char strings",
        "GDEF": "AttachList k x 100 points, LigCaretList k x 60 caret values (formats 1,2,3 with VariationIndex), k swept around the 16-bit limit",
        "ItemVariationStore / cmap": "many large sub-tables behind 32-bit offsets (incl. null offsets, one shared cmap sub-table)",
    }));
    let results: Vec<(usize, Option<Outcome>)> = cs.par_iter().enumerate().map(|(i, c)| (i, run_case(run, c))).collect();
    let mut all = HashSet::new();
    let mut nontrivial = HashSet::new();
    for (i, o) in &results {
        run.eval();
        run.trans(2);
        let Some(o) = o else { continue };
        run.count(&format!("table_cases_checked[{}]", cs[*i].table), 1);
        let mut h = Fnv::new();
        h.str(&cs[*i].table);
        h.u64(o.refused as u64);
        h.u64((o.len / 16384) as u64);
        all.insert(h.finish());
        if o.refused {
            run.count(&format!("table_refused(PackingFailed)[{}]", cs[*i].table), 1);
            nontrivial.insert(h.finish());
        } else if o.len > 65535 {
            run.count(&format!("table_outputs_over_64KiB[{}]", cs[*i].table), 1);
            nontrivial.insert(h.finish());
        }
    }
    run.observe_many(&all, &nontrivial);
    println!("  other tables: {} cases, t={:.1}s", cs.len(), run.elapsed());
}
