//! An independent, byte-level reader of the GPOS structures used by the public-path family
//! (written from the OpenType spec; uses nothing from read-fonts).
//!
//! Every object that is decoded is logged as a span (start, end, kind). Offsets must stay inside the
//! table; two logged objects must be identical or disjoint (an offset landing in the middle of
//! another object shows up as a partial overlap or as a parse failure).

use std::collections::{BTreeMap, HashMap};

pub type R<T> = Result<T, String>;

pub struct Rd<'a> {
    pub b: &'a [u8],
    pub spans: Vec<(usize, usize, &'static str)>,
}

#[derive(Clone, Debug, PartialEq, Eq, Hash)]
pub enum Dev {
    Device { start: u16, end: u16, format: u16, words: Vec<u16> },
    VarIdx { outer: u16, inner: u16 },
}

#[derive(Clone, Debug, PartialEq, Eq, Hash, Default)]
pub struct Val {
    pub v: [i16; 4],
    pub dev: [Option<Dev>; 4],
}
impl Val {
    pub fn is_zero(&self) -> bool {
        self.v == [0; 4] && self.dev.iter().all(|d| d.is_none())
    }
}

#[derive(Clone, Debug, PartialEq, Eq, Hash)]
pub struct Anchor {
    pub format: u16,
    pub x: i16,
    pub y: i16,
    pub point: Option<u16>,
    pub xdev: Option<Dev>,
    pub ydev: Option<Dev>,
}

pub enum Sub {
    Pair1 {
        cov: Vec<u16>,
        sets: Vec<HashMap<u16, (Val, Val)>>,
    },
    Pair2 {
        cov: Vec<u16>,
        cd1: BTreeMap<u16, u16>,
        cd2: BTreeMap<u16, u16>,
        recs: Vec<Vec<(Val, Val)>>,
    },
    MarkBase {
        mark_cov: Vec<u16>,
        base_cov: Vec<u16>,
        #[allow(dead_code)]
        class_count: u16,
        marks: Vec<(u16, Anchor)>,
        bases: Vec<Vec<Option<Anchor>>>,
    },
}

pub struct Lookup {
    /// effective type (the extension's inner type when the lookup is type 9)
    pub kind: u16,
    pub is_extension: bool,
    pub flag: u16,
    pub mark_filtering_set: Option<u16>,
    pub subs: Vec<Sub>,
}

impl<'a> Rd<'a> {
    pub fn new(b: &'a [u8]) -> Self {
        Rd { b, spans: vec![] }
    }
    pub fn u16(&self, at: usize) -> R<u16> {
        self.b
            .get(at..at + 2)
            .map(|s| u16::from_be_bytes([s[0], s[1]]))
            .ok_or_else(|| format!("read of u16 at {at} is outside the table ({} bytes)", self.b.len()))
    }
    pub fn i16(&self, at: usize) -> R<i16> {
        self.u16(at).map(|v| v as i16)
    }
    pub fn u32(&self, at: usize) -> R<u32> {
        self.b
            .get(at..at + 4)
            .map(|s| u32::from_be_bytes([s[0], s[1], s[2], s[3]]))
            .ok_or_else(|| format!("read of u32 at {at} is outside the table ({} bytes)", self.b.len()))
    }
    pub fn span(&mut self, start: usize, end: usize, kind: &'static str) -> R<()> {
        if end > self.b.len() {
            return Err(format!("{kind} at {start}..{end} runs past the table end {}", self.b.len()));
        }
        self.spans.push((start, end, kind));
        Ok(())
    }

    /// two logged objects must be identical or disjoint
    pub fn check_spans(&mut self) -> R<(usize, usize)> {
        // identical byte ranges are one shared object (the compiler de-duplicates equal objects, even
        // of different types, e.g. an empty ScriptList and an empty FeatureList)
        self.spans.sort();
        self.spans.dedup_by(|a, b| a.0 == b.0 && a.1 == b.1);
        let mut covered = 0usize;
        let mut end_max = 0usize;
        let mut prev: Option<(usize, usize, &'static str)> = None;
        for s in &self.spans {
            if s.0 == s.1 {
                continue;
            }
            if let Some(p) = prev {
                if s.0 < p.1 {
                    return Err(format!("objects overlap: {} {}..{} and {} {}..{}", p.2, p.0, p.1, s.2, s.0, s.1));
                }
            }
            covered += s.1 - s.0;
            end_max = end_max.max(s.1);
            prev = Some(*s);
        }
        Ok((covered, end_max))
    }

    pub fn coverage(&mut self, at: usize) -> R<Vec<u16>> {
        let fmt = self.u16(at)?;
        let n = self.u16(at + 2)? as usize;
        let mut out = vec![];
        match fmt {
            1 => {
                self.span(at, at + 4 + 2 * n, "Coverage1")?;
                for i in 0..n {
                    out.push(self.u16(at + 4 + 2 * i)?);
                }
            }
            2 => {
                self.span(at, at + 4 + 6 * n, "Coverage2")?;
                for i in 0..n {
                    let s = self.u16(at + 4 + 6 * i)?;
                    let e = self.u16(at + 6 + 6 * i)?;
                    let ci = self.u16(at + 8 + 6 * i)? as usize;
                    if e < s {
                        return Err(format!("coverage range {s}..{e} reversed"));
                    }
                    if ci != out.len() {
                        return Err(format!("coverage range {s}..{e}: startCoverageIndex {ci}, but {} glyphs precede it", out.len()));
                    }
                    out.extend(s..=e);
                }
            }
            f => return Err(format!("coverage format {f} at {at}")),
        }
        if out.windows(2).any(|w| w[0] >= w[1]) {
            return Err(format!("coverage at {at} not strictly ascending"));
        }
        Ok(out)
    }

    pub fn classdef(&mut self, at: usize) -> R<BTreeMap<u16, u16>> {
        let fmt = self.u16(at)?;
        let mut out = BTreeMap::new();
        match fmt {
            1 => {
                let start = self.u16(at + 2)?;
                let n = self.u16(at + 4)? as usize;
                self.span(at, at + 6 + 2 * n, "ClassDef1")?;
                for i in 0..n {
                    let c = self.u16(at + 6 + 2 * i)?;
                    if c != 0 {
                        out.insert(start.wrapping_add(i as u16), c);
                    }
                }
            }
            2 => {
                let n = self.u16(at + 2)? as usize;
                self.span(at, at + 4 + 6 * n, "ClassDef2")?;
                for i in 0..n {
                    let s = self.u16(at + 4 + 6 * i)?;
                    let e = self.u16(at + 6 + 6 * i)?;
                    let c = self.u16(at + 8 + 6 * i)?;
                    if e < s {
                        return Err(format!("class range {s}..{e} reversed"));
                    }
                    for g in s..=e {
                        if out.insert(g, c).is_some() {
                            return Err(format!("glyph {g} in two class ranges"));
                        }
                    }
                }
            }
            f => return Err(format!("classdef format {f} at {at}")),
        }
        Ok(out)
    }

    fn device(&mut self, at: usize) -> R<Dev> {
        let a = self.u16(at)?;
        let b = self.u16(at + 2)?;
        let f = self.u16(at + 4)?;
        if f == 0x8000 {
            self.span(at, at + 6, "VariationIndex")?;
            return Ok(Dev::VarIdx { outer: a, inner: b });
        }
        if !(1..=3).contains(&f) || b < a {
            return Err(format!("device table at {at}: start {a} end {b} format {f} is neither a Device (format 1-3, end >= start) nor a VariationIndex (format 32768)"));
        }
        let count = (b - a) as usize + 1;
        let per_word = [8usize, 4, 2][f as usize - 1];
        let nwords = (count + per_word - 1) / per_word;
        self.span(at, at + 6 + 2 * nwords, "Device")?;
        let mut words = vec![];
        for i in 0..nwords {
            words.push(self.u16(at + 6 + 2 * i)?);
        }
        Ok(Dev::Device { start: a, end: b, format: f, words })
    }

    pub fn value_size(format: u16) -> usize {
        2 * (format & 0xFF).count_ones() as usize
    }

    /// value record at `at`; device offsets are relative to `base`
    fn value(&mut self, at: usize, format: u16, base: usize) -> R<Val> {
        if format & 0xFF00 != 0 {
            return Err(format!("value format {format:#x} has reserved bits"));
        }
        let mut v = Val::default();
        let mut p = at;
        for i in 0..4 {
            if format & (1 << i) != 0 {
                v.v[i] = self.i16(p)?;
                p += 2;
            }
        }
        for i in 0..4 {
            if format & (0x10 << i) != 0 {
                let off = self.u16(p)? as usize;
                p += 2;
                if off != 0 {
                    v.dev[i] = Some(self.device(base + off)?);
                }
            }
        }
        Ok(v)
    }

    fn anchor(&mut self, at: usize) -> R<Anchor> {
        let format = self.u16(at)?;
        let x = self.i16(at + 2)?;
        let y = self.i16(at + 4)?;
        match format {
            1 => {
                self.span(at, at + 6, "Anchor1")?;
                Ok(Anchor { format, x, y, point: None, xdev: None, ydev: None })
            }
            2 => {
                self.span(at, at + 8, "Anchor2")?;
                Ok(Anchor { format, x, y, point: Some(self.u16(at + 6)?), xdev: None, ydev: None })
            }
            3 => {
                self.span(at, at + 10, "Anchor3")?;
                let xo = self.u16(at + 6)? as usize;
                let yo = self.u16(at + 8)? as usize;
                let xdev = if xo != 0 { Some(self.device(at + xo)?) } else { None };
                let ydev = if yo != 0 { Some(self.device(at + yo)?) } else { None };
                Ok(Anchor { format, x, y, point: None, xdev, ydev })
            }
            f => Err(format!("anchor format {f} at {at}")),
        }
    }

    fn pair_pos(&mut self, at: usize) -> R<Sub> {
        let fmt = self.u16(at)?;
        let cov_off = self.u16(at + 2)? as usize;
        let vf1 = self.u16(at + 4)?;
        let vf2 = self.u16(at + 6)?;
        let (s1, s2) = (Self::value_size(vf1), Self::value_size(vf2));
        match fmt {
            1 => {
                let n = self.u16(at + 8)? as usize;
                self.span(at, at + 10 + 2 * n, "PairPos1")?;
                let cov = self.coverage(at + cov_off)?;
                if cov.len() != n {
                    return Err(format!("PairPos1 at {at}: {} covered glyphs, {n} pair sets", cov.len()));
                }
                let mut sets = vec![];
                for i in 0..n {
                    let ps = at + self.u16(at + 10 + 2 * i)? as usize;
                    if ps == at {
                        return Err(format!("PairPos1 at {at}: null pair set offset {i}"));
                    }
                    let cnt = self.u16(ps)? as usize;
                    let rec = 2 + s1 + s2;
                    self.span(ps, ps + 2 + cnt * rec, "PairSet")?;
                    let mut m = HashMap::new();
                    let mut last: Option<u16> = None;
                    for r in 0..cnt {
                        let p = ps + 2 + r * rec;
                        let g2 = self.u16(p)?;
                        if last.map(|l| l >= g2).unwrap_or(false) {
                            return Err(format!("PairSet at {ps}: second glyphs not ascending"));
                        }
                        last = Some(g2);
                        let v1 = self.value(p + 2, vf1, ps)?;
                        let v2 = self.value(p + 2 + s1, vf2, ps)?;
                        m.insert(g2, (v1, v2));
                    }
                    sets.push(m);
                }
                Ok(Sub::Pair1 { cov, sets })
            }
            2 => {
                let cd1_off = self.u16(at + 8)? as usize;
                let cd2_off = self.u16(at + 10)? as usize;
                let c1 = self.u16(at + 12)? as usize;
                let c2 = self.u16(at + 14)? as usize;
                let rec = s1 + s2;
                self.span(at, at + 16 + c1 * c2 * rec, "PairPos2")?;
                let cov = self.coverage(at + cov_off)?;
                let cd1 = self.classdef(at + cd1_off)?;
                let cd2 = self.classdef(at + cd2_off)?;
                let mut recs = vec![];
                for i in 0..c1 {
                    let mut row = vec![];
                    for j in 0..c2 {
                        let p = at + 16 + (i * c2 + j) * rec;
                        let v1 = self.value(p, vf1, at)?;
                        let v2 = self.value(p + s1, vf2, at)?;
                        row.push((v1, v2));
                    }
                    recs.push(row);
                }
                Ok(Sub::Pair2 { cov, cd1, cd2, recs })
            }
            f => Err(format!("PairPos format {f} at {at}")),
        }
    }

    fn mark_base(&mut self, at: usize) -> R<Sub> {
        let fmt = self.u16(at)?;
        if fmt != 1 {
            return Err(format!("MarkBasePos format {fmt} at {at}"));
        }
        self.span(at, at + 12, "MarkBasePos1")?;
        let mark_cov = {
            let o = self.u16(at + 2)? as usize;
            self.coverage(at + o)?
        };
        let base_cov = {
            let o = self.u16(at + 4)? as usize;
            self.coverage(at + o)?
        };
        let class_count = self.u16(at + 6)?;
        let ma = at + self.u16(at + 8)? as usize;
        let ba = at + self.u16(at + 10)? as usize;
        let mcount = self.u16(ma)? as usize;
        self.span(ma, ma + 2 + 4 * mcount, "MarkArray")?;
        if mcount != mark_cov.len() {
            return Err(format!("MarkArray at {ma}: {mcount} records for {} covered marks", mark_cov.len()));
        }
        let mut marks = vec![];
        for i in 0..mcount {
            let class = self.u16(ma + 2 + 4 * i)?;
            let ao = self.u16(ma + 4 + 4 * i)? as usize;
            if class >= class_count {
                return Err(format!("mark record {i}: class {class} >= markClassCount {class_count}"));
            }
            if ao == 0 {
                return Err(format!("mark record {i}: null anchor offset"));
            }
            marks.push((class, self.anchor(ma + ao)?));
        }
        let bcount = self.u16(ba)? as usize;
        let cc = class_count as usize;
        self.span(ba, ba + 2 + 2 * bcount * cc, "BaseArray")?;
        if bcount != base_cov.len() {
            return Err(format!("BaseArray at {ba}: {bcount} records for {} covered bases", base_cov.len()));
        }
        let mut bases = vec![];
        for i in 0..bcount {
            let mut row = vec![];
            for c in 0..cc {
                let ao = self.u16(ba + 2 + 2 * (i * cc + c))? as usize;
                row.push(if ao == 0 { None } else { Some(self.anchor(ba + ao)?) });
            }
            bases.push(row);
        }
        Ok(Sub::MarkBase { mark_cov, base_cov, class_count, marks, bases })
    }

    /// Decode a whole GPOS table: header and lookup list (script/feature lists are only bounds checked).
    pub fn gpos(&mut self) -> R<Vec<Lookup>> {
        let major = self.u16(0)?;
        let minor = self.u16(2)?;
        if major != 1 || minor > 1 {
            return Err(format!("GPOS version {major}.{minor}"));
        }
        let hdr = if minor == 1 { 14 } else { 10 };
        self.span(0, hdr, "GposHeader")?;
        let sl = self.u16(4)? as usize;
        let fl = self.u16(6)? as usize;
        let ll = self.u16(8)? as usize;
        if sl != 0 {
            let n = self.u16(sl)? as usize;
            self.span(sl, sl + 2 + 6 * n, "ScriptList")?;
        }
        if fl != 0 {
            let n = self.u16(fl)? as usize;
            self.span(fl, fl + 2 + 6 * n, "FeatureList")?;
        }
        if ll == 0 {
            return Ok(vec![]);
        }
        let n = self.u16(ll)? as usize;
        self.span(ll, ll + 2 + 2 * n, "LookupList")?;
        let mut out = vec![];
        for i in 0..n {
            let lo = ll + self.u16(ll + 2 + 2 * i)? as usize;
            let ltype = self.u16(lo)?;
            let flag = self.u16(lo + 2)?;
            let sc = self.u16(lo + 4)? as usize;
            let has_mfs = flag & 0x10 != 0;
            self.span(lo, lo + 6 + 2 * sc + if has_mfs { 2 } else { 0 }, "Lookup")?;
            let mark_filtering_set = if has_mfs { Some(self.u16(lo + 6 + 2 * sc)?) } else { None };
            let mut kind = ltype;
            let mut subs = vec![];
            for s in 0..sc {
                let mut so = lo + self.u16(lo + 6 + 2 * s)? as usize;
                let mut st = ltype;
                if ltype == 9 {
                    let f = self.u16(so)?;
                    if f != 1 {
                        return Err(format!("extension format {f} at {so}"));
                    }
                    self.span(so, so + 8, "ExtensionPos")?;
                    st = self.u16(so + 2)?;
                    if st == 9 {
                        return Err("extension of extension".into());
                    }
                    so += self.u32(so + 4)? as usize;
                    if s > 0 && st != kind {
                        return Err(format!("extension sub-tables of lookup {i} have types {kind} and {st}"));
                    }
                    kind = st;
                }
                subs.push(match st {
                    2 => self.pair_pos(so)?,
                    4 => self.mark_base(so)?,
                    t => return Err(format!("lookup {i}: sub-table type {t} not expected in this family")),
                });
            }
            out.push(Lookup { kind, is_extension: ltype == 9, flag, mark_filtering_set, subs });
        }
        Ok(out)
    }
}

impl Lookup {
    /// First-match evaluation of a pair lookup, as a shaping engine does it: sub-tables in order; a
    /// format-1 sub-table applies iff g1 is covered and its pair set has a record for g2; a format-2
    /// sub-table applies iff g1 is covered (class 0 included).
    pub fn eval_pair(&self, g1: u16, g2: u16) -> Option<(Val, Val)> {
        for s in &self.subs {
            match s {
                Sub::Pair1 { cov, sets } => {
                    if let Ok(i) = cov.binary_search(&g1) {
                        if let Some(v) = sets[i].get(&g2) {
                            return Some(v.clone());
                        }
                    }
                }
                Sub::Pair2 { cov, cd1, cd2, recs } => {
                    if cov.binary_search(&g1).is_ok() {
                        let c1 = cd1.get(&g1).copied().unwrap_or(0) as usize;
                        let c2 = cd2.get(&g2).copied().unwrap_or(0) as usize;
                        if c1 < recs.len() && c2 < recs[c1].len() {
                            return Some(recs[c1][c2].clone());
                        }
                    }
                }
                _ => {}
            }
        }
        None
    }
    /// First sub-table covering both glyphs: (mark anchor, base anchor) if the base has an anchor
    /// for the mark's class.
    pub fn eval_mark_base(&self, mark: u16, base: u16) -> Option<(Anchor, Anchor)> {
        for s in &self.subs {
            if let Sub::MarkBase { mark_cov, base_cov, marks, bases, .. } = s {
                if let (Ok(mi), Ok(bi)) = (mark_cov.binary_search(&mark), base_cov.binary_search(&base)) {
                    let (class, manchor) = &marks[mi];
                    // a null base anchor means this sub-table does not apply; the engine goes on
                    if let Some(b) = bases[bi][*class as usize].clone() {
                        return Some((manchor.clone(), b));
                    }
                }
            }
        }
        None
    }
}
