//! Family S: real `Gsub` values through `dump_table`. GSUB sub-tables are never split by the packer,
//! so a lookup either compiles to bytes in which every offset resolves (possibly after extension
//! promotion) or compilation returns `PackingFailed`. Decoded by a byte-level GSUB reader written
//! from the spec (shares only the primitive readers / span log of `gpos_raw::Rd`).

use crate::gpos_raw::{Rd, R};
use rayon::prelude::*;
use serde_json::{json, Value};
use std::collections::HashSet;
use vcore::*;
use write_fonts::tables::gsub as w;
use write_fonts::tables::layout as wl;
use write_fonts::types::GlyphId16;

#[derive(Clone, Debug)]
pub struct Case {
    /// 0 MultipleSubst, 1 AlternateSubst, 2 LigatureSubst, 3 SingleSubst format 2
    pub kind: u8,
    /// covered glyphs per lookup
    pub k: u32,
    /// sequence / alternate-set length, or ligatures per set
    pub n: u32,
    pub lookups: u8,
    /// coverage style: 0 contiguous, 1 every other glyph
    pub cov: u8,
    /// bit i set: lookup i is AUTHORED as an extension lookup (`SubstitutionLookup::Extension`), as
    /// when a parsed font is recompiled
    pub ext: u8,
}

impl Case {
    pub fn to_json(&self) -> Value {
        json!({"family":"gsub","kind":self.kind,"k":self.k,"n":self.n,"lookups":self.lookups,"cov":self.cov,"ext":self.ext})
    }
    pub fn from_json(v: &Value) -> Case {
        let g = |k: &str| v[k].as_u64().unwrap_or(0);
        Case { kind: g("kind") as u8, k: g("k") as u32, n: g("n") as u32, lookups: g("lookups") as u8, cov: g("cov") as u8, ext: g("ext") as u8 }
    }
    fn class(&self) -> String {
        let authored = match self.ext.count_ones() {
            0 => "none",
            n if n as u8 == self.lookups => "all",
            _ => "some",
        };
        format!("{} cov={} lookups={} authored-extension={}", ["MultipleSubst", "AlternateSubst", "LigatureSubst", "SingleSubst2"][self.kind as usize], self.cov, self.lookups, authored)
    }
}

/// decoded / expected content of one lookup: covered glyph -> list of glyph sequences
/// (multiple/alternate/single: one sequence; ligature: per ligature [ligature glyph, components...])
type Content = Vec<(u16, Vec<Vec<u16>>)>;

fn glyph(c: &Case, l: u32, i: u32) -> u16 {
    (10 + l * 6000 + if c.cov == 0 { i } else { 2 * i }) as u16
}

fn build(c: &Case) -> (w::Gsub, Vec<Content>) {
    let mut lookups = vec![];
    let mut expects = vec![];
    for l in 0..c.lookups as u32 {
        let cov: wl::CoverageTable = (0..c.k).map(|i| GlyphId16::new(glyph(c, l, i))).collect();
        let mut content: Content = vec![];
        for i in 0..c.k {
            // unique per (lookup, glyph) so that nothing de-duplicates
            let seq = |salt: u32, n: u32| -> Vec<u16> { (0..n).map(|j| (20000 + (l * 977 + i * 31 + j * 7 + salt * 13) % 20000) as u16).collect() };
            let items = match c.kind {
                2 => (0..c.n).map(|m| {
                    let mut v = vec![(45000 + (i * 53 + m) % 15000) as u16];
                    v.extend(seq(m, 2 + m % 3));
                    v
                }).collect(),
                3 => vec![seq(0, 1)],
                _ => vec![seq(0, c.n)],
            };
            content.push((glyph(c, l, i), items));
        }
        let g = |v: &[u16]| -> Vec<GlyphId16> { v.iter().map(|x| GlyphId16::new(*x)).collect() };
        let flag = wl::LookupFlag::empty();
        let authored = c.ext & (1 << l) != 0;
        type E<T> = w::ExtensionSubstFormat1<T>;
        let ext_lookup = |e: w::ExtensionSubtable| w::SubstitutionLookup::Extension(wl::Lookup::new(flag, vec![e]));
        lookups.push(match c.kind {
            0 => {
                let sub = w::MultipleSubstFormat1::new(cov, content.iter().map(|x| w::Sequence::new(g(&x.1[0]))).collect());
                if authored { ext_lookup(w::ExtensionSubtable::Multiple(E::new(2, sub))) } else { w::SubstitutionLookup::Multiple(wl::Lookup::new(flag, vec![sub])) }
            }
            1 => {
                let sub = w::AlternateSubstFormat1::new(cov, content.iter().map(|x| w::AlternateSet::new(g(&x.1[0]))).collect());
                if authored { ext_lookup(w::ExtensionSubtable::Alternate(E::new(3, sub))) } else { w::SubstitutionLookup::Alternate(wl::Lookup::new(flag, vec![sub])) }
            }
            2 => {
                let sub = w::LigatureSubstFormat1::new(cov, content.iter().map(|x| w::LigatureSet::new(x.1.iter().map(|lg| w::Ligature::new(GlyphId16::new(lg[0]), g(&lg[1..]))).collect())).collect());
                if authored { ext_lookup(w::ExtensionSubtable::Ligature(E::new(4, sub))) } else { w::SubstitutionLookup::Ligature(wl::Lookup::new(flag, vec![sub])) }
            }
            _ => {
                let sub = w::SingleSubst::format_2(cov, content.iter().map(|x| GlyphId16::new(x.1[0][0])).collect());
                if authored { ext_lookup(w::ExtensionSubtable::Single(E::new(1, sub))) } else { w::SubstitutionLookup::Single(wl::Lookup::new(flag, vec![sub])) }
            }
        });
        expects.push(content);
    }
    (w::Gsub::new(Default::default(), Default::default(), wl::LookupList::new(lookups)), expects)
}

struct Decoded {
    kind: u16,
    extension: bool,
    subs: Vec<Content>,
}

fn glyph_array(rd: &Rd, at: usize, n: usize) -> R<Vec<u16>> {
    (0..n).map(|i| rd.u16(at + 2 * i)).collect()
}

fn decode(rd: &mut Rd) -> R<Vec<Decoded>> {
    let (major, minor) = (rd.u16(0)?, rd.u16(2)?);
    if major != 1 || minor > 1 {
        return Err(format!("GSUB version {major}.{minor}"));
    }
    rd.span(0, if minor == 1 { 14 } else { 10 }, "GsubHeader")?;
    for (at, name) in [(4usize, "ScriptList"), (6, "FeatureList")] {
        let o = rd.u16(at)? as usize;
        if o != 0 {
            let n = rd.u16(o)? as usize;
            rd.span(o, o + 2 + 6 * n, name)?;
        }
    }
    let ll = rd.u16(8)? as usize;
    let n = rd.u16(ll)? as usize;
    rd.span(ll, ll + 2 + 2 * n, "LookupList")?;
    let mut out = vec![];
    for i in 0..n {
        let lo = ll + rd.u16(ll + 2 + 2 * i)? as usize;
        let ltype = rd.u16(lo)?;
        let flag = rd.u16(lo + 2)?;
        let sc = rd.u16(lo + 4)? as usize;
        rd.span(lo, lo + 6 + 2 * sc + if flag & 0x10 != 0 { 2 } else { 0 }, "Lookup")?;
        let mut kind = ltype;
        let mut subs = vec![];
        for s in 0..sc {
            let mut so = lo + rd.u16(lo + 6 + 2 * s)? as usize;
            let mut st = ltype;
            if ltype == 7 {
                if rd.u16(so)? != 1 {
                    return Err(format!("extension format at {so}"));
                }
                rd.span(so, so + 8, "ExtensionSubst")?;
                st = rd.u16(so + 2)?;
                if st == 7 {
                    return Err("extension of extension".into());
                }
                so += rd.u32(so + 4)? as usize;
                kind = st;
            }
            let fmt = rd.u16(so)?;
            let cov_off = rd.u16(so + 2)? as usize;
            let mut content: Content = vec![];
            match (st, fmt) {
                (1, 2) => {
                    let cnt = rd.u16(so + 4)? as usize;
                    rd.span(so, so + 6 + 2 * cnt, "SingleSubst2")?;
                    let cov = rd.coverage(so + cov_off)?;
                    if cov.len() != cnt {
                        return Err(format!("SingleSubst2: {} covered, {cnt} substitutes", cov.len()));
                    }
                    for (i, g) in cov.iter().enumerate() {
                        content.push((*g, vec![vec![rd.u16(so + 6 + 2 * i)?]]));
                    }
                }
                (2, 1) | (3, 1) => {
                    let cnt = rd.u16(so + 4)? as usize;
                    rd.span(so, so + 6 + 2 * cnt, if st == 2 { "MultipleSubst1" } else { "AlternateSubst1" })?;
                    let cov = rd.coverage(so + cov_off)?;
                    if cov.len() != cnt {
                        return Err(format!("{} covered glyphs, {cnt} sequences/sets", cov.len()));
                    }
                    for (i, g) in cov.iter().enumerate() {
                        let o = rd.u16(so + 6 + 2 * i)? as usize;
                        if o == 0 {
                            return Err("null sequence/set offset".into());
                        }
                        let n = rd.u16(so + o)? as usize;
                        rd.span(so + o, so + o + 2 + 2 * n, if st == 2 { "Sequence" } else { "AlternateSet" })?;
                        content.push((*g, vec![glyph_array(rd, so + o + 2, n)?]));
                    }
                }
                (4, 1) => {
                    let cnt = rd.u16(so + 4)? as usize;
                    rd.span(so, so + 6 + 2 * cnt, "LigatureSubst1")?;
                    let cov = rd.coverage(so + cov_off)?;
                    if cov.len() != cnt {
                        return Err(format!("{} covered glyphs, {cnt} ligature sets", cov.len()));
                    }
                    for (i, g) in cov.iter().enumerate() {
                        let set = so + rd.u16(so + 6 + 2 * i)? as usize;
                        let ln = rd.u16(set)? as usize;
                        rd.span(set, set + 2 + 2 * ln, "LigatureSet")?;
                        let mut ligs = vec![];
                        for k in 0..ln {
                            let lg = set + rd.u16(set + 2 + 2 * k)? as usize;
                            let comp = rd.u16(lg + 2)? as usize;
                            if comp == 0 {
                                return Err("ligature with component count 0".into());
                            }
                            rd.span(lg, lg + 4 + 2 * (comp - 1), "Ligature")?;
                            let mut v = vec![rd.u16(lg)?];
                            v.extend(glyph_array(rd, lg + 4, comp - 1)?);
                            ligs.push(v);
                        }
                        content.push((*g, ligs));
                    }
                }
                (5, 3) => {
                    // SequenceContextFormat3: glyphCount, seqLookupCount, coverageOffsets[], records[]
                    let gc = rd.u16(so + 2)? as usize;
                    let rc = rd.u16(so + 4)? as usize;
                    rd.span(so, so + 6 + 2 * gc + 4 * rc, "SequenceContext3")?;
                    let mut arrays = vec![];
                    for k in 0..gc {
                        let o = rd.u16(so + 6 + 2 * k)? as usize;
                        arrays.push(rd.coverage(so + o)?);
                    }
                    arrays.push(vec![0xFFFF]);
                    arrays.push(glyph_array(rd, so + 6 + 2 * gc, 2 * rc)?);
                    content.push((0, arrays));
                }
                (6, 3) => {
                    // ChainedSequenceContextFormat3: three counted coverage-offset arrays, then records
                    let mut at = so + 2;
                    let mut arrays = vec![];
                    for _ in 0..3 {
                        let n = rd.u16(at)? as usize;
                        for k in 0..n {
                            let o = rd.u16(at + 2 + 2 * k)? as usize;
                            arrays.push(rd.coverage(so + o)?);
                        }
                        arrays.push(vec![0xFFFF]);
                        at += 2 + 2 * n;
                    }
                    let rc = rd.u16(at)? as usize;
                    arrays.push(glyph_array(rd, at + 2, 2 * rc)?);
                    rd.span(so, at + 2 + 4 * rc, "ChainedSequenceContext3")?;
                    content.push((0, arrays));
                }
                (8, 1) => {
                    // ReverseChainSingleSubstFormat1: coverage, backtrack[], lookahead[], substitutes[]
                    let mut arrays = vec![rd.coverage(so + cov_off)?, vec![0xFFFF]];
                    let mut at = so + 4;
                    for _ in 0..2 {
                        let n = rd.u16(at)? as usize;
                        for k in 0..n {
                            let o = rd.u16(at + 2 + 2 * k)? as usize;
                            arrays.push(rd.coverage(so + o)?);
                        }
                        arrays.push(vec![0xFFFF]);
                        at += 2 + 2 * n;
                    }
                    let gc = rd.u16(at)? as usize;
                    arrays.push(glyph_array(rd, at + 2, gc)?);
                    rd.span(so, at + 2 + 2 * gc, "ReverseChainSingleSubst1")?;
                    if arrays[0].len() != gc {
                        return Err(format!("ReverseChain: {} covered glyphs, {gc} substitutes", arrays[0].len()));
                    }
                    content.push((0, arrays));
                }
                (t, f) => return Err(format!("lookup {i}: sub-table type {t} format {f} not expected")),
            }
            subs.push(content);
        }
        out.push(Decoded { kind, extension: ltype == 7, subs });
    }
    Ok(out)
}

pub struct Outcome {
    pub refused: bool,
    pub extension: bool,
    pub len: usize,
    pub unreferenced: usize,
}

pub fn check(c: &Case) -> Result<Outcome, (String, String)> {
    let e = |cl: &str, d: String| Err((cl.to_string(), d));
    let (gsub, expects) = build(c);
    let bytes = match guard(|| write_fonts::dump_table(&gsub)) {
        Ok(Ok(b)) => b,
        Ok(Err(write_fonts::error::Error::PackingFailed(_))) => return Ok(Outcome { refused: true, extension: false, len: 0, unreferenced: 0 }),
        Ok(Err(err)) => return e("dump_table-error-other-than-PackingFailed", format!("{err}")),
        Err(p) => return e(&format!("dump_table panic: {} [{}]", p.kind().split_whitespace().collect::<Vec<_>>().join(" "), p.site()), format!("{} at {}:{}", p.message, p.file, p.line)),
    };
    let mut rd = Rd::new(&bytes);
    let dec = match decode(&mut rd) {
        Ok(d) => d,
        Err(d) => return e("output-does-not-decode", d),
    };
    let (covered, _) = match rd.check_spans() {
        Ok(x) => x,
        Err(d) => return e("objects-overlap", d),
    };
    if dec.len() != expects.len() {
        return e("lookup-count-differs", format!("{} vs {}", dec.len(), expects.len()));
    }
    let want_kind = [2u16, 3, 4, 1][c.kind as usize];
    for (li, (d, ex)) in dec.iter().zip(&expects).enumerate() {
        if d.kind != want_kind {
            return e("lookup-type-differs", format!("lookup {li}: type {} (extension {}), input type {want_kind}", d.kind, d.extension));
        }
        // no GSUB splitting exists: the content of the sub-tables, concatenated, is the input
        let got: Content = d.subs.iter().flatten().cloned().collect();
        if &got != ex {
            let at = got.iter().zip(ex.iter()).position(|(a, b)| a != b);
            return e("substitution-content-differs", format!("lookup {li}: {} vs {} covered glyphs, first difference at {:?}", got.len(), ex.len(), at));
        }
    }
    Ok(Outcome { refused: false, extension: dec.iter().any(|d| d.extension), len: bytes.len(), unreferenced: bytes.len().saturating_sub(covered) })
}

pub fn run_case(run: &Run, c: &Case) -> Option<Outcome> {
    match check(c) {
        Ok(o) => Some(o),
        Err((class, detail)) => {
            let reason: String = if class == "output-does-not-decode" || class == "objects-overlap" {
                {
                    let mut o = String::new();
                    for ch in detail.chars() {
                        let ch = if ch.is_ascii_digit() { '#' } else { ch };
                        if !(ch == '#' && o.ends_with('#')) {
                            o.push(ch);
                        }
                    }
                    format!(": {}", o.chars().take(80).collect::<String>())
                }
            } else {
                String::new()
            };
            run.violation(&format!("dump_table(Gsub): {class}{reason} ({})", c.class()), &format!("{c:?}: {detail}"), c.to_json());
            None
        }
    }
}

pub fn replay(run: &Run, case: &Value) {
    let c = Case::from_json(case);
    if let Some(o) = run_case(run, &c) {
        println!("replay: refused={} extension={} len={}", o.refused, o.extension, o.len);
    }
}

/// which lookups are authored as extension lookups: none, each single position, all
fn ext_masks(lookups: u8, none_only: bool) -> Vec<u8> {
    if none_only {
        return vec![0];
    }
    let mut m = vec![0u8];
    for i in 0..lookups {
        m.push(1 << i);
    }
    if lookups > 1 {
        m.push((1u8 << lookups) - 1);
    }
    m
}

pub fn cases(tier: Tier) -> Vec<Case> {
    let quick = tier == Tier::Quick;
    let mut out = vec![];
    // Multiple / Alternate: per covered glyph 2 (offset) + 2 + 2n (+2 coverage); n = 100 -> 64 KiB at k ~ 318
    for kind in [0u8, 1] {
        for cov in [0u8, 1] {
            let ks: Vec<u32> = if quick { vec![2, 150, 316, 317, 318, 319, 320, 400] } else { (1..=3).chain(140..=160).chain(300..=330).chain([400, 640]).collect() };
            for k in ks {
                for lookups in [1u8, 3] {
                    if lookups == 3 && (k > 330 || quick && k != 150 && k != 318) {
                        continue;
                    }
                    for ext in ext_masks(lookups, quick && !(k == 150 || k == 318 || k == 2)) {
                        out.push(Case { kind, k, n: 100, lookups, cov, ext });
                    }
                }
            }
        }
    }
    // Ligature: k first glyphs x 60 ligatures of 3..5 glyphs (~ 2+60*(2+4+2*3) bytes per set): 64 KiB at k ~ 88
    for cov in [0u8, 1] {
        let ks: Vec<u32> = if quick { vec![2, 40, 84, 86, 88, 90, 92, 120] } else { (1..=2).chain(36..=44).chain(78..=98).chain([120, 180]).collect() };
        for k in ks {
            for lookups in [1u8, 3] {
                if lookups == 3 && (k > 98 || quick && k != 40 && k != 88) {
                    continue;
                }
                for ext in ext_masks(lookups, quick && !(k == 40 || k == 88 || k == 2)) {
                    out.push(Case { kind: 2, k, n: 60, lookups, cov, ext });
                }
            }
        }
    }
    // SingleSubst format 2: 2 bytes per glyph: cannot overflow alone; many lookups of 30 000 glyphs...
    // (coverage format 1 for cov = 1: 60 KB coverage + 60 KB substitutes per lookup)
    for (k, lookups) in if quick { vec![(5000u32, 2u8)] } else { vec![(5000, 2), (5000, 4)] } {
        for ext in ext_masks(lookups, false) {
            out.push(Case { kind: 3, k, n: 1, lookups, cov: 1, ext });
        }
    }
    // the promotion pass with an authored extension lookup next to lookups of very different
    // shape: one big single-subtable lookup (authored or not) + small lookups
    for ext in 0..8u8 {
        for kind in [0u8, 2] {
            out.push(Case { kind, k: if kind == 0 { 200 } else { 60 }, n: if kind == 0 { 100 } else { 60 }, lookups: 3, cov: 0, ext });
        }
    }
    out
}

pub fn run_all(run: &Run) {
    let cs = cases(run.tier);
    run.bound("gsub_path_cases", json!({
        "count": cs.len(),
        "MultipleSubst/AlternateSubst": "k covered glyphs x sequences/sets of 100 glyphs, k swept around the 64 KiB sub-table size; 1 or 3 lookups",
        "LigatureSubst": "k first glyphs x 60 ligatures of 3..5 glyphs, k swept around 64 KiB; 1 or 3 lookups",
        "SingleSubst2": "5000 glyphs with format-1 coverage, 2 or 4 lookups",
        "authored_extension": "each family also with none / one (every position) / all lookups authored as SubstitutionLookup::Extension",
    }));
    let results: Vec<(usize, Option<Outcome>)> = cs.par_iter().enumerate().map(|(i, c)| (i, run_case(run, c))).collect();
    let mut all = HashSet::new();
    let mut nontrivial = HashSet::new();
    for (i, o) in &results {
        run.eval();
        run.trans(2);
        let Some(o) = o else { continue };
        run.count("gsub_cases_checked", 1);
        let mut h = Fnv::new();
        h.str("gsub");
        h.u64(cs[*i].kind as u64);
        h.u64(o.refused as u64);
        h.u64(o.extension as u64);
        h.u64((o.len / 32768) as u64);
        all.insert(h.finish());
        if o.refused {
            run.count("gsub_refused(PackingFailed)", 1);
            nontrivial.insert(h.finish());
            continue;
        }
        if o.extension {
            run.count("gsub_cases_with_extension_promotion", 1);
            nontrivial.insert(h.finish());
        }
        if o.unreferenced > 0 {
            run.count("gsub_outputs_with_unreferenced_bytes(info)", 1);
        }
    }
    run.observe_many(&all, &nontrivial);
    println!("  gsub path: {} cases, t={:.1}s", cs.len(), run.elapsed());
}


// ---------------------------------------------------------------------------
// promotion family: every GSUB lookup type 1..=8 with many sub-tables
// ---------------------------------------------------------------------------

/// One lookup of GSUB type `ltype` (1..=6 or 8) with `subtables` sub-tables of ~600-700 bytes each (all
/// different, so nothing de-duplicates), optionally next to a small lookup of another type placed
/// before (companion 1) or after (2) it. With enough sub-tables the 16-bit offsets from the lookup
/// to its sub-tables overflow and the lookup has to be promoted to an extension lookup: on disk the
/// lookup type must then be 7 with extensionLookupType = ltype, and every sub-table must decode to
/// what was written.
#[derive(Clone, Debug)]
pub struct PromoCase {
    pub ltype: u8,
    pub subtables: u32,
    pub companion: u8,
}

impl PromoCase {
    pub fn to_json(&self) -> Value {
        json!({"family":"gsub_promo","ltype":self.ltype,"subtables":self.subtables,"companion":self.companion})
    }
    pub fn from_json(v: &Value) -> PromoCase {
        let g = |k: &str| v[k].as_u64().unwrap_or(0);
        PromoCase { ltype: g("ltype") as u8, subtables: g("subtables") as u32, companion: g("companion") as u8 }
    }
}

fn gids(v: &[u16]) -> Vec<GlyphId16> {
    v.iter().map(|x| GlyphId16::new(*x)).collect()
}
/// n glyphs, every other glyph id (=> coverage format 1), different for every (sub-table, slot)
fn glyph_set(ltype: u8, s: u32, slot: u32, n: u32) -> Vec<u16> {
    (0..n).map(|i| (50 + (ltype as u32) * 5000 % 20000 + s * 7 + slot + 2 * i) as u16).collect()
}
fn cov_of(v: &[u16]) -> wl::CoverageTable {
    v.iter().map(|x| GlyphId16::new(*x)).collect()
}

/// one lookup of the given type; returns it with the expected content of every sub-table
fn promo_lookup(ltype: u8, subtables: u32) -> (w::SubstitutionLookup, Vec<Content>) {
    let flag = wl::LookupFlag::empty();
    let mut expect: Vec<Content> = vec![];
    macro_rules! lookup {
        ($variant:ident, $subs:expr) => {
            w::SubstitutionLookup::$variant(wl::Lookup::new(flag, $subs))
        };
    }
    let recs = |s: u32| -> Vec<u16> { vec![0, 0, (s % 3) as u16, 0] }; // two (sequenceIndex, lookupListIndex) records
    let lookup = match ltype {
        1 => lookup!(Single, (0..subtables).map(|s| {
            // 400 substitutes: the sub-table's own bytes (806) x 120 exceed 64 KiB, so the lookup's
            // 16-bit sub-table offsets cannot all fit and the lookup must be promoted
            let c = glyph_set(1, s, 0, 400);
            let subst: Vec<u16> = c.iter().map(|g| g.wrapping_mul(3).wrapping_add(s as u16)).collect();
            expect.push(c.iter().zip(&subst).map(|(g, r)| (*g, vec![vec![*r]])).collect());
            w::SingleSubst::format_2(cov_of(&c), gids(&subst))
        }).collect()),
        2 | 3 => {
            let mut subs2 = vec![];
            let mut subs3 = vec![];
            for s in 0..subtables {
                // 300 covered glyphs (own bytes 606 per sub-table), each with its own two-glyph
                // sequence, unique over the whole table so that nothing de-duplicates
                let c = glyph_set(ltype, s, 0, 300);
                let seqs: Vec<Vec<u16>> = (0..300u32).map(|i| vec![(s * 300 + i) as u16, (s * 300 + i) as u16 ^ 0x5555]).collect();
                expect.push(c.iter().zip(&seqs).map(|(g, q)| (*g, vec![q.clone()])).collect());
                subs2.push(w::MultipleSubstFormat1::new(cov_of(&c), seqs.iter().map(|q| w::Sequence::new(gids(q))).collect()));
                subs3.push(w::AlternateSubstFormat1::new(cov_of(&c), seqs.iter().map(|q| w::AlternateSet::new(gids(q))).collect()));
            }
            if ltype == 2 { lookup!(Multiple, subs2) } else { lookup!(Alternate, subs3) }
        }
        4 => lookup!(Ligature, (0..subtables).map(|s| {
            let c = glyph_set(4, s, 0, 20);
            let sets: Vec<Vec<Vec<u16>>> = c.iter().map(|g| (0..3u16).map(|m| vec![g.wrapping_add(9000 + m), g.wrapping_add(m + 1), 77 + s as u16, 78 + m]).collect()).collect();
            expect.push(c.iter().zip(&sets).map(|(g, l)| (*g, l.clone())).collect());
            w::LigatureSubstFormat1::new(cov_of(&c), sets.iter().map(|l| w::LigatureSet::new(l.iter().map(|lg| w::Ligature::new(GlyphId16::new(lg[0]), gids(&lg[1..]))).collect())).collect())
        }).collect()),
        5 => lookup!(Contextual, (0..subtables).map(|s| {
            let covs: Vec<Vec<u16>> = (0..3).map(|k| glyph_set(5, s, k, 100)).collect();
            let mut arrays = covs.clone();
            arrays.push(vec![0xFFFF]);
            arrays.push(recs(s));
            expect.push(vec![(0, arrays)]);
            let r = recs(s);
            w::SubstitutionSequenceContext::from(wl::SequenceContext::format_3(covs.iter().map(|c| cov_of(c)).collect(), vec![wl::SequenceLookupRecord::new(r[0], r[1]), wl::SequenceLookupRecord::new(r[2], r[3])]))
        }).collect()),
        6 => lookup!(ChainContextual, (0..subtables).map(|s| {
            let b = vec![glyph_set(6, s, 0, 75)];
            let i = vec![glyph_set(6, s, 1, 75), glyph_set(6, s, 2, 75)];
            let l = vec![glyph_set(6, s, 3, 75)];
            let mut arrays = vec![];
            for part in [&b, &i, &l] {
                arrays.extend(part.iter().cloned());
                arrays.push(vec![0xFFFF]);
            }
            arrays.push(recs(s));
            expect.push(vec![(0, arrays)]);
            let r = recs(s);
            let cv = |p: &Vec<Vec<u16>>| -> Vec<wl::CoverageTable> { p.iter().map(|c| cov_of(c)).collect() };
            w::SubstitutionChainContext::from(wl::ChainedSequenceContext::format_3(cv(&b), cv(&i), cv(&l), vec![wl::SequenceLookupRecord::new(r[0], r[1]), wl::SequenceLookupRecord::new(r[2], r[3])]))
        }).collect()),
        _ => lookup!(Reverse, (0..subtables).map(|s| {
            let c = glyph_set(8, s, 0, 300);
            let b = glyph_set(8, s, 1, 50);
            let l = glyph_set(8, s, 2, 50);
            let subst: Vec<u16> = c.iter().map(|g| g.wrapping_add(12345)).collect();
            expect.push(vec![(0, vec![c.clone(), vec![0xFFFF], b.clone(), vec![0xFFFF], l.clone(), vec![0xFFFF], subst.clone()])]);
            w::ReverseChainSingleSubstFormat1::new(cov_of(&c), vec![cov_of(&b)], vec![cov_of(&l)], gids(&subst))
        }).collect()),
    };
    (lookup, expect)
}

pub struct PromoOutcome {
    pub refused: bool,
    pub promoted: bool,
    pub len: usize,
}

pub fn check_promo(c: &PromoCase) -> Result<PromoOutcome, (String, String)> {
    let e = |cl: &str, d: String| Err((cl.to_string(), d));
    let (main, main_expect) = promo_lookup(c.ltype, c.subtables);
    // a small lookup of the next real lookup type (7 is the extension type itself)
    let other = match c.ltype {
        6 => 8,
        8 => 1,
        t => t + 1,
    };
    let mut lookups = vec![];
    let mut expects: Vec<(u8, Vec<Content>)> = vec![];
    if c.companion == 1 {
        let (l, x) = promo_lookup(other, 1);
        lookups.push(l);
        expects.push((other, x));
    }
    lookups.push(main);
    expects.push((c.ltype, main_expect));
    if c.companion == 2 {
        let (l, x) = promo_lookup(other, 1);
        lookups.push(l);
        expects.push((other, x));
    }
    let gsub = w::Gsub::new(Default::default(), Default::default(), wl::LookupList::new(lookups));
    let bytes = match guard(|| write_fonts::dump_table(&gsub)) {
        Ok(Ok(b)) => b,
        Ok(Err(write_fonts::error::Error::PackingFailed(_))) => return Ok(PromoOutcome { refused: true, promoted: false, len: 0 }),
        Ok(Err(err)) => return e("dump_table-error-other-than-PackingFailed", format!("{err}")),
        Err(p) => return e(&format!("dump_table panic: {} [{}]", p.kind().split_whitespace().collect::<Vec<_>>().join(" "), p.site()), format!("{} at {}:{}", p.message, p.file, p.line)),
    };
    let mut rd = Rd::new(&bytes);
    let dec = match decode(&mut rd) {
        Ok(d) => d,
        Err(d) => return e("output-does-not-decode", d),
    };
    if let Err(d) = rd.check_spans() {
        return e("objects-overlap", d);
    }
    if dec.len() != expects.len() {
        return e("lookup-count-differs", format!("{} vs {}", dec.len(), expects.len()));
    }
    for (li, (d, (want_type, want))) in dec.iter().zip(&expects).enumerate() {
        if d.kind != *want_type as u16 {
            return e("lookup-type-differs", format!("lookup {li}: effective type {} (written as extension: {}), input type {want_type}", d.kind, d.extension));
        }
        if &d.subs != want {
            let at = d.subs.iter().zip(want.iter()).position(|(a, b)| a != b);
            return e("sub-table-content-differs", format!("lookup {li} (type {want_type}): {} vs {} sub-tables, first difference at {:?}", d.subs.len(), want.len(), at));
        }
    }
    let main_ix = if c.companion == 1 { 1 } else { 0 };
    Ok(PromoOutcome { refused: false, promoted: dec[main_ix].extension, len: bytes.len() })
}

pub fn run_promo_case(run: &Run, c: &PromoCase) -> Option<PromoOutcome> {
    match check_promo(c) {
        Ok(o) => Some(o),
        Err((class, detail)) => {
            let mut reason = String::new();
            if class == "output-does-not-decode" || class == "objects-overlap" {
                for ch in detail.chars() {
                    let ch = if ch.is_ascii_digit() { '#' } else { ch };
                    if !(ch == '#' && reason.ends_with('#')) {
                        reason.push(ch);
                    }
                }
                reason = format!(": {}", reason.chars().take(70).collect::<String>());
            }
            run.violation(&format!("dump_table(Gsub) promotion: {class}{reason} (GSUB lookup type {} companion={})", c.ltype, c.companion), &format!("{c:?}: {detail}"), c.to_json());
            None
        }
    }
}

pub fn replay_promo(run: &Run, case: &Value) {
    let c = PromoCase::from_json(case);
    if let Some(o) = run_promo_case(run, &c) {
        println!("replay: refused={} promoted={} len={}", o.refused, o.promoted, o.len);
    }
}

pub fn run_promo(run: &Run) {
    let quick = run.tier == Tier::Quick;
    let mut cs = vec![];
    for ltype in [1u8, 2, 3, 4, 5, 6, 8] {
        for subtables in if quick { vec![2u32, 120] } else { vec![1, 2, 60, 100, 110, 120, 200] } {
            for companion in 0..3u8 {
                cs.push(PromoCase { ltype, subtables, companion });
            }
        }
    }
    run.bound("gsub_promotion_cases", json!(format!("{} cases: GSUB lookup types 1-6 and 8 (contextual 5/6 in format 3, 8 = ReverseChainSingleSubst; 7 is the extension type) x sub-table counts {} (~650 bytes each, all distinct) x {{alone, small lookup of another type before, after}}", cs.len(), if quick { "{2, 120}" } else { "{1, 2, 60, 100, 110, 120, 200}" })));
    let results: Vec<(usize, Option<PromoOutcome>)> = cs.par_iter().enumerate().map(|(i, c)| (i, run_promo_case(run, c))).collect();
    let mut all = HashSet::new();
    let mut nontrivial = HashSet::new();
    let mut promoted_types = HashSet::new();
    for (i, o) in &results {
        run.eval();
        run.trans(2);
        let Some(o) = o else { continue };
        run.count("gsub_promo_cases_checked", 1);
        let mut h = Fnv::new();
        h.str("gsub_promo");
        h.u64(cs[*i].ltype as u64);
        h.u64(o.refused as u64);
        h.u64(o.promoted as u64);
        all.insert(h.finish());
        if o.refused {
            run.count("gsub_promo_refused(PackingFailed)", 1);
        }
        if o.promoted {
            run.count("gsub_promo_cases_promoted", 1);
            promoted_types.insert(cs[*i].ltype);
            nontrivial.insert(h.finish());
        }
    }
    run.observe_many(&all, &nontrivial);
    // vacuity gate: every lookup type must have been promoted at least once (when all cases passed)
    if results.iter().all(|r| r.1.is_some()) && promoted_types.len() != 7 {
        let mut t: Vec<u8> = promoted_types.into_iter().collect();
        t.sort();
        run.machinery_error(&format!("GSUB promotion family: only lookup types {t:?} were promoted"));
    }
    println!("  gsub promotion: {} cases, t={:.1}s", cs.len(), run.elapsed());
}
