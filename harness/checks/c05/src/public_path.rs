//! Family P: real `Gpos` values through the public `dump_table`, large enough to force sub-table
//! splitting and extension promotion; decoded by `gpos_raw` and compared with the input rules.
//!
//! Enumerated space (fixed order): see `cases()`; every case is a tuple of small integers, so a
//! replay file fully describes the table.

use crate::gpos_raw::{Anchor, Dev, Lookup as RawLookup, Rd, Val};
use rayon::prelude::*;
use serde_json::{json, Value};
use std::collections::{BTreeSet, HashMap, HashSet};
use vcore::*;
use write_fonts::tables::gpos as w;
use write_fonts::tables::layout as wl;
use write_fonts::types::GlyphId16;

#[derive(Clone, Debug, Default)]
pub struct Case {
    /// 0 = PairPos format 1, 1 = PairPos format 2, 2 = MarkBasePos
    pub kind: u8,
    /// pair1: first glyphs; pair2: class1 count; markbase: marks (= mark classes)
    pub k: u32,
    /// pair1: second glyphs per first; pair2: class2 count; markbase: bases
    pub m: u32,
    /// value/anchor style: 0 plain, 1 two-field records, 2 device tables, 3 variation indices,
    /// 4 (PairPos2) Device in record 1 and VariationIndex in record 2, 5 device-slot patterns
    /// (module `slots`; the fields s1 .. pieces below describe the pattern)
    pub fmt: u8,
    /// first-glyph coverage style: 0 contiguous (format 2, one range), 1 every other glyph
    /// (format 1), 2 runs of five with gaps (format 2, many ranges)
    pub cov: u8,
    /// number of such lookups in the LookupList (each with its own glyph block)
    pub lookups: u8,
    /// bit i set: lookup i is AUTHORED as an extension lookup (`PositionLookup::Extension`); such a
    /// lookup is not split by the packer (too large => PackingFailed is the acceptable answer)
    pub ext: u8,
    /// fmt 5: device-slot mask of value record 1 (bit 0 xPlaDevice, 1 yPlaDevice, 2 xAdvDevice,
    /// 3 yAdvDevice); MarkBasePos: of the mark anchors (bit 0 xDevice, 1 yDevice)
    pub s1: u8,
    /// fmt 5: the same for value record 2 / the base anchors
    pub s2: u8,
    /// fmt 5: device kind: 0 Device, 1 VariationIndex, 2 alternating by (record + slot), 3 reversed
    pub dk: u8,
    /// fmt 5: 0 = each rule carries a sub-mask of the format mask (cycling through all subsets, so
    /// null offsets occur between non-null ones), 1 = each rule fills every slot of the format
    pub fill: u8,
    /// fmt 5: 0 = device content unique per rule, p = content index mod p (shared device tables)
    pub pool: u32,
    /// fmt 5: number of sub-tables the size was chosen for (1 = below the split threshold)
    pub pieces: u8,
}

impl Case {
    pub fn to_json(&self) -> Value {
        json!({"family":"public","kind":self.kind,"k":self.k,"m":self.m,"fmt":self.fmt,"cov":self.cov,"lookups":self.lookups,"ext":self.ext,
               "s1":self.s1,"s2":self.s2,"dk":self.dk,"fill":self.fill,"pool":self.pool,"pieces":self.pieces})
    }
    pub fn from_json(v: &Value) -> Case {
        let g = |k: &str| v[k].as_u64().unwrap_or(0);
        Case { kind: g("kind") as u8, k: g("k") as u32, m: g("m") as u32, fmt: g("fmt") as u8, cov: g("cov") as u8, lookups: g("lookups") as u8, ext: g("ext") as u8,
               s1: g("s1") as u8, s2: g("s2") as u8, dk: g("dk") as u8, fill: g("fill") as u8, pool: g("pool") as u32, pieces: g("pieces") as u8 }
    }
    fn class(&self) -> String {
        format!(
            "{} fmt={}{} cov={} lookups={} authored-extension={}",
            ["PairPos1", "PairPos2", "MarkBasePos"][self.kind as usize],
            self.fmt,
            if self.fmt == 5 { format!(" {}", crate::slots::class(self)) } else { String::new() },
            self.cov,
            self.lookups,
            match self.ext.count_ones() {
                0 => "none",
                n if n as u8 == self.lookups => "all",
                _ => "some",
            }
        )
    }
}

// --- glyph layout -----------------------------------------------------------

fn first_glyph(c: &Case, lookup: u32, i: u32) -> u16 {
    let base = 10 + lookup * 4000;
    (match c.cov {
        0 => base + i,
        1 => base + 2 * i,
        _ => base + i + i / 5,
    }) as u16
}
fn second_glyph(_c: &Case, j: u32) -> u16 {
    (30000 + 2 * j) as u16
}

// --- spec-side encoders for the expected values (independent of write-fonts) --

/// start size 9 + i % 5 and three deltas from -2..=2 taken from (31 i + 7 j) mod 125: 625 distinct
/// device tables (a mix-up of device offsets between rules is visible); +2 sits just outside the
/// 2-bit range -2..=1, +/- the format boundary, so both 2-bit and 4-bit tables occur
fn device_values(i: u32, j: u32) -> (u16, [i8; 3]) {
    let h = (31 * i + 7 * j) % 125;
    (9 + (i % 5) as u16, [(h % 5) as i8 - 2, ((h / 5) % 5) as i8 - 2, ((h / 25) % 5) as i8 - 2])
}
/// spec encoder: smallest format whose SIGNED range holds every delta (1: -2..=1, 2: -8..=7,
/// 3: -128..=127), packed most significant first
fn expected_device((start, vals): (u16, [i8; 3])) -> Dev {
    let (format, bits) = if vals.iter().all(|d| (-2..=1).contains(d)) {
        (1u16, 2usize)
    } else if vals.iter().all(|d| (-8..=7).contains(d)) {
        (2, 4)
    } else {
        (3, 8)
    };
    let per_word = 16 / bits;
    let mask = (1u16 << bits) - 1;
    let mut words = vec![0u16; (vals.len() + per_word - 1) / per_word];
    for (n, v) in vals.iter().enumerate() {
        words[n / per_word] |= ((*v as i16 as u16) & mask) << (16 - bits * (n % per_word + 1));
    }
    Dev::Device { start, end: start + 2, format, words }
}


fn pair_values(c: &Case, lookup: u32, i: u32, j: u32) -> (Val, Val, w::ValueRecord, w::ValueRecord) {
    if c.fmt == 5 {
        return crate::slots::pair_values(c, lookup, i, j);
    }
    let adv = ((lookup * 31 + i * 7 + j) % 30000) as i16 + 1;
    let mut e1 = Val::default();
    let mut e2 = Val::default();
    let mut w1 = w::ValueRecord::new().with_x_advance(adv);
    let mut w2 = w::ValueRecord::new();
    e1.v[2] = adv;
    match c.fmt {
        1 => {
            let yp = -((i % 100) as i16) - 1;
            let xp2 = (j % 50) as i16 + 1;
            w1 = w1.with_y_placement(yp);
            w2 = w2.with_x_placement(xp2);
            e1.v[1] = yp;
            e2.v[0] = xp2;
        }
        2 => {
            let dv = device_values(i, j);
            w1 = w1.with_x_advance_device(wl::Device::new(dv.0, dv.0 + 2, &dv.1));
            e1.dev[2] = Some(expected_device(dv));
        }
        3 => {
            let (o, inn) = ((i % 7) as u16, (j % 500) as u16 + (i as u16 % 3) * 1000);
            w1 = w1.with_x_advance_device(wl::VariationIndex::new(o, inn));
            e1.dev[2] = Some(Dev::VarIdx { outer: o, inner: inn });
        }
        4 => {
            // both value records carry their own, distinct device tables: record 1 a Device
            // (start sizes 9..=13), record 2 a VariationIndex, so that a record-2 offset linked to a
            // record-1 object is always visible
            let dv = device_values(i, j);
            w1 = w1.with_x_advance_device(wl::Device::new(dv.0, dv.0 + 2, &dv.1));
            e1.dev[2] = Some(expected_device(dv));
            let xp2 = (j % 50) as i16 + 1;
            let (o, inn) = ((j % 5) as u16 + 10, ((13 * i + 29 * j) % 3000) as u16);
            w2 = w2.with_x_placement(xp2).with_x_placement_device(wl::VariationIndex::new(o, inn));
            e2.v[0] = xp2;
            e2.dev[0] = Some(Dev::VarIdx { outer: o, inner: inn });
        }
        _ => {}
    }
    (e1, e2, w1, w2)
}

fn anchor(c: &Case, x: i16, y: i16, salt: u32) -> (Anchor, w::AnchorTable) {
    match (c.fmt, salt % 5) {
        (1, 0) => (
            Anchor { format: 2, x, y, point: Some(salt as u16 % 40), xdev: None, ydev: None },
            w::AnchorTable::format_2(x, y, salt as u16 % 40),
        ),
        (2, 0) | (2, 1) => {
            let dv = device_values(salt, salt / 3);
            (
                Anchor { format: 3, x, y, point: None, xdev: Some(expected_device(dv)), ydev: None },
                w::AnchorTable::format_3(x, y, Some(wl::Device::new(dv.0, dv.0 + 2, &dv.1).into()), None),
            )
        }
        (3, 0) | (3, 2) => {
            let (o, i) = (salt as u16 % 5, salt as u16 % 777);
            (
                Anchor { format: 3, x, y, point: None, xdev: None, ydev: Some(Dev::VarIdx { outer: o, inner: i }) },
                w::AnchorTable::format_3(x, y, None, Some(wl::VariationIndex::new(o, i).into())),
            )
        }
        _ => (Anchor { format: 1, x, y, point: None, xdev: None, ydev: None }, w::AnchorTable::format_1(x, y)),
    }
}

// --- building the table and the expected model --------------------------------

pub enum Expect {
    Pair { rules: HashMap<(u16, u16), (Val, Val)>, universe1: Vec<u16>, universe2: Vec<u16> },
    /// class based: value for any (g1 in coverage, g2): rows[class1(g1)][class2(g2)]
    MarkBase { marks: HashMap<u16, (u16, Anchor)>, bases: HashMap<u16, Vec<Option<Anchor>>>, umarks: Vec<u16>, ubases: Vec<u16> },
}

fn with_neighbours(gs: impl Iterator<Item = u16>) -> Vec<u16> {
    let mut s = BTreeSet::new();
    for g in gs {
        s.insert(g);
        s.insert(g.saturating_sub(1));
        s.insert(g.saturating_add(1));
    }
    s.into_iter().collect()
}

fn pair_lookup(c: &Case, l: u32, sub: w::PairPos) -> w::PositionLookup {
    if c.ext & (1 << l) != 0 {
        w::PositionLookup::Extension(wl::Lookup::new(wl::LookupFlag::empty(), vec![w::ExtensionSubtable::Pair(w::ExtensionPosFormat1::new(2, sub))]))
    } else {
        w::PositionLookup::Pair(wl::Lookup::new(wl::LookupFlag::empty(), vec![sub]))
    }
}

pub fn build(c: &Case) -> (w::Gpos, Vec<Expect>) {
    let mut lookups = vec![];
    let mut expects = vec![];
    for l in 0..c.lookups as u32 {
        match c.kind {
            0 => {
                let mut rules = HashMap::new();
                let firsts: Vec<u16> = (0..c.k).map(|i| first_glyph(c, l, i)).collect();
                let seconds: Vec<u16> = (0..c.m).map(|j| second_glyph(c, j)).collect();
                let mut sets = vec![];
                for i in 0..c.k {
                    let mut recs = vec![];
                    for j in 0..c.m {
                        let (e1, e2, w1, w2) = pair_values(c, l, i, j);
                        rules.insert((firsts[i as usize], seconds[j as usize]), (e1, e2));
                        recs.push(w::PairValueRecord::new(GlyphId16::new(seconds[j as usize]), w1, w2));
                    }
                    sets.push(w::PairSet::new(recs));
                }
                let cov: wl::CoverageTable = firsts.iter().map(|g| GlyphId16::new(*g)).collect();
                lookups.push(pair_lookup(c, l, w::PairPos::format_1(cov, sets)));
                expects.push(Expect::Pair {
                    rules,
                    universe1: with_neighbours(firsts.iter().copied()),
                    universe2: with_neighbours(seconds.iter().copied()),
                });
            }
            1 => {
                // k class1 classes (class i = the single glyph first_glyph(i); class 0 is used too, by
                // first_glyph(0), which is covered but left out of the class def), m class2 classes
                // (class j>0 = the single glyph second_glyph(j); class 0 = everything else)
                let firsts: Vec<u16> = (0..c.k).map(|i| first_glyph(c, l, i)).collect();
                let seconds: Vec<u16> = (0..c.m).map(|j| second_glyph(c, j)).collect();
                let cov: wl::CoverageTable = firsts.iter().map(|g| GlyphId16::new(*g)).collect();
                let cd1: wl::ClassDef = (1..c.k).map(|i| (GlyphId16::new(firsts[i as usize]), i as u16)).collect();
                let cd2: wl::ClassDef = (1..c.m).map(|j| (GlyphId16::new(seconds[j as usize]), j as u16)).collect();
                let universe2 = with_neighbours(seconds.iter().copied());
                let mut rules = HashMap::new();
                let mut rows = vec![];
                let (z1, z2) = {
                    // explicit-format zero record for the class-0 column
                    let (_, _, a, b) = pair_values(c, l, 0, 0);
                    (w::ValueRecord::new().with_explicit_value_format(a.format()), w::ValueRecord::new().with_explicit_value_format(b.format()))
                };
                for i in 0..c.k {
                    let mut row = vec![];
                    for j in 0..c.m {
                        if j == 0 {
                            row.push(w::Class2Record::new(z1.clone(), z2.clone()));
                            continue;
                        }
                        let (e1, e2, w1, w2) = pair_values(c, l, i, j);
                        rules.insert((firsts[i as usize], seconds[j as usize]), (e1, e2));
                        row.push(w::Class2Record::new(w1, w2));
                    }
                    rows.push(w::Class1Record::new(row));
                }
                lookups.push(pair_lookup(c, l, w::PairPos::format_2(cov, cd1, cd2, rows)));
                expects.push(Expect::Pair { rules, universe1: with_neighbours(firsts.iter().copied()), universe2 });
            }
            _ => {
                // k marks, one class per mark; m bases; every 17th base anchor is null
                let marks: Vec<u16> = (0..c.k).map(|i| first_glyph(c, l, i)).collect();
                let bases: Vec<u16> = (0..c.m).map(|j| second_glyph(c, j)).collect();
                let mut emarks = HashMap::new();
                let mut ebases = HashMap::new();
                let mut mrecs = vec![];
                for i in 0..c.k {
                    let (ea, wa) = if c.fmt == 5 {
                        crate::slots::anchor(c, l, false, i as i16 + 1, -(i as i16) - 1, i)
                    } else {
                        anchor(c, i as i16 + 1, -(i as i16) - 1, i + 1)
                    };
                    emarks.insert(marks[i as usize], (i as u16, ea));
                    mrecs.push(w::MarkRecord::new(i as u16, wa));
                }
                let mut brecs = vec![];
                for j in 0..c.m {
                    let mut erow = vec![];
                    let mut wrow = vec![];
                    for i in 0..c.k {
                        let n = j * c.k + i;
                        if n % 17 == 16 {
                            erow.push(None);
                            wrow.push(None);
                        } else {
                            let (ea, wa) = if c.fmt == 5 {
                                crate::slots::anchor(c, l, true, (n % 30011) as i16, (l * 1000 + j) as i16, n)
                            } else {
                                anchor(c, (n % 30011) as i16, (l * 1000 + j) as i16, n + 2)
                            };
                            erow.push(Some(ea));
                            wrow.push(Some(wa));
                        }
                    }
                    ebases.insert(bases[j as usize], erow);
                    brecs.push(w::BaseRecord::new(wrow));
                }
                let mcov: wl::CoverageTable = marks.iter().map(|g| GlyphId16::new(*g)).collect();
                let bcov: wl::CoverageTable = bases.iter().map(|g| GlyphId16::new(*g)).collect();
                let sub = w::MarkBasePosFormat1::new(mcov, bcov, w::MarkArray::new(mrecs), w::BaseArray::new(brecs));
                lookups.push(if c.ext & (1 << l) != 0 {
                    w::PositionLookup::Extension(wl::Lookup::new(wl::LookupFlag::empty(), vec![w::ExtensionSubtable::MarkToBase(w::ExtensionPosFormat1::new(4, sub))]))
                } else {
                    w::PositionLookup::MarkToBase(wl::Lookup::new(wl::LookupFlag::empty(), vec![sub]))
                });
                expects.push(Expect::MarkBase {
                    marks: emarks,
                    bases: ebases,
                    umarks: with_neighbours(marks.iter().copied()),
                    ubases: with_neighbours(bases.iter().copied()),
                });
            }
        }
    }
    (w::Gpos::new(Default::default(), Default::default(), wl::LookupList::new(lookups)), expects)
}

pub struct Outcome {
    pub refused: bool,
    pub subtables: Vec<usize>,
    pub extension: Vec<bool>,
    pub len: usize,
    pub unreferenced_bytes: usize,
    pub evaluated: u64,
}

/// compile, decode, compare. Err((class, detail)) names the first broken clause.
pub fn check(c: &Case) -> Result<Outcome, (String, String)> {
    let e = |cl: &str, d: String| Err((cl.to_string(), d));
    let (gpos, expects) = build(c);
    let bytes = match guard(|| write_fonts::dump_table(&gpos)) {
        Ok(Ok(b)) => b,
        Ok(Err(write_fonts::error::Error::PackingFailed(_))) => {
            return Ok(Outcome { refused: true, subtables: vec![], extension: vec![], len: 0, unreferenced_bytes: 0, evaluated: 0 })
        }
        Ok(Err(err)) => return e("dump_table-error-other-than-PackingFailed", format!("{err}")),
        Err(p) => return e(&format!("dump_table panic: {} [{}]", p.kind().split_whitespace().collect::<Vec<_>>().join(" "), p.site()), format!("{} at {}:{}", p.message, p.file, p.line)),
    };
    let mut rd = Rd::new(&bytes);
    let lookups: Vec<RawLookup> = match rd.gpos() {
        Ok(l) => l,
        Err(d) => return e("output-does-not-decode", d),
    };
    let (covered, _end) = match rd.check_spans() {
        Ok(x) => x,
        Err(d) => return e("objects-overlap", d),
    };
    if lookups.len() != expects.len() {
        return e("lookup-count-differs", format!("{} vs {}", lookups.len(), expects.len()));
    }
    let mut evaluated = 0u64;
    for (li, (lk, ex)) in lookups.iter().zip(&expects).enumerate() {
        let want_kind = if matches!(ex, Expect::Pair { .. }) { 2 } else { 4 };
        if lk.kind != want_kind {
            return e("lookup-type-differs", format!("lookup {li}: type {} (extension: {}), input type {want_kind}", lk.kind, lk.is_extension));
        }
        if lk.flag != 0 || lk.mark_filtering_set.is_some() {
            return e("lookup-flag-differs", format!("lookup {li}: flag {:#x}", lk.flag));
        }
        match ex {
            Expect::Pair { rules, universe1, universe2 } => {
                for g1 in universe1 {
                    for g2 in universe2 {
                        evaluated += 1;
                        let got = lk.eval_pair(*g1, *g2);
                        let want = rules.get(&(*g1, *g2));
                        let ok = match (&got, want) {
                            (Some(g), Some(w)) => g == w,
                            (None, None) => true,
                            // a class-based sub-table answers uncovered class pairs with zero records
                            (Some(g), None) => g.0.is_zero() && g.1.is_zero(),
                            (None, Some(_)) => false,
                        };
                        if !ok {
                            // fmt 5: the clause names the first (record, slot) that differs
                            let class = if c.fmt == 5 {
                                format!("pair-value-differs [{}]", crate::slots::describe_pair_diff(&got, want))
                            } else {
                                "pair-value-differs".to_string()
                            };
                            return e(&class, format!("lookup {li} pair ({g1},{g2}): decoded {got:?}, input {want:?}"));
                        }
                    }
                }
            }
            Expect::MarkBase { marks, bases, umarks, ubases } => {
                for m in umarks {
                    for b in ubases {
                        evaluated += 1;
                        let got = lk.eval_mark_base(*m, *b);
                        let want = match (marks.get(m), bases.get(b)) {
                            (Some((class, ma)), Some(row)) => row[*class as usize].clone().map(|ba| (ma.clone(), ba)),
                            _ => None,
                        };
                        if got != want {
                            let class = if c.fmt == 5 {
                                format!("mark-base-anchors-differ [{}]", crate::slots::describe_anchor_diff(&got, &want))
                            } else {
                                "mark-base-anchors-differ".to_string()
                            };
                            return e(&class, format!("lookup {li} (mark {m}, base {b}): decoded {got:?}, input {want:?}"));
                        }
                    }
                }
            }
        }
    }
    Ok(Outcome {
        refused: false,
        subtables: lookups.iter().map(|l| l.subs.len()).collect(),
        extension: lookups.iter().map(|l| l.is_extension).collect(),
        len: bytes.len(),
        unreferenced_bytes: bytes.len() - covered.min(bytes.len()),
        evaluated,
    })
}

fn sanitize(s: &str) -> String {
    // digits -> '#', collapse runs: line-number/position free identity
    let mut out = String::new();
    let mut last_hash = false;
    for ch in s.chars() {
        if ch.is_ascii_digit() {
            if !last_hash {
                out.push('#');
            }
            last_hash = true;
        } else {
            out.push(ch);
            last_hash = false;
        }
    }
    out.chars().take(90).collect()
}

pub fn run_case(run: &Run, c: &Case) -> Option<Outcome> {
    match check(c) {
        Ok(o) => Some(o),
        Err((class, detail)) => {
            // identity: failing clause + table class; for decode failures the (digit-free) reason
            let reason = if class == "output-does-not-decode" || class == "objects-overlap" {
                format!(": {}", sanitize(&detail))
            } else {
                String::new()
            };
            run.violation(&format!("dump_table(Gpos): {class}{reason} ({})", c.class()), &format!("{:?}: {}", c, detail), c.to_json());
            None
        }
    }
}

pub fn replay(run: &Run, case: &Value) {
    let c = Case::from_json(case);
    if let Some(o) = run_case(run, &c) {
        println!("replay: refused={} subtables={:?} extension={:?} len={} evaluated={}", o.refused, o.subtables, o.extension, o.len, o.evaluated);
    }
}

/// The enumerated space. Sizes: PairPos1 sub-table ~ 10 + k*(4 + 2 + m*rec); the sweeps put k on
/// both sides of 1x, 2x and 3x the 64 KiB limit. PairPos2: 16 + k*m*rec. MarkBasePos: classes = k.
pub fn cases(tier: Tier) -> Vec<Case> {
    let mut out = vec![];
    let quick = tier == Tier::Quick;
    // PairPos format 1: m = 273 seconds, record = 2 + 2 (+2 for fmt 1/2/3)
    for fmt in 0..4u8 {
        for cov in 0..3u8 {
            let ks: Vec<u32> = if quick {
                vec![2, 40, 58, 59, 60, 61, 119, 120, 121, 180]
            } else {
                (1..=4).chain(36..=64).chain(76..=84).chain(114..=124).chain(174..=184).chain([240, 300]).collect()
            };
            for k in ks {
                for lookups in [1u8, 3] {
                    if quick && lookups == 3 && !(k == 40 || k == 60 || k == 120) {
                        continue;
                    }
                    if lookups == 3 && k > 130 {
                        continue;
                    }
                    out.push(Case { kind: 0, k, m: 273, fmt, cov, lookups, ext: 0, ..Default::default() });
                }
            }
        }
    }
    // PairPos format 2: m = 51 class2 classes (fmt 4: Device in record 1 AND VariationIndex in record 2)
    for fmt in 0..5u8 {
        for cov in [0u8, 2] {
            if fmt == 4 && quick && cov == 2 {
                continue;
            }
            let ks: Vec<u32> = if fmt == 4 {
                // 8-byte cells: 408 bytes per class1 record, splits near k = 160 and 320
                if quick { vec![3, 150, 170, 330] } else { (2..=3).chain(140..=175).chain(300..=340).step_by(1).filter(|k| *k < 5 || k % 3 == 0).collect() }
            } else if quick { vec![3, 200, 320, 321, 322, 400, 645] } else { (2..=4).chain(150..=330).step_by(1).filter(|k| *k < 5 || k % 10 < 3 || *k > 200).chain(636..=650).chain([960, 970]).collect() };
            for k in ks {
                for lookups in [1u8, 2] {
                    if quick && lookups == 2 && k != 200 && k != 321 {
                        continue;
                    }
                    if lookups == 2 && k > 400 {
                        continue;
                    }
                    out.push(Case { kind: 1, k, m: 51, fmt, cov, lookups, ext: 0, ..Default::default() });
                }
            }
        }
    }
    // MarkBasePos: k marks/classes x m bases
    for fmt in 0..4u8 {
        for cov in [0u8, 1] {
            let shapes: Vec<(u32, u32)> = if quick {
                vec![(2, 3), (100, 100), (150, 200), (160, 200), (170, 200), (300, 200)]
            } else {
                let mut v = vec![(1, 1), (2, 3), (100, 100)];
                v.extend((140..=180).map(|k| (k, 200)));
                v.extend((290..=330).step_by(2).map(|k| (k, 200)));
                v.extend([(300, 100), (500, 100), (64, 500)]);
                v
            };
            for (k, m) in shapes {
                for lookups in [1u8, 2] {
                    if lookups == 2 && (quick && k != 150 || k > 200) {
                        continue;
                    }
                    out.push(Case { kind: 2, k, m, fmt, cov, lookups, ext: 0, ..Default::default() });
                }
            }
        }
    }
    // authored extension lookups: none (above) / one in every position / all, for the multi-lookup
    // cases and for the smallest single-lookup case of each family
    let base = out.clone();
    for c in base {
        let small_single = c.lookups == 1 && c.k <= 4;
        if !(c.lookups > 1 || small_single) || (quick && (c.cov != 0 || !(c.fmt == 0 || c.fmt == 2 || c.fmt == 4))) {
            continue;
        }
        let mut masks: Vec<u8> = (0..c.lookups).map(|i| 1u8 << i).collect();
        if c.lookups > 1 {
            masks.push((1u8 << c.lookups) - 1);
        }
        for ext in masks {
            let mut c2 = c.clone();
            c2.ext = ext;
            out.push(c2);
        }
    }
    // device-slot patterns (fmt 5), see module `slots`
    out.extend(crate::slots::cases(tier));
    out
}

pub fn run_all(run: &Run) {
    let mut cs = cases(run.tier);
    if std::env::var("C05_ONLY").as_deref() == Ok("slots") {
        cs.retain(|c| c.fmt == 5); // development aid (main.rs reports the cap)
    }
    run.bound("public_path_cases", json!({
        "count": cs.len(),
        "PairPos1": "k first glyphs x 273 seconds; k sweeps around 1x/2x/3x 64 KiB; 4 value styles (xAdv | +yPla/xPla2 | +Device | +VariationIndex) x 3 coverage styles x {1,3} lookups",
        "PairPos2": "k class1 x 51 class2 classes; same value styles plus one where record 1 has a Device and record 2 a VariationIndex in every cell; coverage {contiguous, runs with gaps}; {1,2} lookups",
        "MarkBasePos": "k marks (one class each) x m bases, every 17th base anchor null; anchor formats 1/2/3 (Device, VariationIndex); {1,2} lookups",
        "device_slots": if run.tier == Tier::Quick {
            "value style 5: PairPos2 (51 class2) and PairPos1 (16 seconds): all 15 non-empty subsets of {xPla,yPla,xAdv,yAdv}Device as the format mask of record 1 only / record 2 only / both (record 2 = subset rotated by one slot) x device kind {Device, VariationIndex; both-records also alternating by slot}; every rule carries a sub-mask cycling through all subsets of the format mask (null offsets between non-null ones), content unique per (record, slot, rule); PairPos2 sized for 1 and 2 (both-records: also 3) sub-tables, PairPos1 for 2; MarkBasePos (24 bases): all 15 (mark anchor mask, base anchor mask) over {xDevice,yDevice} but (none,none) x 4 device kinds x sized for 1 and 2 sub-tables; k derived from the authored byte size (38 000 / 76 000 / 142 000 bytes)"
        } else {
            "value style 5: PairPos2 and PairPos1: all 255 (record 1 mask, record 2 mask) pairs over the 4 device slots x 4 device kinds {Device, VariationIndex, alternating, reversed} x sized for 1, 2 (PairPos2: and 3) sub-tables, plus per mask pair and kind: every slot filled, content pooled mod 7 (shared device tables), gapped coverage (kinds 0/1), two lookups (alternating kind, quick's mask pairs); MarkBasePos: 15 mask pairs x 4 kinds x {1,2,3} sub-tables x {sub-mask cycle, every slot filled}, plus pooled mod 5, every-other-glyph coverage, two lookups"
        },
    }));
    run.count("public_device_slot_cases", cs.iter().filter(|c| c.fmt == 5).count() as u64);
    let results: Vec<(usize, Option<Outcome>, f64)> = cs
        .par_iter()
        .enumerate()
        .map(|(i, c)| {
            let t = std::time::Instant::now();
            let o = run_case(run, c);
            (i, o, t.elapsed().as_secs_f64())
        })
        .collect();
    if std::env::var("C05_TIMES").is_ok() {
        // development aid: cost and piece counts of the device-slot family
        let mut hist: std::collections::BTreeMap<(u8, u8, usize, bool), (u32, f64)> = Default::default();
        for (i, o, t) in &results {
            if cs[*i].fmt == 5 {
                let (n, r) = o.as_ref().map(|o| (o.subtables.iter().copied().max().unwrap_or(0), o.refused)).unwrap_or((99, false));
                let e = hist.entry((cs[*i].kind, cs[*i].pieces, n, r)).or_default();
                e.0 += 1;
                e.1 += t;
            }
        }
        for (k, v) in &hist {
            println!("    slots kind={} pieces={} subtables={} refused={}: {} cases {:.1}s", k.0, k.1, k.2, k.3, v.0, v.1);
        }
        let old: f64 = results.iter().filter(|r| cs[r.0].fmt != 5).map(|r| r.2).sum();
        println!("    non-slot cases total {:.1}s", old);
        let mut t: Vec<(f64, usize)> = results.iter().map(|r| (r.2, r.0)).collect();
        t.sort_by(|a, b| b.0.partial_cmp(&a.0).unwrap());
        for (s, i) in t.iter().take(25) {
            println!("    {:.2}s {:?}", s, cs[*i]);
        }
        println!("    total {:.1}s", t.iter().map(|x| x.0).sum::<f64>());
    }
    let results: Vec<(usize, Option<Outcome>)> = results.into_iter().map(|r| (r.0, r.1)).collect();
    let mut all = HashSet::new();
    let mut nontrivial = HashSet::new();
    let mut refused = vec![];
    let mut slot_want_split = [0u64; 3];
    let mut slot_got_split = [0u64; 3];
    for (i, o) in &results {
        run.eval();
        run.trans(2);
        let Some(o) = o else { continue };
        run.count("public_cases_checked", 1);
        if cs[*i].fmt == 5 && cs[*i].pieces >= 2 {
            slot_want_split[cs[*i].kind as usize] += 1;
            if o.subtables.iter().any(|n| *n > 1) {
                slot_got_split[cs[*i].kind as usize] += 1;
            }
        }
        if o.refused {
            run.count("public_refused(PackingFailed)", 1);
            refused.push(cs[*i].to_json());
            continue;
        }
        run.count("public_pairs_evaluated", o.evaluated);
        let split = o.subtables.iter().any(|n| *n > 1);
        let ext = o.extension.iter().any(|e| *e);
        if split {
            run.count("public_cases_with_split_subtables", 1);
        }
        if ext {
            run.count("public_cases_with_extension_promotion", 1);
        }
        if o.unreferenced_bytes > 0 {
            run.count("public_outputs_with_unreferenced_bytes(info)", 1);
        }
        let mut h = Fnv::new();
        h.str("public");
        h.u64(cs[*i].kind as u64);
        h.u64(cs[*i].fmt as u64);
        if cs[*i].fmt == 5 {
            // device-slot family: a different slot pattern / device kind is a different outcome
            for v in [cs[*i].s1, cs[*i].s2, cs[*i].dk, cs[*i].fill, (cs[*i].pool != 0) as u8] {
                h.u64(v as u64);
            }
        }
        for n in &o.subtables {
            h.u64(*n as u64);
        }
        for e in &o.extension {
            h.u64(*e as u64);
        }
        all.insert(h.finish());
        if split || ext {
            nontrivial.insert(h.finish());
        }
    }
    run.observe_many(&all, &nontrivial);
    // vacuity gate of the device-slot family: its over-threshold tables must really have been split
    // (per table kind, nearly all of them; a compile failure or violation is not counted here)
    for (kind, name) in ["PairPos1", "PairPos2", "MarkBasePos"].iter().enumerate() {
        run.count(&format!("public_device_slot_cases_sized_for_split[{name}]"), slot_want_split[kind]);
        run.count(&format!("public_device_slot_cases_split[{name}]"), slot_got_split[kind]);
        if slot_want_split[kind] > 0 && slot_got_split[kind] == 0 {
            run.machinery_error(&format!("device-slot family: none of the {} {name} tables sized for splitting was split: the family is vacuous", slot_want_split[kind]));
        }
    }
    if let Some((i, Some(o))) = results.iter().find(|(i, o)| cs[*i].fmt == 5 && cs[*i].kind == 1 && o.as_ref().map(|o| o.subtables.iter().any(|n| *n > 1)).unwrap_or(false)) {
        run.sample(json!({"case": cs[*i].to_json(), "slots": crate::slots::masks(&cs[*i]), "subtables": o.subtables, "extension": o.extension, "len": o.len}));
    }
    run.extra("public_refused_cases(info)", json!(refused));
    if let Some((i, Some(o))) = results.iter().find(|(_, o)| o.as_ref().map(|o| o.subtables.iter().any(|n| *n > 1)).unwrap_or(false)) {
        run.sample(json!({"case": cs[*i].to_json(), "subtables": o.subtables, "extension": o.extension, "len": o.len}));
    }
    println!("  public path: {} cases, t={:.1}s", cs.len(), run.elapsed());
}
