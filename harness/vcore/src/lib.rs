//! vcore: shared machinery for every check.
//!
//! * `Tape` / `explore` — the stateless, deviation-bounded choice-tape explorer (DESIGN 2.2)
//! * `Run` — evidence accumulation, known-finding matching, VIOLATION reporting, exit codes
//! * `guard` — catch_unwind wrapper with a panic hook that records payload + location
//! * small helpers: fnv digest, parallel chunked map.

use serde_json::{json, Map, Value};
use std::collections::{BTreeMap, HashSet};
use std::path::PathBuf;
use std::sync::atomic::{AtomicU64, Ordering};
use std::sync::Mutex;
use std::time::Instant;

#[derive(Clone, Copy, PartialEq, Eq, Debug)]
pub enum Tier {
    Quick,
    Thorough,
}

impl Tier {
    pub fn name(self) -> &'static str {
        match self {
            Tier::Quick => "quick",
            Tier::Thorough => "thorough",
        }
    }
    pub fn pick<T>(self, q: T, t: T) -> T {
        match self {
            Tier::Quick => q,
            Tier::Thorough => t,
        }
    }
}

// ---------------------------------------------------------------------------
// digest
// ---------------------------------------------------------------------------

#[derive(Clone, Copy)]
pub struct Fnv(pub u64);
impl Default for Fnv {
    fn default() -> Self {
        Fnv(0xcbf29ce484222325)
    }
}
impl Fnv {
    pub fn new() -> Self {
        Self::default()
    }
    #[inline]
    pub fn byte(&mut self, b: u8) {
        self.0 ^= b as u64;
        self.0 = self.0.wrapping_mul(0x100000001b3);
    }
    #[inline]
    pub fn bytes(&mut self, b: &[u8]) {
        for x in b {
            self.byte(*x);
        }
    }
    #[inline]
    pub fn u64(&mut self, v: u64) {
        // mix whole words: cheaper than byte-wise
        self.0 ^= v;
        self.0 = self.0.wrapping_mul(0x100000001b3);
        self.0 ^= self.0 >> 29;
    }
    #[inline]
    pub fn i64(&mut self, v: i64) {
        self.u64(v as u64)
    }
    pub fn str(&mut self, s: &str) {
        self.bytes(s.as_bytes());
        self.byte(0xff);
    }
    pub fn finish(&self) -> u64 {
        self.0
    }
}
impl std::hash::Hasher for Fnv {
    fn finish(&self) -> u64 {
        self.0
    }
    fn write(&mut self, bytes: &[u8]) {
        self.bytes(bytes)
    }
}

pub fn digest_of<T: std::hash::Hash>(v: &T) -> u64 {
    use std::hash::Hasher;
    let mut h = Fnv::new();
    v.hash(&mut h);
    h.finish()
}

pub fn hex(b: &[u8]) -> String {
    let mut s = String::with_capacity(b.len() * 2);
    for x in b {
        s.push_str(&format!("{:02x}", x));
    }
    s
}

pub fn unhex(s: &str) -> Vec<u8> {
    (0..s.len() / 2)
        .map(|i| u8::from_str_radix(&s[2 * i..2 * i + 2], 16).unwrap())
        .collect()
}

// ---------------------------------------------------------------------------
// panic capture
// ---------------------------------------------------------------------------

thread_local! {
    static LAST_PANIC: std::cell::RefCell<Option<PanicInfo>> = const { std::cell::RefCell::new(None) };
    static QUIET: std::cell::Cell<bool> = const { std::cell::Cell::new(false) };
}

#[derive(Clone, Debug)]
pub struct PanicInfo {
    pub message: String,
    pub file: String,
    pub line: u32,
}

impl PanicInfo {
    /// overflow / debug-assert class (belongs to C20), as opposed to a plain panic.
    pub fn is_arith_or_debug_assert(&self) -> bool {
        let m = &self.message;
        m.starts_with("attempt to ")
            || m.contains("with overflow")
            || m.starts_with("assertion failed")
            || m.starts_with("assertion `left")
            || m.contains("debug_assert")
    }
    /// stable identity: file (repo relative) + message class, no line numbers
    pub fn site(&self) -> String {
        let f = self.file.trim_start_matches("/repo/");
        format!("{}", f)
    }
    pub fn kind(&self) -> String {
        let m = &self.message;
        let k: String = m
            .chars()
            .map(|c| if c.is_ascii_digit() { '#' } else { c })
            .collect();
        let mut out = String::new();
        let mut last_hash = false;
        for c in k.chars() {
            if c == '#' {
                if !last_hash {
                    out.push('#');
                }
                last_hash = true;
            } else {
                out.push(c);
                last_hash = false;
            }
        }
        out.chars().take(80).collect()
    }
}

pub fn install_panic_hook() {
    let default = std::panic::take_hook();
    std::panic::set_hook(Box::new(move |info| {
        let message = if let Some(s) = info.payload().downcast_ref::<&str>() {
            s.to_string()
        } else if let Some(s) = info.payload().downcast_ref::<String>() {
            s.clone()
        } else {
            "<non-string panic>".to_string()
        };
        let (file, line) = info
            .location()
            .map(|l| (l.file().to_string(), l.line()))
            .unwrap_or_default();
        let quiet = QUIET.with(|q| q.get());
        LAST_PANIC.with(|p| {
            *p.borrow_mut() = Some(PanicInfo {
                message,
                file,
                line,
            })
        });
        if !quiet {
            default(info);
        }
    }));
}

/// Run `f`, converting a panic into `Err(PanicInfo)`. The default panic message is suppressed.
pub fn guard<R>(f: impl FnOnce() -> R) -> Result<R, PanicInfo> {
    QUIET.with(|q| q.set(true));
    LAST_PANIC.with(|p| *p.borrow_mut() = None);
    let r = std::panic::catch_unwind(std::panic::AssertUnwindSafe(f));
    QUIET.with(|q| q.set(false));
    match r {
        Ok(v) => Ok(v),
        Err(_) => Err(LAST_PANIC.with(|p| p.borrow_mut().take()).unwrap_or(PanicInfo {
            message: "<unknown panic>".into(),
            file: String::new(),
            line: 0,
        })),
    }
}

// ---------------------------------------------------------------------------
// choice tape + explorer
// ---------------------------------------------------------------------------

/// Machinery failure: the body is not deterministic w.r.t. the tape.
#[derive(Debug)]
pub struct TapeDivergence(pub String);

pub struct Tape {
    prefix: Vec<u32>,
    pub choices: Vec<u32>,
    pub arity: Vec<u32>,
    /// weight (deviation cost) of choosing non-zero at each point
    pub diverged: Option<String>,
}

impl Tape {
    pub fn new(prefix: &[u32]) -> Self {
        Tape {
            prefix: prefix.to_vec(),
            choices: Vec::new(),
            arity: Vec::new(),
            diverged: None,
        }
    }
    /// choose in 0..n; 0 is the default
    pub fn choose(&mut self, n: u32) -> u32 {
        let i = self.choices.len();
        let c = if i < self.prefix.len() {
            let c = self.prefix[i];
            if c >= n.max(1) {
                self.diverged = Some(format!(
                    "replayed choice {} out of range {} at point {}",
                    c, n, i
                ));
                0
            } else {
                c
            }
        } else {
            0
        };
        self.choices.push(c);
        self.arity.push(n.max(1));
        c
    }
    pub fn flag(&mut self) -> bool {
        self.choose(2) == 1
    }
    pub fn pick<'a, T>(&mut self, xs: &'a [T]) -> &'a T {
        &xs[self.choose(xs.len() as u32) as usize]
    }
    pub fn deviations(&self) -> usize {
        self.choices.iter().filter(|c| **c != 0).count()
    }
}

#[derive(Default, Debug, Clone)]
pub struct ExploreStats {
    pub executions: u64,
    pub max_depth: usize,
    pub capped: bool,
}

/// Deviation-bounded stateless DFS: all tapes with at most `bound` non-zero choices.
/// `body` returns `false` to stop the whole exploration (used with caps).
pub fn explore(
    bound: usize,
    cap: u64,
    mut body: impl FnMut(&mut Tape) -> bool,
) -> Result<ExploreStats, TapeDivergence> {
    let mut st = ExploreStats::default();
    let mut stack: Vec<Vec<u32>> = vec![vec![]];
    while let Some(prefix) = stack.pop() {
        if st.executions >= cap {
            st.capped = true;
            break;
        }
        let mut t = Tape::new(&prefix);
        let go = body(&mut t);
        st.executions += 1;
        if let Some(d) = t.diverged {
            return Err(TapeDivergence(d));
        }
        if t.choices.len() < prefix.len() {
            return Err(TapeDivergence(format!(
                "body consumed {} choices but prefix has {}",
                t.choices.len(),
                prefix.len()
            )));
        }
        st.max_depth = st.max_depth.max(t.choices.len());
        if !go {
            st.capped = true;
            break;
        }
        let used = prefix.iter().filter(|c| **c != 0).count();
        if used >= bound {
            continue;
        }
        // push in reverse so that exploration order is simplest-first
        for i in (prefix.len()..t.choices.len()).rev() {
            for alt in (1..t.arity[i]).rev() {
                let mut p = t.choices[..i].to_vec();
                p.push(alt);
                stack.push(p);
            }
        }
    }
    Ok(st)
}

/// Full enumeration (no deviation bound): every tape, depth-first.
pub fn explore_full(
    cap: u64,
    body: impl FnMut(&mut Tape) -> bool,
) -> Result<ExploreStats, TapeDivergence> {
    explore(usize::MAX, cap, body)
}

// ---------------------------------------------------------------------------
// Run: evidence + findings
// ---------------------------------------------------------------------------

#[derive(Clone, Debug)]
pub struct Finding {
    pub property: String,
    pub kind: String, // "known" | "fixed"
    pub identity: String,
    pub what: String,
}

pub fn load_known_findings() -> Vec<Finding> {
    let path = verif_root().join("known_findings.json");
    let Ok(s) = std::fs::read_to_string(&path) else {
        return vec![];
    };
    let v: Value = serde_json::from_str(&s).expect("known_findings.json must be valid JSON");
    let mut out = vec![];
    for e in v["findings"].as_array().cloned().unwrap_or_default() {
        out.push(Finding {
            property: e["property"].as_str().unwrap_or("").to_string(),
            kind: e["kind"].as_str().unwrap_or("known").to_string(),
            identity: e["identity"].as_str().unwrap_or("").to_string(),
            what: e["what"].as_str().unwrap_or("").to_string(),
        });
    }
    out
}

pub fn verif_root() -> PathBuf {
    std::env::var("VERIF_ROOT")
        .map(PathBuf::from)
        .unwrap_or_else(|_| PathBuf::from("/verif"))
}

pub struct Run {
    pub property: String,
    pub tier: Tier,
    pub seed: i64,
    start: Instant,
    pub evaluations: AtomicU64,
    pub transitions: AtomicU64,
    inner: Mutex<RunInner>,
    known: Vec<Finding>,
}

#[derive(Default)]
struct RunInner {
    digests: HashSet<u64>,
    nontrivial: HashSet<u64>,
    samples: Vec<Value>,
    counters: BTreeMap<String, u64>,
    bounds: Map<String, Value>,
    extra: Map<String, Value>,
    assumptions: Vec<String>,
    rule: String,
    exhaustive: bool,
    caps_hit: Vec<String>,
    violations: u64,
    violation_ids: HashSet<String>,
    known_printed: HashSet<String>,
    known_hits: BTreeMap<String, u64>,
    machinery_error: Option<String>,
}

pub const MAX_REPLAYS: usize = 25;

impl Run {
    pub fn new(property: &str, tier: Tier) -> Self {
        let seed = std::env::var("VERIF_SEED")
            .ok()
            .and_then(|s| s.parse().ok())
            .unwrap_or(0);
        let known = load_known_findings()
            .into_iter()
            .filter(|f| f.property == property)
            .collect();
        let mut inner = RunInner::default();
        inner.exhaustive = true;
        Run {
            property: property.to_string(),
            tier,
            seed,
            start: Instant::now(),
            evaluations: AtomicU64::new(0),
            transitions: AtomicU64::new(0),
            inner: Mutex::new(inner),
            known,
        }
    }

    pub fn eval(&self) {
        self.evaluations.fetch_add(1, Ordering::Relaxed);
    }
    pub fn evals(&self, n: u64) {
        self.evaluations.fetch_add(n, Ordering::Relaxed);
    }
    pub fn trans(&self, n: u64) {
        self.transitions.fetch_add(n, Ordering::Relaxed);
    }
    /// Record an observation digest; `nontrivial` per the property's stated rule.
    pub fn observe(&self, digest: u64, nontrivial: bool) {
        let mut g = self.inner.lock().unwrap();
        g.digests.insert(digest);
        if nontrivial {
            g.nontrivial.insert(digest);
        }
    }
    /// bulk merge of thread-local sets
    pub fn observe_many(&self, all: &HashSet<u64>, nontrivial: &HashSet<u64>) {
        let mut g = self.inner.lock().unwrap();
        g.digests.extend(all.iter().copied());
        g.nontrivial.extend(nontrivial.iter().copied());
    }
    pub fn sample(&self, v: Value) {
        let mut g = self.inner.lock().unwrap();
        if g.samples.len() < 6 {
            g.samples.push(v);
        }
    }
    pub fn count(&self, key: &str, n: u64) {
        let mut g = self.inner.lock().unwrap();
        *g.counters.entry(key.to_string()).or_insert(0) += n;
    }
    pub fn counter(&self, key: &str) -> u64 {
        let g = self.inner.lock().unwrap();
        g.counters.get(key).copied().unwrap_or(0)
    }
    pub fn bound(&self, key: &str, v: Value) {
        self.inner.lock().unwrap().bounds.insert(key.to_string(), v);
    }
    pub fn extra(&self, key: &str, v: Value) {
        self.inner.lock().unwrap().extra.insert(key.to_string(), v);
    }
    pub fn assume(&self, s: &str) {
        let mut g = self.inner.lock().unwrap();
        if !g.assumptions.iter().any(|a| a == s) {
            g.assumptions.push(s.to_string());
        }
    }
    pub fn rule(&self, s: &str) {
        self.inner.lock().unwrap().rule = s.to_string();
    }
    pub fn cap_hit(&self, what: &str) {
        let mut g = self.inner.lock().unwrap();
        g.exhaustive = false;
        g.caps_hit.push(what.to_string());
    }
    pub fn machinery_error(&self, what: &str) {
        eprintln!("MACHINERY-ERROR property={} {}", self.property, what);
        self.inner.lock().unwrap().machinery_error = Some(what.to_string());
    }
    pub fn elapsed(&self) -> f64 {
        self.start.elapsed().as_secs_f64()
    }

    fn match_known(&self, identity: &str) -> Option<&Finding> {
        self.known.iter().find(|f| {
            f.kind == "known"
                && (f.identity == identity
                    || (f.identity.ends_with('*')
                        && identity.starts_with(f.identity.trim_end_matches('*'))))
        })
    }

    /// Report a violation. `identity` is the specific, stable description used for known-finding
    /// matching; `replay` is the full case written to the replay file.
    pub fn violation(&self, identity: &str, what: &str, replay: Value) {
        if let Some(f) = self.match_known(identity) {
            let mut g = self.inner.lock().unwrap();
            *g.known_hits.entry(f.identity.clone()).or_insert(0) += 1;
            if g.known_printed.insert(f.identity.clone()) {
                println!(
                    "KNOWN-FINDING: property={} {} [{}]",
                    self.property, f.what, f.identity
                );
            }
            return;
        }
        let mut g = self.inner.lock().unwrap();
        g.violations += 1;
        if !g.violation_ids.insert(identity.to_string()) {
            return;
        }
        let n = g.violation_ids.len();
        if n > MAX_REPLAYS {
            return;
        }
        let dir = verif_root().join("replays").join(&self.property);
        let _ = std::fs::create_dir_all(&dir);
        let path = dir.join(format!("{}.json", n));
        let body = json!({
            "property": self.property,
            "identity": identity,
            "what": what,
            "case": replay,
        });
        let _ = std::fs::write(&path, serde_json::to_string_pretty(&body).unwrap());
        println!(
            "VIOLATION property={} replay={}",
            self.property,
            path.display()
        );
        println!("  identity: {}", identity);
        println!("  what: {}", what.chars().take(600).collect::<String>());
    }

    pub fn violations(&self) -> u64 {
        self.inner.lock().unwrap().violations
    }

    /// Write evidence and return the process exit code.
    pub fn finish(&self) -> i32 {
        let g = self.inner.lock().unwrap();
        let evaluations = self.evaluations.load(Ordering::Relaxed);
        let transitions = self.transitions.load(Ordering::Relaxed).max(evaluations);
        let mut cov = Map::new();
        cov.insert("evaluations".into(), json!(evaluations));
        cov.insert("distinct_nontrivial".into(), json!(g.nontrivial.len()));
        cov.insert("distinct_outcomes".into(), json!(g.digests.len()));
        cov.insert("rule".into(), json!(g.rule));
        cov.insert("samples".into(), Value::Array(g.samples.clone()));
        cov.insert("states".into(), json!(g.digests.len()));
        cov.insert("transitions".into(), json!(transitions));
        cov.insert(
            "traces_validated_against_impl".into(),
            json!(evaluations),
        );
        cov.insert("exhaustive".into(), json!(g.exhaustive));
        cov.insert("caps_hit".into(), json!(g.caps_hit));
        cov.insert("bounds".into(), Value::Object(g.bounds.clone()));
        cov.insert(
            "counters".into(),
            Value::Object(
                g.counters
                    .iter()
                    .map(|(k, v)| (k.clone(), json!(v)))
                    .collect(),
            ),
        );
        cov.insert(
            "known_findings_hit".into(),
            Value::Object(
                g.known_hits
                    .iter()
                    .map(|(k, v)| (k.clone(), json!(v)))
                    .collect(),
            ),
        );
        cov.insert(
            "explanation".into(),
            json!("every explored trace is an execution of the implementation itself (no separate model); states = distinct observation digests, transitions = implementation calls/steps made"),
        );
        for (k, v) in g.extra.iter() {
            cov.insert(k.clone(), v.clone());
        }
        let ev = json!({
            "property_id": self.property,
            "tier": self.tier.name(),
            "seed": self.seed,
            "level": "model_checking",
            "coverage": Value::Object(cov),
            "assumptions": g.assumptions,
            "wall_s": self.start.elapsed().as_secs_f64(),
            "violations": g.violations,
        });
        let dir = verif_root().join("evidence");
        let _ = std::fs::create_dir_all(&dir);
        let path = dir.join(format!("{}.json", self.property));
        std::fs::write(&path, serde_json::to_string_pretty(&ev).unwrap())
            .expect("write evidence");
        println!(
            "{} {}: evaluations={} distinct={} nontrivial={} transitions={} exhaustive={} violations={} known_hits={} wall={:.1}s",
            self.property,
            self.tier.name(),
            evaluations,
            g.digests.len(),
            g.nontrivial.len(),
            transitions,
            g.exhaustive,
            g.violations,
            g.known_hits.values().sum::<u64>(),
            self.start.elapsed().as_secs_f64()
        );
        for (k, v) in g.counters.iter() {
            println!("  {} = {}", k, v);
        }
        // a confirmed failing execution is a verdict even if some machinery guard also complained
        if g.violations > 0 {
            return 1;
        }
        if g.machinery_error.is_some() {
            return 2;
        }
        0
    }
}

// ---------------------------------------------------------------------------
// parallel helper
// ---------------------------------------------------------------------------

/// Run `f(i)` for i in 0..n on all cores (rayon), work-stealing in index order.
pub fn par_for(n: usize, f: impl Fn(usize) + Sync + Send) {
    use rayon::prelude::*;
    (0..n).into_par_iter().for_each(|i| f(i));
}

#[cfg(test)]
mod tests {
    use super::*;
    #[test]
    fn explorer_counts() {
        // 3 binary choices, bound 1 => 1 + 3 = 4 tapes ; bound 3 => 8
        let mut n = 0;
        explore(1, u64::MAX, |t| {
            for _ in 0..3 {
                t.choose(2);
            }
            n += 1;
            true
        })
        .unwrap();
        assert_eq!(n, 4);
        let mut seen = HashSet::new();
        explore_full(u64::MAX, |t| {
            let v: Vec<u32> = (0..3).map(|_| t.choose(2)).collect();
            assert!(seen.insert(v));
            true
        })
        .unwrap();
        assert_eq!(seen.len(), 8);
    }
    #[test]
    fn divergence_detected() {
        let mut flip = false;
        let r = explore(2, u64::MAX, |t| {
            flip = !flip;
            let n = if flip { 3 } else { 1 };
            t.choose(n);
            t.choose(2);
            true
        });
        assert!(r.is_err());
    }
}

// ---------------------------------------------------------------------------
// entry point shared by every check binary
// ---------------------------------------------------------------------------

/// `body(run, replay)`; replay is `Some(case)` when invoked as `--replay <file>`.
pub fn main_for(property: &str, body: impl FnOnce(&Run, Option<&Value>)) -> ! {
    let args: Vec<String> = std::env::args().skip(1).collect();
    install_panic_hook();
    let mut tier = match std::env::var("VERIF_TIER").as_deref() {
        Ok("thorough") => Tier::Thorough,
        _ => Tier::Quick,
    };
    let mut replay: Option<Value> = None;
    let mut i = 0;
    while i < args.len() {
        match args[i].as_str() {
            "quick" => tier = Tier::Quick,
            "thorough" => tier = Tier::Thorough,
            "--replay" => {
                i += 1;
                let p = args.get(i).expect("--replay <file>");
                let s = std::fs::read_to_string(p).expect("read replay file");
                let v: Value = serde_json::from_str(&s).expect("replay file is JSON");
                replay = Some(v["case"].clone());
            }
            other => {
                eprintln!("unknown argument {other}");
                std::process::exit(2);
            }
        }
        i += 1;
    }
    let threads = std::env::var("VERIF_THREADS")
        .ok()
        .and_then(|s| s.parse().ok())
        .unwrap_or(16usize);
    let _ = rayon::ThreadPoolBuilder::new()
        .num_threads(threads)
        .stack_size(16 << 20)
        .build_global();
    let run = Run::new(property, tier);
    if let Some(r) = &replay {
        // replay mode: no evidence rewrite; body re-executes exactly that case
        body(&run, Some(r));
        let v = run.violations();
        println!("replay: violations={}", v);
        std::process::exit(if v > 0 { 1 } else { 0 });
    }
    // a panic of the harness itself (outside a guarded call into the code under test) is a machinery
    // error, never a verdict: violations already recorded still decide the exit code (1), otherwise 2
    let r = std::panic::catch_unwind(std::panic::AssertUnwindSafe(|| body(&run, None)));
    if r.is_err() {
        run.machinery_error("the harness panicked outside a guarded call (message on stderr above)");
    }
    let code = run.finish();
    std::process::exit(code);
}

// ---------------------------------------------------------------------------
// repository + corpus access
// ---------------------------------------------------------------------------

/// Root of the repository under test (`/repo`, or `$VERIF_REPO` when a scratch worktree is checked).
pub fn repo_root() -> PathBuf {
    std::env::var("VERIF_REPO")
        .map(PathBuf::from)
        .unwrap_or_else(|_| PathBuf::from("/repo"))
}

/// The frozen in-repo corpus: (path relative to the repo root, bytes), sorted by path.
/// `font-test-data/test_data/ttf/*.{ttf,otf}`, `font-test-data/test_data/ttc/*.ttc`,
/// `klippa/test-data/fonts/*.{ttf,otf}`.
pub fn corpus_fonts() -> Vec<(String, Vec<u8>)> {
    let root = repo_root();
    let mut out = vec![];
    for dir in [
        "font-test-data/test_data/ttf",
        "font-test-data/test_data/ttc",
        "klippa/test-data/fonts",
    ] {
        let Ok(rd) = std::fs::read_dir(root.join(dir)) else {
            continue;
        };
        for e in rd.flatten() {
            let p = e.path();
            let ext = p
                .extension()
                .and_then(|e| e.to_str())
                .unwrap_or("")
                .to_ascii_lowercase();
            if matches!(ext.as_str(), "ttf" | "otf" | "ttc") {
                if let Ok(b) = std::fs::read(&p) {
                    let rel = format!("{}/{}", dir, p.file_name().unwrap().to_string_lossy());
                    out.push((rel, b));
                }
            }
        }
    }
    out.sort_by(|a, b| a.0.cmp(&b.0));
    out
}
