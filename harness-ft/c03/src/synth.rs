//! Synthetic static TrueType family for C03 (DESIGN §3 C03, probe 25), built with write-fonts.
//!
//! One font per unitsPerEm ∈ {16, 1000, 2048, 16384}. Every font contains
//!   * glyph 0: empty;
//!   * simple glyphs: one contour (0,0) (a,0) (a,b) (0,b) for every (a, b) ∈ A × A, A = the boundary
//!     alphabet below, in 5 on/off-curve patterns (all on; alternating; first point off; all off; two
//!     consecutive off);
//!   * composites of 3 base glyphs: transform ∈ {none, scale 0.5, scale −1, x/y scale (1.5, 0.75),
//!     2×2 (0.5, 0.25, −0.25, 0.5)} × offset ∈ O × ROUND_XY_TO_GRID on/off × USE_MY_METRICS on/off ×
//!     {default, SCALED_COMPONENT_OFFSET, UNSCALED_COMPONENT_OFFSET};
//!   * a few two-component, point-anchored and nested composites.
//! Advance widths vary with the glyph id, left side bearings are xMin + {−1, 0, 1}, the last five
//! glyphs only have a side bearing (beyond numberOfHMetrics). No instructions, no cmap/name/post.

use crate::FontJob;
use font_types::{F2Dot14, GlyphId16, Tag};
use std::path::Path;
use write_fonts::tables::glyf::{
    Anchor, Bbox, Component, ComponentFlags, CompositeGlyph, Contour, GlyfLocaBuilder,
    SimpleGlyph, Transform,
};
use write_fonts::tables::loca::LocaFormat;
use read_fonts::tables::glyf::CurvePoint;
use write_fonts::FontBuilder;

pub const UPEMS: [u16; 4] = [16, 1000, 2048, 16384];
const ALPHABET: [i16; 9] = [0, 1, -1, 63, -63, 64, -64, 0x3FFF, -0x4000];
const PATTERNS: [[bool; 4]; 5] = [
    [true, true, true, true],
    [true, false, true, false],
    [false, true, true, true],
    [false, false, false, false],
    [true, false, false, true],
];
const OFFSETS: [(i16, i16); 4] = [(0, 0), (1, -1), (63, 64), (-300, 500)];

pub fn describe() -> String {
    format!(
        "unitsPerEm {UPEMS:?}; per font {} simple glyphs (coordinate alphabet {ALPHABET:?} squared × {} on/off patterns) and {} composites (5 transforms × {} offsets × round-to-grid × use-my-metrics × 3 offset-scaling flags × 3 bases, plus multi-component / point-anchored / nested ones)",
        ALPHABET.len() * ALPHABET.len() * PATTERNS.len(),
        PATTERNS.len(),
        composite_specs(1).len(),
        OFFSETS.len()
    )
}

struct CompSpec {
    comps: Vec<Component>,
}

fn transforms() -> Vec<Transform> {
    let f = F2Dot14::from_f32;
    vec![
        Transform::default(),
        Transform {
            xx: f(0.5),
            yx: f(0.0),
            xy: f(0.0),
            yy: f(0.5),
        },
        Transform {
            xx: f(-1.0),
            yx: f(0.0),
            xy: f(0.0),
            yy: f(-1.0),
        },
        Transform {
            xx: f(1.5),
            yx: f(0.0),
            xy: f(0.0),
            yy: f(0.75),
        },
        Transform {
            xx: f(0.5),
            yx: f(0.25),
            xy: f(-0.25),
            yy: f(0.5),
        },
    ]
}

/// `first_simple` = glyph id of the first simple glyph (1).
fn composite_specs(first_simple: u16) -> Vec<CompSpec> {
    let idx = |a: i16, b: i16, p: usize| -> u16 {
        let ai = ALPHABET.iter().position(|x| *x == a).unwrap();
        let bi = ALPHABET.iter().position(|x| *x == b).unwrap();
        first_simple + ((ai * ALPHABET.len() + bi) * PATTERNS.len() + p) as u16
    };
    let bases = [idx(63, 64, 0), idx(-64, 63, 1), idx(64, -63, 4)];
    let mut out = vec![];
    for base in bases {
        for t in transforms() {
            for (x, y) in OFFSETS {
                for round in [false, true] {
                    for umm in [false, true] {
                        for sc in 0..3 {
                            let flags = ComponentFlags {
                                round_xy_to_grid: round,
                                use_my_metrics: umm,
                                scaled_component_offset: sc == 1,
                                unscaled_component_offset: sc == 2,
                                overlap_compound: false,
                            };
                            out.push(CompSpec {
                                comps: vec![Component::new(
                                    GlyphId16::new(base),
                                    Anchor::Offset { x, y },
                                    t,
                                    flags,
                                )],
                            });
                        }
                    }
                }
            }
        }
    }
    // two components, second one transformed and rounded
    for t in transforms() {
        out.push(CompSpec {
            comps: vec![
                Component::new(
                    GlyphId16::new(bases[0]),
                    Anchor::Offset { x: 0, y: 0 },
                    Transform::default(),
                    ComponentFlags::default(),
                ),
                Component::new(
                    GlyphId16::new(bases[1]),
                    Anchor::Offset { x: 63, y: -64 },
                    t,
                    ComponentFlags {
                        round_xy_to_grid: true,
                        ..Default::default()
                    },
                ),
            ],
        });
    }
    // point-anchored second component (base point 2 ↔ component point 0)
    for t in transforms() {
        out.push(CompSpec {
            comps: vec![
                Component::new(
                    GlyphId16::new(bases[0]),
                    Anchor::Offset { x: 1, y: 1 },
                    Transform::default(),
                    ComponentFlags::default(),
                ),
                Component::new(
                    GlyphId16::new(bases[2]),
                    Anchor::Point {
                        base: 2,
                        component: 0,
                    },
                    t,
                    ComponentFlags::default(),
                ),
            ],
        });
    }
    out
}

fn simple(a: i16, b: i16, pat: [bool; 4]) -> SimpleGlyph {
    let pts = [(0i16, 0i16), (a, 0), (a, b), (0, b)];
    let contour: Contour = pts
        .iter()
        .zip(pat.iter())
        .map(|((x, y), on)| CurvePoint::new(*x, *y, *on))
        .collect::<Vec<_>>()
        .into();
    let mut g = SimpleGlyph {
        bbox: Bbox::default(),
        contours: vec![contour],
        instructions: vec![],
    };
    g.recompute_bounding_box();
    g
}

pub fn build_font(upem: u16) -> Vec<u8> {
    let mut b = GlyfLocaBuilder::new();
    let mut x_mins: Vec<i16> = vec![];
    // glyph 0: empty
    b.add_glyph(&SimpleGlyph::default()).unwrap();
    x_mins.push(0);
    for a in ALPHABET {
        for bb in ALPHABET {
            for p in PATTERNS {
                let g = simple(a, bb, p);
                x_mins.push(g.bbox.x_min);
                b.add_glyph(&g).unwrap();
            }
        }
    }
    let specs = composite_specs(1);
    let first_composite = x_mins.len() as u16;
    for s in &specs {
        let bbox = Bbox {
            x_min: -64,
            y_min: -64,
            x_max: 64,
            y_max: 64,
        };
        let mut it = s.comps.iter().cloned();
        let mut g = CompositeGlyph::new(it.next().unwrap(), bbox);
        for c in it {
            g.add_component(c, bbox);
        }
        x_mins.push(-64);
        b.add_glyph(&g).unwrap();
    }
    // nested: composites of composites (depth 2 and 3), with a scale at each level
    let half = Transform {
        xx: F2Dot14::from_f32(0.5),
        yx: F2Dot14::from_f32(0.0),
        xy: F2Dot14::from_f32(0.0),
        yy: F2Dot14::from_f32(0.5),
    };
    let mut prev = first_composite + 7; // some single-component composite with a transform
    for _ in 0..2 {
        let bbox = Bbox {
            x_min: -64,
            y_min: -64,
            x_max: 64,
            y_max: 64,
        };
        let g = CompositeGlyph::new(
            Component::new(
                GlyphId16::new(prev),
                Anchor::Offset { x: 33, y: -31 },
                half,
                ComponentFlags {
                    round_xy_to_grid: true,
                    ..Default::default()
                },
            ),
            bbox,
        );
        prev = x_mins.len() as u16;
        x_mins.push(-64);
        b.add_glyph(&g).unwrap();
    }
    let n = x_mins.len();
    let (glyf, loca, fmt) = b.build();
    let long_loca = matches!(fmt, LocaFormat::Long);

    // hmtx: the last five glyphs carry only a side bearing
    let n_long = n - 5;
    let mut hmtx: Vec<u8> = vec![];
    let adv = |g: usize| -> u16 { ((g * 37) % (2 * upem as usize) + 1) as u16 };
    let lsb = |g: usize| -> i16 { x_mins[g].saturating_add((g % 3) as i16 - 1) };
    for g in 0..n_long {
        hmtx.extend_from_slice(&adv(g).to_be_bytes());
        hmtx.extend_from_slice(&lsb(g).to_be_bytes());
    }
    for g in n_long..n {
        hmtx.extend_from_slice(&lsb(g).to_be_bytes());
    }

    let mut head: Vec<u8> = vec![];
    head.extend_from_slice(&0x0001_0000u32.to_be_bytes()); // version
    head.extend_from_slice(&0x0001_0000u32.to_be_bytes()); // fontRevision
    head.extend_from_slice(&0u32.to_be_bytes()); // checksumAdjustment
    head.extend_from_slice(&0x5F0F_3CF5u32.to_be_bytes()); // magic
    head.extend_from_slice(&0x0003u16.to_be_bytes()); // flags: baseline at y=0, lsb at x=0
    head.extend_from_slice(&upem.to_be_bytes());
    head.extend_from_slice(&[0; 16]); // created, modified
    for v in [-0x4000i16, -0x4000, 0x3FFF, 0x3FFF] {
        head.extend_from_slice(&v.to_be_bytes());
    }
    head.extend_from_slice(&0u16.to_be_bytes()); // macStyle
    head.extend_from_slice(&1u16.to_be_bytes()); // lowestRecPPEM
    head.extend_from_slice(&2i16.to_be_bytes()); // fontDirectionHint
    head.extend_from_slice(&(long_loca as i16).to_be_bytes()); // indexToLocFormat
    head.extend_from_slice(&0i16.to_be_bytes()); // glyphDataFormat

    let mut hhea: Vec<u8> = vec![];
    hhea.extend_from_slice(&0x0001_0000u32.to_be_bytes());
    hhea.extend_from_slice(&(upem.min(0x3FFF) as i16).to_be_bytes()); // ascender
    hhea.extend_from_slice(&(-(upem.min(0x3FFF) as i16) / 4).to_be_bytes()); // descender
    hhea.extend_from_slice(&0i16.to_be_bytes()); // lineGap
    hhea.extend_from_slice(&(2 * upem).to_be_bytes()); // advanceWidthMax
    hhea.extend_from_slice(&(-0x4000i16).to_be_bytes()); // minLeftSideBearing
    hhea.extend_from_slice(&(-0x4000i16).to_be_bytes()); // minRightSideBearing
    hhea.extend_from_slice(&0x3FFFi16.to_be_bytes()); // xMaxExtent
    hhea.extend_from_slice(&1i16.to_be_bytes()); // caretSlopeRise
    hhea.extend_from_slice(&[0; 2 + 2 + 8]); // run, offset, reserved
    hhea.extend_from_slice(&0i16.to_be_bytes()); // metricDataFormat
    hhea.extend_from_slice(&(n_long as u16).to_be_bytes());

    let mut maxp: Vec<u8> = vec![];
    maxp.extend_from_slice(&0x0001_0000u32.to_be_bytes());
    for v in [
        n as u16, // numGlyphs
        4,        // maxPoints
        1,        // maxContours
        16,       // maxCompositePoints
        4,        // maxCompositeContours
        2,        // maxZones
        0,        // maxTwilightPoints
        0,        // maxStorage
        0,        // maxFunctionDefs
        0,        // maxInstructionDefs
        0,        // maxStackElements
        0,        // maxSizeOfInstructions
        2,        // maxComponentElements
        4,        // maxComponentDepth
    ] {
        maxp.extend_from_slice(&v.to_be_bytes());
    }

    let mut fb = FontBuilder::new();
    fb.add_raw(Tag::new(b"head"), head);
    fb.add_raw(Tag::new(b"hhea"), hhea);
    fb.add_raw(Tag::new(b"maxp"), maxp);
    fb.add_raw(Tag::new(b"hmtx"), hmtx);
    fb.add_table(&glyf).unwrap();
    fb.add_table(&loca).unwrap();
    fb.build()
}

pub fn write_family(dir: &Path) -> Vec<FontJob> {
    let mut out = vec![];
    for upem in UPEMS {
        let bytes = build_font(upem);
        let path = dir.join(format!("synth-upem{upem}.ttf"));
        std::fs::write(&path, &bytes).expect("write synthetic font");
        let glyphs = skrifa::raw::FontRef::new(&bytes)
            .ok()
            .and_then(|f| {
                use skrifa::raw::TableProvider;
                f.maxp().ok().map(|m| m.num_glyphs() as u32)
            })
            .unwrap_or(0);
        out.push(FontJob {
            name: format!("synth:upem={upem}"),
            path,
            index: 0,
            glyphs,
            flavour: "glyf",
            synthetic: true,
            classes: Some(std::sync::Arc::new((0..glyphs).map(class_of).collect())),
            auto_modes: true,
            thorough_n: None,
            in_quick: true,
        });
    }
    out
}

/// Feature class of a synthetic glyph (the same for every unitsPerEm); part of violation identities so
/// that different defects on the synthetic family get different identities.
pub fn class_of(gid: u32) -> String {
    let n_simple = (ALPHABET.len() * ALPHABET.len() * PATTERNS.len()) as u32;
    if gid == 0 {
        return "empty glyph".into();
    }
    if gid <= n_simple {
        let p = (gid - 1) as usize % PATTERNS.len();
        let names = ["all on-curve", "alternating on/off", "first point off", "all off-curve", "two consecutive off"];
        return format!("simple glyph, {}", names[p]);
    }
    let ci = (gid - 1 - n_simple) as usize;
    let per_base = 5 * OFFSETS.len() * 2 * 2 * 3;
    let tnames = ["no transform", "uniform scale 0.5", "scale -1", "x/y scale", "2x2 transform"];
    if ci < 3 * per_base {
        let r = ci % per_base;
        let t = r / (OFFSETS.len() * 12);
        let r2 = r % (OFFSETS.len() * 12);
        let off = r2 / 12;
        let round = (r2 % 12) / 6;
        let umm = (r2 % 6) / 3;
        let sc = r2 % 3;
        // ROUND_XY_TO_GRID / USE_MY_METRICS / zero offset are reported in the message, not the identity
        let _ = (off, round, umm);
        return format!(
            "composite, {}, {}",
            tnames[t],
            ["default offset scaling", "SCALED_COMPONENT_OFFSET", "UNSCALED_COMPONENT_OFFSET"][sc],
        );
    }
    let r = ci - 3 * per_base;
    if r < 5 {
        return format!("two-component composite, second {}", tnames[r]);
    }
    if r < 10 {
        return format!("point-anchored composite, second {}", tnames[r - 5]);
    }
    "nested composite".into()
}
