//! Second-generation instruction families of the hinted synthetic TrueType family (coverage-gap audit,
//! see ../AUDIT.md). Everything the first generation never executed: the font program (FDEF / IDEF /
//! CALL / LOOPCALL incl. the call-stack and loop budgets), control flow (IF / ELSE / EIF nesting and
//! skipping over inline push data, JMPR / JROT / JROF forwards and backwards), the stack instructions at
//! their index boundaries and at the stack-size boundary, storage and control-value reads/writes (incl.
//! whether a glyph program's writes are visible to the next glyph), SLOOP-consuming instructions, the
//! reference-point bookkeeping of every mover, every round state under MDRP / MIRP / MIAP, minimum
//! distance / single width / cut-in under MIRP, the twilight-zone branches of every mover and reader,
//! phantom points moved by the glyph program (hinted advance), GPV / GFV after every vector setter,
//! multi-contour IUP / SHC / SHZ / FLIPRG, DELTA instructions with 0 / 2 / 3 exceptions.
//!
//! Computed values are observed as a pixel shift (SHPIX along y) of up to three y-touched points, so a
//! wrong stack value changes the outline by exactly that many 1/64 px.

use crate::synth_hint::*;

const SRP0: u8 = 0x10;
const SZP2: u8 = 0x15;
const SZPS: u8 = 0x16;
const SLOOP: u8 = 0x17;
const ELSE: u8 = 0x1B;
const JMPR: u8 = 0x1C;
const DUP: u8 = 0x20;
const POP: u8 = 0x21;
const CLEAR: u8 = 0x22;
const SWAP: u8 = 0x23;
const DEPTH: u8 = 0x24;
const CINDEX: u8 = 0x25;
const MINDEX: u8 = 0x26;
const LOOPCALL: u8 = 0x2A;
const CALL: u8 = 0x2B;
const FDEF: u8 = 0x2C;
const ENDF: u8 = 0x2D;
const WS: u8 = 0x42;
const RS: u8 = 0x43;
const RCVT: u8 = 0x45;
const GPV: u8 = 0x0C;
const GFV: u8 = 0x0D;
const LTEQ: u8 = 0x51;
const EQ: u8 = 0x54;
const NEQ: u8 = 0x55;
const AND: u8 = 0x5A;
const OR: u8 = 0x5B;
const ADD: u8 = 0x60;
const SUB: u8 = 0x61;
const JROT: u8 = 0x78;
const JROF: u8 = 0x79;
const SANGW: u8 = 0x7E;
const AA: u8 = 0x7F;
const IDEF: u8 = 0x89;
const ROLL: u8 = 0x8A;
/// an opcode without built-in meaning, given one by IDEF in the font program
const USER_OP: u8 = 0xA0;

/// The font program of every hinted synthetic font.
///   F0: top += 64            F1: calls F0 twice (nested call)     F2: top += 1 (LOOPCALL body)
///   F3: recursion, depth = top of stack                           F7: defined twice (second wins: += 128)
///   F8: body whose inline push data contains the ENDF / FDEF opcodes (+= 0x2D + 0x2C)
///   F200: a function number ≥ maxFunctionDefs (sparse slot) (+= 7)
///   IDEF 0xA0: top += 32
pub fn fpgm() -> Vec<u8> {
    let mut c = vec![];
    let mut fdef = |c: &mut Vec<u8>, n: i32, body: &[u8]| {
        push(c, &[n]);
        c.push(FDEF);
        c.extend_from_slice(body);
        c.push(ENDF);
    };
    let add = |v: i32| {
        let mut b = vec![];
        push(&mut b, &[v]);
        b.push(ADD);
        b
    };
    fdef(&mut c, 0, &add(64));
    let mut b = vec![];
    push(&mut b, &[0]);
    b.push(CALL);
    push(&mut b, &[0]);
    b.push(CALL);
    fdef(&mut c, 1, &b);
    fdef(&mut c, 2, &add(1));
    let mut b = vec![DUP, IF];
    push(&mut b, &[1]);
    b.push(SUB);
    push(&mut b, &[3]);
    b.push(CALL);
    b.push(EIF);
    fdef(&mut c, 3, &b);
    fdef(&mut c, 7, &add(64));
    fdef(&mut c, 7, &add(128));
    fdef(&mut c, 8, &[0xB1, ENDF, FDEF, ADD, ADD]);
    fdef(&mut c, 200, &add(7));
    push(&mut c, &[USER_OP as i32]);
    c.push(IDEF);
    c.extend(add(32));
    c.push(ENDF);
    c
}

/// y axis, points 3, 2, 4 touched in y (SHPIX moves only y-touched points in FreeType's backward
/// compatibility mode)
fn prelude(c: &mut Vec<u8>) {
    c.push(SVTCA_Y);
    touch(c, 3);
    touch(c, 2);
    touch(c, 4);
}

/// shift points 3, 2, 4 (the first `n` of them) along y by the top `n` stack values, then IUP
fn obs(c: &mut Vec<u8>, n: usize) {
    c.push(SVTCA_Y);
    for p in [3, 2, 4].into_iter().take(n) {
        push(c, &[p]);
        c.push(SWAP);
        c.push(SHPIX);
    }
    iup(c);
}

/// The default control-value cut-in (17/16 px) set explicitly: under the INSTCTRL-selector-2 prep variants
/// FreeType 2.12.1 keeps the prep's cut-in where skrifa restores the default (known finding, carried by
/// the first-generation MIAP / MIRP classes); an explicit SCVTCI makes both engines use the same value.
fn default_cutin(c: &mut Vec<u8>) {
    push(c, &[68]);
    c.push(SCVTCI);
}

const BASE: [i32; 6] = [270, 341, 412, 483, 554, 625];

pub fn more(out: &mut Vec<HGlyph>) {
    let geos = geometries();
    let geo = geos[0].clone();
    let mirrored: Vec<Pt> = geo.iter().map(|(x, y, on)| (-*x, -*y, *on)).collect();
    let mut add2 = |class: &str, points: &[Pt], c2: &[Pt], code: Vec<u8>| {
        out.push(HGlyph {
            class: class.to_string(),
            points: points.to_vec(),
            code,
            raw_composite: None,
            contour2: c2.to_vec(),
        })
    };
    macro_rules! add {
        ($class:expr, $pts:expr, $code:expr) => {
            add2($class, $pts, &[], $code)
        };
    }

    // ---- G1 stack instructions ------------------------------------------------------------------
    {
        let mut seqs: Vec<(String, Vec<u8>)> = vec![
            ("DUP".into(), vec![DUP]),
            ("POP".into(), vec![POP]),
            ("SWAP".into(), vec![SWAP]),
            ("DEPTH".into(), vec![DEPTH]),
            ("ROLL".into(), vec![ROLL]),
            ("DUP DUP ROLL".into(), vec![DUP, DUP, ROLL]),
        ];
        let mut c = vec![CLEAR];
        push(&mut c, &[9, 18, 27]);
        c.push(DEPTH);
        seqs.push(("CLEAR".into(), c));
        for k in 1..=6 {
            let mut c = vec![];
            push(&mut c, &[k]);
            c.push(CINDEX);
            seqs.push(("CINDEX".into(), c));
            let mut c = vec![];
            push(&mut c, &[k]);
            c.push(MINDEX);
            seqs.push(("MINDEX".into(), c));
        }
        for (op, name) in [(SANGW, "SANGW"), (AA, "AA")] {
            let mut c = vec![];
            push(&mut c, &[5]);
            c.push(op);
            seqs.push((name.into(), c));
        }
        // NPUSHB / NPUSHW with 9 operands, PUSHW with negative words
        let mut c = vec![];
        push(&mut c, &[1, 2, 3, 4, 5, 6, 7, 8, 9]);
        seqs.push(("NPUSHB".into(), c));
        let mut c = vec![];
        push(&mut c, &[-1, 2, -3, 400, 5, 6, -700, 8, -9]);
        seqs.push(("NPUSHW".into(), c));
        let mut c = vec![];
        push(&mut c, &[-32768, 32767, -1]);
        c.extend_from_slice(&[ADD, ADD]); // -2
        seqs.push(("PUSHW".into(), c));
        for (name, s) in seqs {
            let mut c = vec![];
            prelude(&mut c);
            push(&mut c, &BASE);
            c.extend_from_slice(&s);
            obs(&mut c, 3);
            add!(&format!("stack {name}"), &geo, c);
        }
        // the stack-size boundary: maxStackElements (64) + 32 = 96 slots
        for n in [92u8, 93, 94, 95] {
            let mut c = vec![];
            prelude(&mut c);
            c.push(NPUSHB);
            c.push(n);
            c.extend((0..n).map(|i| i + 1));
            c.push(DEPTH);
            obs(&mut c, 1);
            add!("stack size boundary", &geo, c);
        }
    }
    // ---- G2 comparison / logic instructions the first generation left out -----------------------
    for v in [0, 1, -1, 64, 65] {
        for w in [0, 1, -1, 64, 65] {
            for (op, name) in [(AND, "AND"), (OR, "OR"), (EQ, "EQ"), (NEQ, "NEQ"), (GT, "GT"), (LTEQ, "LTEQ")] {
                let mut c = vec![];
                prelude(&mut c);
                push(&mut c, &[v, w]);
                c.push(op);
                obs(&mut c, 1);
                add!(name, &geo, c);
            }
        }
    }
    // ---- G3 IF / ELSE / EIF -----------------------------------------------------------------------
    for c1 in [0, 1, -1, 2] {
        for c2 in [0, 1, -1, 2] {
            let mut c = vec![];
            prelude(&mut c);
            push(&mut c, &BASE);
            push(&mut c, &[c1]);
            c.push(IF);
            {
                push(&mut c, &[c2]);
                c.push(IF);
                push(&mut c, &[64]);
                c.push(ELSE);
                push(&mut c, &[128]);
                c.push(EIF);
            }
            c.push(ELSE);
            {
                push(&mut c, &[c2]);
                c.push(IF);
                push(&mut c, &[192]);
                c.push(ELSE);
                push(&mut c, &[250]);
                c.push(EIF);
            }
            c.push(EIF);
            obs(&mut c, 2);
            add!("IF nested", &geo, c);
        }
    }
    // a false IF without ELSE must skip a nested IF … ELSE … EIF
    for c1 in [0, 1] {
        let mut c = vec![];
        prelude(&mut c);
        push(&mut c, &BASE);
        push(&mut c, &[c1]);
        c.push(IF);
        push(&mut c, &[1]);
        c.push(IF);
        push(&mut c, &[64]);
        c.push(ELSE);
        push(&mut c, &[128]);
        c.push(EIF);
        c.push(ADD);
        c.push(EIF);
        obs(&mut c, 2);
        add!("IF nested", &geo, c);
    }
    // skipped branches whose inline push data contains the IF / ELSE / EIF opcode bytes
    for cond in [0, 1] {
        let forms: [(&str, Vec<u8>, Vec<u8>); 4] = [
            ("PUSHB", vec![0xB1, EIF, ELSE], vec![0xB1, IF, EIF]),
            ("NPUSHB", vec![NPUSHB, 2, EIF, ELSE], vec![NPUSHB, 2, IF, EIF]),
            ("PUSHW", vec![0xB9, 0, EIF, 0, ELSE], vec![0xB9, 0, IF, 0, EIF]),
            ("NPUSHW", vec![NPUSHW, 2, 0, EIF, 0, ELSE], vec![NPUSHW, 2, 0, IF, 0, EIF]),
        ];
        for (_, a, b) in forms {
            let mut c = vec![];
            prelude(&mut c);
            push(&mut c, &BASE);
            push(&mut c, &[cond]);
            c.push(IF);
            c.extend_from_slice(&a);
            c.push(ADD);
            c.push(ELSE);
            c.extend_from_slice(&b);
            c.push(SUB);
            c.push(EIF);
            obs(&mut c, 2);
            add!("IF skipping inline data", &geo, c);
        }
    }
    // ---- G4 jumps ---------------------------------------------------------------------------------
    for off in [1, 3, 4] {
        let mut c = vec![];
        prelude(&mut c);
        push(&mut c, &BASE);
        push(&mut c, &[off]);
        c.push(JMPR);
        push(&mut c, &[64]);
        c.push(ADD);
        obs(&mut c, 2);
        add!("JMPR", &geo, c);
    }
    for (op, name) in [(JROT, "JROT"), (JROF, "JROF")] {
        for e in [0, 1, -1, 2] {
            let mut c = vec![];
            prelude(&mut c);
            push(&mut c, &BASE);
            push(&mut c, &[4, e]);
            c.push(op);
            push(&mut c, &[64]);
            c.push(ADD);
            obs(&mut c, 2);
            add!(name, &geo, c);
        }
    }
    // a counting loop with one backward jump per iteration; 100 / 140 are the candidates for FreeType's
    // backward-jump budget of a 5-point glyph (max(50, 10·points) + max(50, cvt/10))
    for n in [0, 1, 3, 99, 100, 101, 139, 140, 141] {
        let mut c = vec![];
        prelude(&mut c);
        push(&mut c, &BASE);
        // force word pushes so that the layout below is the same for every n
        c.extend_from_slice(&[0xB9, 0, 0]);
        c.extend_from_slice(&(n as i16).to_be_bytes());
        let l = c.len();
        c.push(DUP); // L+0
        c.extend_from_slice(&[0xB0, 13]); // L+1: offset from JROF to END
        c.push(SWAP); // L+3
        c.push(JROF); // L+4
        c.extend_from_slice(&[0xB0, 1, SUB]); // L+5
        c.push(SWAP); // L+8
        c.extend_from_slice(&[0xB0, 1, ADD]); // L+9
        c.push(SWAP); // L+12
        c.push(0xB8); // L+13 PUSHW[0]
        c.extend_from_slice(&(-16i16).to_be_bytes());
        c.push(JMPR); // L+16
        assert_eq!(c.len(), l + 17);
        c.push(POP); // END = L+17
        obs(&mut c, 2);
        add!("backward jump loop", &geo, c);
    }
    // ---- G5 functions and instruction definitions -------------------------------------------------
    for f in [0, 1, 7, 8, 200] {
        let mut c = vec![];
        prelude(&mut c);
        push(&mut c, &BASE);
        push(&mut c, &[f]);
        c.push(CALL);
        obs(&mut c, 2);
        add!("CALL", &geo, c);
    }
    {
        let mut c = vec![];
        prelude(&mut c);
        push(&mut c, &BASE);
        c.push(USER_OP);
        c.push(USER_OP);
        obs(&mut c, 2);
        add!("IDEF", &geo, c);
    }
    for count in [-1, 0, 1, 2, 3, 99, 100, 101, 139, 140, 141] {
        let mut c = vec![];
        prelude(&mut c);
        push(&mut c, &BASE);
        push(&mut c, &[count, 2]);
        c.push(LOOPCALL);
        obs(&mut c, 2);
        add!("LOOPCALL", &geo, c);
    }
    // recursion: n + 1 call records; FreeType's call stack holds 32
    for n in [1, 30, 31, 32] {
        let mut c = vec![];
        prelude(&mut c);
        push(&mut c, &BASE);
        push(&mut c, &[n, 3]);
        c.push(CALL);
        c.push(POP);
        push(&mut c, &[0]);
        c.push(CALL);
        obs(&mut c, 2);
        add!("CALL recursion depth", &geo, c);
    }
    // ---- G6 storage and control values --------------------------------------------------------------
    for idx in [0, 3, 7, 8] {
        // write then read (8 = maxStorage: out of range, tolerated unless pedantic)
        let mut c = vec![];
        prelude(&mut c);
        push(&mut c, &BASE);
        push(&mut c, &[idx, 77]);
        c.push(WS);
        push(&mut c, &[idx]);
        c.push(RS);
        push(&mut c, &[(idx + 1) % 8]);
        c.push(RS);
        obs(&mut c, 3);
        add!("WS/RS", &geo, c);
    }
    // is a glyph program's write visible to the next glyph loaded from the same size? (consecutive ids)
    {
        let mut c = vec![];
        prelude(&mut c);
        push(&mut c, &[5, 99]);
        c.push(WS);
        push(&mut c, &[17, 130]);
        c.push(WCVTP);
        push(&mut c, &[5]);
        c.push(RS);
        push(&mut c, &[17]);
        c.push(RCVT);
        obs(&mut c, 2);
        add!("storage/cvt written by a glyph", &geo, c);
        let mut c = vec![];
        prelude(&mut c);
        push(&mut c, &[5]);
        c.push(RS);
        push(&mut c, &[17]);
        c.push(RCVT);
        obs(&mut c, 2);
        add!("storage/cvt read by the next glyph", &geo, c);
    }
    for i in 0..=CVT.len() as i32 {
        for axis in 0..2 {
            let mut c = vec![];
            prelude(&mut c);
            c.push(axis_op(axis));
            push(&mut c, &[i]);
            c.push(RCVT);
            obs(&mut c, 1);
            add!("RCVT", &geo, c);
        }
    }
    for v in [0, 64, -64, 100, 1000, -1000] {
        for (op, name) in [(WCVTP, "WCVTP"), (WCVTF, "WCVTF")] {
            let mut c = vec![];
            prelude(&mut c);
            push(&mut c, &[19, v]);
            c.push(op);
            push(&mut c, &[19]);
            c.push(RCVT);
            obs(&mut c, 1);
            add!(name, &geo, c);
            // and consumed by MIAP
            let mut c = vec![SVTCA_Y];
            push(&mut c, &[19, v]);
            c.push(op);
            push(&mut c, &[3, 19]);
            c.push(MIAP);
            iup(&mut c);
            add!(name, &geo, c);
        }
    }
    // ---- G7 SLOOP-consuming instructions (and the reset of the loop counter afterwards) -----------------
    // Two-contour geometry: references 0 and 2, looped targets from {1, 3, 4}, then a second, un-looped
    // instance of the same instruction on one more point. Below its operand lie the points 7, 6, 5 of the
    // second contour: an instruction that keeps the loop count would consume and visibly move them.
    {
        let c2: Vec<Pt> = vec![(150, 100, true), (350, 101, false), (250, 300, true)];
        for axis in 0..2 {
            for n in [1, 2, 3] {
                let pts: Vec<i32> = [1, 3, 4][..n as usize].to_vec();
                let ops: [(&str, u8, Option<i32>); 6] = [
                    ("SHP", SHP, None),
                    ("SHP", SHP + 1, None),
                    ("SHPIX", SHPIX, Some(48)),
                    ("IP", IP, None),
                    ("ALIGNRP", ALIGNRP, None),
                    ("FLIPPT", FLIPPT, None),
                ];
                for (name, op, arg) in ops {
                    let mut c = vec![axis_op(axis)];
                    // targets touched (SHPIX moves only y-touched points in backward compatibility mode)
                    for p in [1, 3, 4, 5, 6, 7] {
                        touch(&mut c, p);
                    }
                    // references: 0 and 2 rounded; rp0 = rp1 = 0, rp2 = 2
                    push(&mut c, &[2]);
                    c.push(MDAP + 1);
                    push(&mut c, &[0]);
                    c.push(MDAP + 1);
                    push(&mut c, &[2]);
                    c.push(SRP2);
                    let last = if n == 3 { 1 } else { 4 };
                    let mut v = vec![7, 6, 5, last];
                    if let Some(a) = arg {
                        v.push(a);
                    }
                    v.extend(pts.iter().copied());
                    if let Some(a) = arg {
                        v.push(a);
                    }
                    v.push(n);
                    push(&mut c, &v);
                    c.push(SLOOP);
                    c.push(op);
                    c.push(op);
                    iup(&mut c);
                    add2(&format!("SLOOP {name}"), &geos[1], &c2, c);
                }
            }
        }
    }
    // ---- G8 reference-point bookkeeping: what rp0 / rp1 / rp2 are after each mover ----------------------
    for axis in 0..2 {
        let firsts: Vec<(&str, Vec<u8>)> = {
            let mut v: Vec<(&str, Vec<u8>)> = vec![];
            for f in [0x00u8, 0x10, 0x14] {
                let mut c = vec![];
                push(&mut c, &[2]);
                c.push(MDRP + f);
                v.push(("MDRP", c));
                let mut c = vec![];
                push(&mut c, &[2, 12]);
                c.push(MIRP + f);
                v.push(("MIRP", c));
            }
            for a in 0..2u8 {
                let mut c = vec![];
                push(&mut c, &[2, 33]);
                c.push(MSIRP + a);
                v.push(("MSIRP", c));
            }
            let mut c = vec![];
            push(&mut c, &[2]);
            c.push(MDAP + 1);
            v.push(("MDAP", c));
            let mut c = vec![];
            push(&mut c, &[2, 9]);
            c.push(MIAP + 1);
            v.push(("MIAP", c));
            let mut c = vec![];
            push(&mut c, &[2]);
            c.push(ALIGNRP);
            v.push(("ALIGNRP", c));
            let mut c = vec![];
            push(&mut c, &[2]);
            c.push(SHP);
            v.push(("SHP", c));
            v
        };
        let followers: Vec<Vec<u8>> = {
            let mut v = vec![];
            for op in [MDRP, MDRP + 0x0C, SHP, SHP + 1, ALIGNRP, IP] {
                let mut c = vec![];
                push(&mut c, &[3]);
                c.push(op);
                v.push(c);
            }
            v
        };
        for (name, first) in &firsts {
            for fol in &followers {
                let mut c = vec![axis_op(axis)];
                default_cutin(&mut c);
                // three references rounded differently: rp1 = 4, rp2 = 1, rp0 = 0
                for p in [4, 1, 0] {
                    push(&mut c, &[p]);
                    c.push(MDAP + 1);
                }
                push(&mut c, &[4]);
                c.push(SRP1);
                push(&mut c, &[1]);
                c.push(SRP2);
                c.extend_from_slice(first);
                c.extend_from_slice(fol);
                iup(&mut c);
                add!(&format!("reference points after {name}"), &geos[1], c);
            }
        }
    }
    // ---- G9 every round state under the rounding movers -----------------------------------------------
    {
        let mut states: Vec<Vec<u8>> = ROUND_STATES.iter().map(|(op, _)| vec![*op]).collect();
        for (op, n) in [(SROUND, 0x48), (SROUND, 0x8D), (S45ROUND, 0x48), (SROUND, 0x05)] {
            let mut c = vec![];
            push(&mut c, &[n]);
            c.push(op);
            states.push(c);
        }
        for st in &states {
            for axis in 0..2 {
                for g in [&geos[1], &mirrored] {
                    let movers: [(&str, Vec<i32>, u8); 5] = [
                        ("MDRP", vec![3], MDRP + 0x04),
                        ("MDRP", vec![3], MDRP + 0x0C),
                        ("MIRP", vec![3, 12], MIRP + 0x04),
                        ("MIRP", vec![3, 16], MIRP + 0x0C),
                        ("MIAP", vec![3, 15], MIAP + 1),
                    ];
                    for (name, args, op) in movers {
                        let mut c = vec![axis_op(axis)];
                        default_cutin(&mut c);
                        push(&mut c, &[0]);
                        c.push(MDAP); // rp0 = 0, not rounded
                        c.extend_from_slice(st);
                        push(&mut c, &args);
                        c.push(op);
                        iup(&mut c);
                        add!(&format!("round state under {name}"), g, c);
                    }
                }
            }
        }
    }
    // ---- G10 MIRP × minimum distance / single width / cut-in ------------------------------------------
    for axis in 0..2 {
        let target = if axis == 0 { 1 } else { 2 };
        for f in [0x08u8, 0x0C] {
            for smd in [0, 33, 65, 128] {
                for i in [12, 16, 17] {
                    let mut c = vec![axis_op(axis)];
                    default_cutin(&mut c);
                    push(&mut c, &[smd]);
                    c.push(SMD);
                    push(&mut c, &[0]);
                    c.push(MDAP + 1);
                    push(&mut c, &[target, i]);
                    c.push(MIRP + f);
                    iup(&mut c);
                    add!("MIRP with SMD", &geos[0], c);
                }
            }
        }
        for f in [0x00u8, 0x04, 0x08, 0x0C] {
            for (ssw, sswci) in [(400, 64), (333, 0), (410, 640), (0, 64)] {
                let mut c = vec![axis_op(axis)];
                default_cutin(&mut c);
                push(&mut c, &[ssw]);
                c.push(SSW);
                push(&mut c, &[sswci]);
                c.push(SSWCI);
                push(&mut c, &[0]);
                c.push(MDAP + 1);
                push(&mut c, &[target, 12]);
                c.push(MIRP + f);
                iup(&mut c);
                add!("MIRP with single width", &geos[0], c);
            }
        }
        for f in [0x04u8, 0x0C] {
            for cutin in [1, 64, 200, 1000] {
                for i in [13, 14, 15] {
                    let mut c = vec![axis_op(axis)];
                    push(&mut c, &[cutin]);
                    c.push(SCVTCI);
                    push(&mut c, &[0]);
                    c.push(MDAP + 1);
                    push(&mut c, &[target, i]);
                    c.push(MIRP + f);
                    iup(&mut c);
                    // the plain class "MIRP": shows the known INSTCTRL-2 cut-in divergence under that prep
                    add!("MIRP", &geos[0], c);
                }
            }
        }
    }
    // ---- G11 twilight zone ---------------------------------------------------------------------------
    for axis in 0..2 {
        // all zones twilight; T0 = cvt 6 rounded, T1 = cvt 8 unrounded
        let setup = |c: &mut Vec<u8>| {
            prelude(c);
            c.push(axis_op(axis));
            push(c, &[0]);
            c.push(SZPS);
            push(c, &[0, 6]);
            c.push(MIAP + 1);
            push(c, &[1, 8]);
            c.push(MIAP);
        };
        // read coordinates of twilight point `p` (current and original), back to the glyph zone, observe
        let finish = |c: &mut Vec<u8>, p: i32| {
            push(c, &[p]);
            c.push(GC);
            push(c, &[p]);
            c.push(GC + 1);
            push(c, &[1]);
            c.push(SZPS);
            obs(c, 2);
        };
        for a in 0..2u8 {
            let mut c = vec![];
            setup(&mut c);
            push(&mut c, &[0, 1]);
            c.push(MD + a);
            push(&mut c, &[1]);
            c.push(SZPS);
            obs(&mut c, 1);
            add!("twilight MD", &geo, c);
        }
        for f in [0x00u8, 0x04, 0x08, 0x0C, 0x1D] {
            let mut c = vec![];
            setup(&mut c);
            push(&mut c, &[0]);
            c.push(SRP0);
            push(&mut c, &[1]);
            c.push(MDRP + f);
            finish(&mut c, 1);
            add!("twilight MDRP", &geo, c);
            let mut c = vec![];
            setup(&mut c);
            push(&mut c, &[0]);
            c.push(SRP0);
            push(&mut c, &[2, 12]);
            c.push(MIRP + f);
            finish(&mut c, 2);
            add!("twilight MIRP", &geo, c);
            // twilight reference, glyph-zone target
            let mut c = vec![];
            setup(&mut c);
            push(&mut c, &[0]);
            c.push(SRP0);
            push(&mut c, &[1]);
            c.push(SZP1);
            push(&mut c, &[3]);
            c.push(MDRP + f);
            push(&mut c, &[1]);
            c.push(SZPS);
            iup(&mut c);
            add!("twilight reference MDRP", &geo, c);
        }
        for a in 0..2u8 {
            let mut c = vec![];
            setup(&mut c);
            push(&mut c, &[0]);
            c.push(SRP0);
            push(&mut c, &[2, 33]);
            c.push(MSIRP + a);
            finish(&mut c, 2);
            add!("twilight MSIRP", &geo, c);
            // SHZ / SHP after the reference T0 was moved by 33/64 px
            let mut c = vec![];
            setup(&mut c);
            push(&mut c, &[0, 33]);
            c.push(SHPIX);
            push(&mut c, &[0]);
            c.push(SRP1);
            push(&mut c, &[0]);
            c.push(SRP2);
            push(&mut c, &[0]);
            c.push(SHZ + a);
            finish(&mut c, 1);
            add!("twilight SHZ", &geo, c);
            let mut c = vec![];
            setup(&mut c);
            push(&mut c, &[0, 33]);
            c.push(SHPIX);
            push(&mut c, &[0]);
            c.push(SRP1);
            push(&mut c, &[0]);
            c.push(SRP2);
            push(&mut c, &[1]);
            c.push(SHP + a);
            finish(&mut c, 1);
            add!("twilight SHP", &geo, c);
            // the glyph zone shifted by a twilight reference: the reference's index (0) is NOT exempt
            // because it lies in another zone
            let mut c = vec![];
            setup(&mut c);
            push(&mut c, &[0, 33]);
            c.push(SHPIX);
            push(&mut c, &[0]);
            c.push(SRP1);
            push(&mut c, &[0]);
            c.push(SRP2);
            push(&mut c, &[1]);
            c.push(SZP2);
            push(&mut c, &[1]);
            c.push(SHZ + a);
            push(&mut c, &[1]);
            c.push(SZPS);
            iup(&mut c);
            add!("twilight reference SHZ of the glyph zone", &geo, c);
        }
        {
            let mut c = vec![];
            setup(&mut c);
            push(&mut c, &[0]);
            c.push(SRP0);
            push(&mut c, &[1]);
            c.push(ALIGNRP);
            finish(&mut c, 1);
            add!("twilight ALIGNRP", &geo, c);
            for r in 0..2u8 {
                let mut c = vec![];
                setup(&mut c);
                push(&mut c, &[1]);
                c.push(MDAP + r);
                finish(&mut c, 1);
                add!("twilight MDAP", &geo, c);
                for cutin in [0, 64] {
                    let mut c = vec![];
                    setup(&mut c);
                    push(&mut c, &[cutin]);
                    c.push(SCVTCI);
                    push(&mut c, &[2, 15]);
                    c.push(MIAP + r);
                    finish(&mut c, 2);
                    add!("twilight MIAP", &geo, c);
                }
            }
            let mut c = vec![];
            setup(&mut c);
            push(&mut c, &[1, 777]);
            c.push(SCFS);
            finish(&mut c, 1);
            add!("twilight SCFS", &geo, c);
            // IP of a glyph point between two twilight references (moved or not)
            for moved in [false, true] {
                let mut c = vec![];
                setup(&mut c);
                if moved {
                    push(&mut c, &[1, 33]);
                    c.push(SHPIX);
                }
                push(&mut c, &[0]);
                c.push(SRP1);
                push(&mut c, &[1]);
                c.push(SRP2);
                push(&mut c, &[1]);
                c.push(SZP2);
                push(&mut c, &[3]);
                c.push(IP);
                push(&mut c, &[1]);
                c.push(SZPS);
                iup(&mut c);
                add!("twilight references IP", &geo, c);
            }
        }
    }
    // ---- G12 phantom points moved by the glyph program (hinted advance / side bearing) ------------------
    for g in [&geos[0], &geos[1]] {
        let mut progs: Vec<Vec<u8>> = vec![];
        for p in [5, 6] {
            let mut c = vec![SVTCA_X];
            push(&mut c, &[p]);
            c.push(MDAP + 1);
            progs.push(c);
            for d in [32, 64, -33] {
                let mut c = vec![SVTCA_X];
                push(&mut c, &[p, d]);
                c.push(SHPIX);
                progs.push(c);
            }
        }
        let mut c = vec![SVTCA_X];
        push(&mut c, &[5]);
        c.push(MDAP + 1);
        push(&mut c, &[6]);
        c.push(MDRP + 0x14);
        progs.push(c);
        let mut c = vec![SVTCA_X];
        default_cutin(&mut c);
        push(&mut c, &[5]);
        c.push(MDAP + 1);
        push(&mut c, &[6, 12]);
        c.push(MIRP + 0x04);
        progs.push(c);
        let mut c = vec![SVTCA_X];
        push(&mut c, &[1]);
        c.push(MDAP + 1);
        push(&mut c, &[6]);
        c.push(ALIGNRP);
        progs.push(c);
        let mut c = vec![SVTCA_X];
        push(&mut c, &[5]);
        c.push(SRP0);
        push(&mut c, &[6, 64]);
        c.push(MSIRP);
        progs.push(c);
        let mut c = vec![SVTCA_X];
        push(&mut c, &[1]);
        c.push(MDAP + 1);
        push(&mut c, &[6]);
        c.push(MDRP + 0x0D);
        progs.push(c);
        let mut c = vec![SVTCA_Y];
        push(&mut c, &[8]);
        c.push(MDAP + 1);
        push(&mut c, &[7, 64]);
        c.push(SHPIX);
        progs.push(c);
        // diagonal freedom vector
        let mut c = vec![];
        push(&mut c, &[0x2D41, 0x2D41]);
        c.push(SPVFS);
        push(&mut c, &[0x2D41, 0x2D41]);
        c.push(SFVFS);
        push(&mut c, &[6]);
        c.push(MDAP + 1);
        progs.push(c);
        for mut c in progs {
            iup(&mut c);
            add!("phantom points", g, c);
        }
    }
    // ---- G13 GPV / GFV after every kind of vector setter -----------------------------------------------
    {
        let mut setters: Vec<Vec<u8>> = (0x00u8..=0x05).map(|op| vec![op]).collect();
        for op in [SPVTL, SFVTL, SDPVTL] {
            for a in 0..2u8 {
                for (p1, p2) in [(0, 2), (0, 1), (1, 2), (1, 1), (3, 0)] {
                    let mut c = vec![];
                    push(&mut c, &[p1, p2]);
                    c.push(op + a);
                    setters.push(c);
                }
            }
        }
        for (x, y) in [(0x2D41, 0x2D41), (0x3B21, -0x187E), (0, 0x4000), (-0x4000, 0)] {
            for op in [SPVFS, SFVFS] {
                let mut c = vec![];
                push(&mut c, &[x, y]);
                c.push(op);
                setters.push(c);
            }
        }
        for s in &setters {
            for (rd, name) in [(vec![GPV], "GPV"), (vec![GFV], "GFV"), (vec![SFVTPV, GFV], "GFV")] {
                let mut c = vec![];
                prelude(&mut c);
                // point 2 rounded in x so that current and original lines differ (SDPVTL)
                c.push(SVTCA_X);
                push(&mut c, &[2]);
                c.push(MDAP + 1);
                c.extend_from_slice(s);
                c.extend_from_slice(&rd);
                obs(&mut c, 2);
                add!(name, &geos[1], c);
            }
        }
    }
    // ---- G14 two contours: IUP, SHC, SHZ, FLIPRG --------------------------------------------------------
    {
        let c2: Vec<Pt> = vec![(150, 100, true), (350, 101, false), (250, 300, true)];
        let subsets: [&[i32]; 12] = [
            &[],
            &[0],
            &[5],
            &[0, 5],
            &[0, 3],
            &[5, 7],
            &[0, 3, 5],
            &[4],
            &[7],
            &[0, 4],
            &[5, 6, 7],
            &[1, 6],
        ];
        for axis in 0..2 {
            for s in subsets {
                for d in [64, 33] {
                    let mut c = vec![axis_op(axis)];
                    for (k, p) in s.iter().enumerate() {
                        push(&mut c, &[*p]);
                        c.push(MDAP + 1);
                        push(&mut c, &[*p, d * (k as i32 + 1)]);
                        c.push(SHPIX);
                    }
                    c.push(IUP_X);
                    c.push(IUP_Y);
                    add2("two contours IUP", &geos[1], &c2, c);
                }
            }
            for rp in [0, 5] {
                for contour in [0, 1] {
                    for a in 0..2u8 {
                        let mut c = vec![axis_op(axis)];
                        push(&mut c, &[rp]);
                        c.push(MDAP + 1);
                        push(&mut c, &[rp, 48]);
                        c.push(SHPIX);
                        push(&mut c, &[rp]);
                        c.push(SRP1);
                        push(&mut c, &[rp]);
                        c.push(SRP2);
                        push(&mut c, &[contour]);
                        c.push(SHC + a);
                        iup(&mut c);
                        add2("two contours SHC", &geos[1], &c2, c);
                    }
                }
                let mut c = vec![axis_op(axis)];
                push(&mut c, &[rp]);
                c.push(MDAP + 1);
                push(&mut c, &[rp, 48]);
                c.push(SHPIX);
                push(&mut c, &[rp]);
                c.push(SRP2);
                push(&mut c, &[1]);
                c.push(SHZ);
                iup(&mut c);
                add2("two contours SHZ", &geos[1], &c2, c);
            }
        }
        for (lo, hi) in [(3, 6), (0, 7), (6, 6), (4, 5)] {
            for op in [FLIPRGON, FLIPRGOFF] {
                let mut c = vec![];
                push(&mut c, &[lo, hi]);
                c.push(op);
                add2("two contours FLIPRG", &geos[1], &c2, c);
            }
        }
    }
    // ---- G15 DELTA instructions with 0, 2, 3 exceptions ---------------------------------------------------
    // default delta base 9, shift 3: argument (ppem − 9) << 4 | magnitude
    {
        let arg = |ppem: i32, mag: i32| ((ppem - 9) << 4) | mag;
        let lists: [Vec<(i32, i32)>; 4] = [
            vec![],
            vec![(12, 0xA), (17, 0x3)],
            vec![(12, 0xF), (12, 0x0), (20, 0x8)],
            vec![(17, 0x7), (17, 0x8), (17, 0xC)],
        ];
        for l in &lists {
            // DELTAP1 on points 3, 1, 4 in turn
            let mut c = vec![SVTCA_Y];
            let mut v = vec![];
            for (k, (ppem, mag)) in l.iter().enumerate() {
                v.push(arg(*ppem, *mag));
                v.push([3, 1, 4][k]);
            }
            v.push(l.len() as i32);
            for p in [3, 1, 4] {
                touch(&mut c, p);
            }
            push(&mut c, &v);
            c.push(DELTAP1);
            iup(&mut c);
            add!("DELTAP1 exception count", &geo, c);
            // DELTAC1 on cvt entries 1, 9, 8, each then used by MIAP[0]
            let mut c = vec![SVTCA_Y];
            let mut v = vec![];
            for (k, (ppem, mag)) in l.iter().enumerate() {
                v.push(arg(*ppem, *mag));
                v.push([1, 9, 8][k]);
            }
            v.push(l.len() as i32);
            push(&mut c, &v);
            c.push(DELTAC1);
            push(&mut c, &[2, 1]);
            c.push(MIAP);
            push(&mut c, &[3, 9]);
            c.push(MIAP);
            push(&mut c, &[4, 8]);
            c.push(MIAP);
            iup(&mut c);
            add!("DELTAC1 exception count", &geo, c);
        }
    }
}
