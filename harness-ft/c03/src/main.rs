//! C03 — scaled and hinted outlines match FreeType for static fonts.
//!
//! The finite grid (DESIGN.md §3 C03), enumerated completely and in a fixed order:
//!
//!   every static (no `fvar`) TrueType / CFF font of the corpus (+ a synthetic TrueType family built
//!   with write-fonts) × every glyph id × ppem ∈ {unscaled} ∪ 1..=N × mode ∈ {unhinted,
//!   interpreter × {Mono, Normal, Light, Lcd, VerticalLcd}, auto-hinter × the same 5 targets}.
//!
//! Oracle: the repository's own comparison tool used as a library (`fauntlet`): its
//! `FreeTypeInstance` (the FreeType that `freetype-sys` compiles from its bundled sources), its
//! `SkrifaInstance`, its `RegularizingPen`; a load agrees when the two regularised pen command
//! streams are equal and — when skrifa reports a scaler-adjusted advance — that advance equals
//! FreeType's `metrics.horiAdvance` (the comparison `fauntlet::compare_glyphs` makes, without its
//! variable-font HVAR/gvar tolerance, which cannot apply to static fonts).
//!
//! This crate lives in its own cargo workspace: skrifa must be built *without* `autohint_shaping`
//! (the way fauntlet builds it); the enabled features are printed into the evidence.

use fauntlet::{Font, Hinting, HintingTarget, InstanceOptions, RegularizingPen};
use rayon::prelude::*;
use serde_json::{json, Value};
use skrifa::{
    outline::pen::PathElement,
    raw::{FileRef, FontRef, TableProvider},
    GlyphId, MetadataProvider,
};
use std::collections::{BTreeMap, BTreeSet, HashSet};
use std::path::PathBuf;
use vcore::*;

mod synth;
mod synth_cff;
mod synth_hint;
mod synth_hint2;

fn main() {
    main_for("C03", body)
}

// ---------------------------------------------------------------------------------------------
// modes
// ---------------------------------------------------------------------------------------------

const TARGETS: [HintingTarget; 5] = [
    HintingTarget::Mono,
    HintingTarget::Normal,
    HintingTarget::Light,
    HintingTarget::Lcd,
    HintingTarget::VerticalLcd,
];

fn modes() -> Vec<Option<Hinting>> {
    let mut m = vec![None];
    for t in TARGETS {
        m.push(Some(Hinting::Interpreter(t)));
    }
    for t in TARGETS {
        m.push(Some(Hinting::Auto(t)));
    }
    m
}

fn mode_name(m: Option<Hinting>) -> String {
    match m {
        None => "unhinted".into(),
        Some(Hinting::Interpreter(t)) => format!("interpreter:{t:?}"),
        Some(Hinting::Auto(t)) => format!("auto:{t:?}"),
    }
}

fn mode_from_name(s: &str) -> Option<Option<Hinting>> {
    modes().into_iter().find(|m| mode_name(*m) == s)
}

/// The mode *class* used in violation identities.
fn mode_class(m: Option<Hinting>, ppem: u32) -> &'static str {
    if ppem == 0 {
        return "unscaled";
    }
    match m {
        None => "unhinted",
        Some(Hinting::Interpreter(_)) => "interpreter",
        Some(Hinting::Auto(_)) => "auto",
    }
}

// ---------------------------------------------------------------------------------------------
// fonts
// ---------------------------------------------------------------------------------------------

#[derive(Clone, Debug)]
struct FontJob {
    /// stable name: corpus path relative to the repository, or `synth:upem=<n>`
    name: String,
    path: PathBuf,
    index: usize,
    glyphs: u32,
    flavour: &'static str,
    /// interpreter hinting is meaningful only if the font carries instructions / is CFF
    synthetic: bool,
    /// synthetic families: the feature class of every glyph (part of violation identities)
    classes: Option<std::sync::Arc<Vec<String>>>,
    /// run the auto-hinter modes on this font (the hinted synthetic families are about the font's own
    /// instructions / CFF hints; the auto-hinter ignores both)
    auto_modes: bool,
    /// ppem limit of this font in the thorough tier (None = the tier's N)
    thorough_n: Option<u32>,
    /// part of the quick tier
    in_quick: bool,
}

impl FontJob {
    fn label(&self, gid: u32) -> String {
        match &self.classes {
            Some(c) => format!("synthetic {}", c.get(gid as usize).map(|s| s.as_str()).unwrap_or("?")),
            None => short(&self.name).to_string(),
        }
    }
}

fn short(name: &str) -> &str {
    name.rsplit('/').next().unwrap_or(name)
}

/// The property's own carve-out: "the auto-hinter where the baseline agrees". Fonts on which the
/// unchanged tree's auto-hinter output differs from FreeType's (DESIGN 2.9 probe 30, re-measured by
/// this check: the numbers are in the evidence under `auto_baseline_disagreements`) are not judged in
/// the auto modes; all other modes of these fonts are.
const AUTO_BASELINE_DISAGREES: [&str; 2] = [
    "SourceSansPro-Regular.otf",
    "synthetic two-component composite, second no transform",
];

fn corpus_jobs() -> Vec<FontJob> {
    let root = repo_root();
    let mut out = vec![];
    for (rel, bytes) in corpus_fonts() {
        let n = match FileRef::new(&bytes) {
            Ok(FileRef::Font(_)) => 1,
            Ok(FileRef::Collection(c)) => c.len() as usize,
            Err(_) => 0,
        };
        for index in 0..n {
            let Ok(font) = FontRef::from_index(&bytes, index as u32) else {
                continue;
            };
            if font.fvar().is_ok() {
                continue; // variable: outside C03
            }
            let flavour = if font.glyf().is_ok() && font.loca(None).is_ok() {
                "glyf"
            } else if font.cff().is_ok() {
                "CFF"
            } else {
                continue; // CFF2 is variable-only; bitmap-only fonts have no outlines
            };
            let glyphs = font.maxp().map(|m| m.num_glyphs() as u32).unwrap_or(0);
            if glyphs == 0 {
                continue;
            }
            let name = if n > 1 {
                format!("{rel}#{index}")
            } else {
                rel.clone()
            };
            out.push(FontJob {
                name,
                path: root.join(&rel),
                index,
                glyphs,
                flavour,
                synthetic: false,
                classes: None,
                auto_modes: true,
                thorough_n: None,
                in_quick: glyphs <= QUICK_MAX_GLYPHS,
            });
        }
    }
    out
}

// ---------------------------------------------------------------------------------------------
// one load = (font, gid, ppem, mode): both engines, regularised, compared
// ---------------------------------------------------------------------------------------------

#[derive(Clone, Debug, PartialEq)]
enum LoadCmp {
    Agree { nonempty: bool, digest: u64 },
    BothFail,
    Outline { ft: String, sk: String },
    Advance { ft: f32, sk: f32 },
    LinearAdvance { ft: f32, sk: f32 },
    SkrifaErr(String),
    FreeTypeErr,
}

fn elements_digest(v: &[PathElement]) -> u64 {
    let mut h = Fnv::new();
    for e in v {
        match *e {
            PathElement::MoveTo { x, y } => {
                h.u64(1);
                h.u64(x.to_bits() as u64 | (y.to_bits() as u64) << 32)
            }
            PathElement::LineTo { x, y } => {
                h.u64(2);
                h.u64(x.to_bits() as u64 | (y.to_bits() as u64) << 32)
            }
            PathElement::QuadTo { cx0, cy0, x, y } => {
                h.u64(3);
                h.u64(cx0.to_bits() as u64 | (cy0.to_bits() as u64) << 32);
                h.u64(x.to_bits() as u64 | (y.to_bits() as u64) << 32)
            }
            PathElement::CurveTo {
                cx0,
                cy0,
                cx1,
                cy1,
                x,
                y,
            } => {
                h.u64(4);
                h.u64(cx0.to_bits() as u64 | (cy0.to_bits() as u64) << 32);
                h.u64(cx1.to_bits() as u64 | (cy1.to_bits() as u64) << 32);
                h.u64(x.to_bits() as u64 | (y.to_bits() as u64) << 32)
            }
            PathElement::Close => h.u64(5),
        }
    }
    h.finish()
}

fn render(v: &[PathElement]) -> String {
    let mut s = String::new();
    for e in v.iter().take(14) {
        match *e {
            PathElement::MoveTo { x, y } => s.push_str(&format!("M{x},{y} ")),
            PathElement::LineTo { x, y } => s.push_str(&format!("L{x},{y} ")),
            PathElement::QuadTo { cx0, cy0, x, y } => s.push_str(&format!("Q{cx0},{cy0} {x},{y} ")),
            PathElement::CurveTo {
                cx0,
                cy0,
                cx1,
                cy1,
                x,
                y,
            } => s.push_str(&format!("C{cx0},{cy0} {cx1},{cy1} {x},{y} ")),
            PathElement::Close => s.push_str("Z "),
        }
    }
    if v.len() > 14 {
        s.push_str(&format!("… ({} elements)", v.len()));
    }
    s
}

/// Render only around the first differing element (for messages).
fn render_diff(a: &[PathElement], b: &[PathElement]) -> (String, String) {
    let first = a.iter().zip(b.iter()).position(|(x, y)| x != y).unwrap_or(a.len().min(b.len()));
    let lo = first.saturating_sub(1);
    let ra = render(&a[lo.min(a.len())..]);
    let rb = render(&b[lo.min(b.len())..]);
    (
        format!("len {} from element {lo}: {ra}", a.len()),
        format!("len {} from element {lo}: {rb}", b.len()),
    )
}

struct Scratch {
    ft: Vec<PathElement>,
    sk: Vec<PathElement>,
}

fn compare_load(
    ft: &mut fauntlet::FreeTypeInstance,
    sk: &mut fauntlet::SkrifaInstance,
    gid: u32,
    is_scaled: bool,
    linear_advance: bool,
    s: &mut Scratch,
) -> LoadCmp {
    let g = GlyphId::new(gid);
    s.ft.clear();
    s.sk.clear();
    let ft_adv = ft.outline(g, &mut RegularizingPen::new(&mut s.ft, is_scaled));
    let sk_adv = sk.outline(g, &mut RegularizingPen::new(&mut s.sk, is_scaled));
    match (ft_adv, sk_adv) {
        (None, Err(_)) => LoadCmp::BothFail,
        (Some(_), Err(e)) => LoadCmp::SkrifaErr(format!("{e:?}")),
        (None, Ok(_)) => LoadCmp::FreeTypeErr,
        (Some(fa), Ok(sa)) => {
            if s.ft != s.sk {
                let (a, b) = render_diff(&s.ft, &s.sk);
                return LoadCmp::Outline { ft: a, sk: b };
            }
            if let Some(sa) = sa {
                if fa != sa {
                    return LoadCmp::Advance { ft: fa, sk: sa };
                }
            }
            // Without hinting the advance is the linearly scaled hmtx/CFF advance: FreeType's
            // linearHoriAdvance (16.16, or font units when unscaled) against skrifa's glyph_metrics —
            // fauntlet's two `advance()` accessors. This is the only advance comparison available for
            // CFF glyphs, for which skrifa reports no scaler-adjusted advance.
            if linear_advance {
                if let (Some(fl), Some(sl)) = (ft.advance(g), sk.advance(g)) {
                    if fl != sl {
                        return LoadCmp::LinearAdvance { ft: fl, sk: sl };
                    }
                }
            }
            let mut h = Fnv::new();
            h.u64(elements_digest(&s.sk));
            h.u64(fa.to_bits() as u64);
            LoadCmp::Agree {
                nonempty: !s.sk.is_empty(),
                digest: h.finish(),
            }
        }
    }
}

// ---------------------------------------------------------------------------------------------
// Is "hinted by the font's own instructions" defined on the FreeType side for this load?
// ---------------------------------------------------------------------------------------------

/// FreeType swallows bytecode errors unless FT_LOAD_PEDANTIC is set: a glyph whose program it aborts
/// (invalid reference, stack problems, its execution budget `100 × numGlyphs` …) is silently returned
/// unhinted. For such a load FreeType did not produce "the outline hinted by the font's own instructions",
/// so there is no reference value: the load is outside the property. This repeats the load directly
/// through freetype-rs with exactly fauntlet's flags plus FT_LOAD_PEDANTIC and returns FreeType's error.
fn freetype_pedantic_error(job: &FontJob, gid: u32, ppem: u32, mode: Option<Hinting>) -> Option<String> {
    use freetype::face::LoadFlag;
    let Some(Hinting::Interpreter(_)) = mode else {
        return None;
    };
    if ppem == 0 {
        return None;
    }
    let lib = freetype::Library::init().ok()?;
    let face = lib.new_face(&job.path, job.index as isize).ok()?;
    if face.is_tricky() {
        return None;
    }
    face.set_pixel_sizes(ppem, ppem).ok()?;
    let flags = LoadFlag::NO_BITMAP | mode.unwrap().freetype_load_flags() | LoadFlag::PEDANTIC;
    match face.load_glyph(gid, flags) {
        Ok(()) => None,
        Err(e) => Some(format!("{e:?}")),
    }
}

/// Attribute a failed `Font::instantiate` (fauntlet creates both engines' instances or none).
fn attribute_instantiate_failure(job: &FontJob, ppem: u32, mode: Option<Hinting>) -> (bool, bool, String) {
    // FreeType side
    let ft = (|| -> Result<(), String> {
        let lib = freetype::Library::init().map_err(|e| format!("FT_Init_FreeType: {e:?}"))?;
        let face = lib
            .new_face(&job.path, job.index as isize)
            .map_err(|e| format!("FT_New_Face: {e:?}"))?;
        if ppem != 0 {
            face.set_pixel_sizes(ppem, ppem)
                .map_err(|e| format!("FT_Set_Pixel_Sizes: {e:?}"))?;
        }
        Ok(())
    })();
    // skrifa side
    let sk = (|| -> Result<(), String> {
        let bytes = std::fs::read(&job.path).map_err(|e| e.to_string())?;
        let font = FontRef::from_index(&bytes, job.index as u32).map_err(|e| format!("FontRef: {e}"))?;
        let outlines = font.outline_glyphs();
        if let (Some(h), true) = (mode, ppem != 0) {
            skrifa::outline::HintingInstance::new(
                &outlines,
                skrifa::instance::Size::new(ppem as f32),
                skrifa::instance::LocationRef::default(),
                h.skrifa_options(),
            )
            .map_err(|e| format!("HintingInstance::new: {e:?}"))?;
        }
        Ok(())
    })();
    let msg = format!("FreeType: {:?}; skrifa: {:?}", ft, sk);
    (ft.is_ok(), sk.is_ok(), msg)
}

// ---------------------------------------------------------------------------------------------
// aggregation of mismatches: identity = (kind, font, mode class)
// ---------------------------------------------------------------------------------------------

#[derive(Default, Clone)]
struct MismatchAgg {
    count: u64,
    ppems: BTreeSet<u32>,
    gids: BTreeSet<u32>,
    targets: BTreeSet<String>,
    first: Option<(u32, u32, String, String)>, // gid, ppem, mode name, detail
    first_font: usize,
}

#[derive(Default)]
struct Local {
    all: HashSet<u64>,
    nontrivial: HashSet<u64>,
    loads: u64,
    agree: u64,
    both_fail: u64,
    instances: u64,
    instantiate_failed: Vec<(usize, u32, String)>,
    mism: BTreeMap<(String, String, &'static str), MismatchAgg>, // (kind, font label, mode class)
    mism_font: BTreeMap<String, usize>,
    per_font_loads: BTreeMap<usize, u64>,
    per_font_mism: BTreeMap<(usize, &'static str), u64>,
    per_font_ns: BTreeMap<(usize, &'static str), u64>,
    /// (font, FreeType error) → (loads, glyph ids, ppems): interpreter loads whose bytecode FreeType aborts
    ft_rejects: BTreeMap<(usize, String), (u64, BTreeSet<u32>, BTreeSet<u32>)>,
}

impl Local {
    fn merge(mut self, o: Local) -> Local {
        self.all.extend(o.all);
        self.nontrivial.extend(o.nontrivial);
        self.loads += o.loads;
        self.agree += o.agree;
        self.both_fail += o.both_fail;
        self.instances += o.instances;
        self.instantiate_failed.extend(o.instantiate_failed);
        for (k, v) in o.mism {
            let e = self.mism.entry(k).or_default();
            e.count += v.count;
            e.ppems.extend(v.ppems);
            e.gids.extend(v.gids.into_iter());
            e.targets.extend(v.targets);
            match (&e.first, v.first) {
                (None, f) => {
                    e.first = f;
                    e.first_font = v.first_font;
                }
                (Some(a), Some(b)) => {
                    if (v.first_font, b.1, b.0, &b.2) < (e.first_font, a.1, a.0, &a.2) {
                        e.first = Some(b);
                        e.first_font = v.first_font;
                    }
                }
                _ => {}
            }
        }
        for (k, v) in o.per_font_loads {
            *self.per_font_loads.entry(k).or_default() += v;
        }
        for (k, v) in o.per_font_mism {
            *self.per_font_mism.entry(k).or_default() += v;
        }
        for (k, v) in o.per_font_ns {
            *self.per_font_ns.entry(k).or_default() += v;
        }
        for (k, v) in o.ft_rejects {
            let e = self.ft_rejects.entry(k).or_default();
            e.0 += v.0;
            e.1.extend(v.1);
            e.2.extend(v.2);
        }
        for (k, v) in o.mism_font {
            let e = self.mism_font.entry(k).or_insert(v);
            *e = (*e).min(v);
        }
        self
    }
}

fn kind_of(c: &LoadCmp) -> Option<(String, String)> {
    match c {
        LoadCmp::Agree { .. } | LoadCmp::BothFail => None,
        LoadCmp::Outline { ft, sk } => Some((
            "outline differs from FreeType".into(),
            format!("FreeType [{ft}] skrifa [{sk}]"),
        )),
        LoadCmp::Advance { ft, sk } => Some((
            "advance differs from FreeType".into(),
            format!("FreeType {ft} skrifa {sk}"),
        )),
        LoadCmp::LinearAdvance { ft, sk } => Some((
            "linear advance differs from FreeType".into(),
            format!("FreeType linearHoriAdvance {ft} skrifa glyph_metrics advance {sk}"),
        )),
        LoadCmp::SkrifaErr(e) => Some((
            format!("skrifa Err({e}) where FreeType loads"),
            "FreeType loaded the glyph".into(),
        )),
        LoadCmp::FreeTypeErr => Some((
            "skrifa draws where FreeType fails to load".into(),
            "FT_Load_Glyph failed".into(),
        )),
    }
}

/// One task: a font × a mode × a contiguous ppem range; every glyph.
fn run_task(jobs: &[FontJob], fi: usize, mode: Option<Hinting>, ppems: &[u32], gids: Option<&[u32]>, l: &mut Local) {
    let job = &jobs[fi];
    let Some(mut font) = Font::new(&job.path) else {
        l.instantiate_failed.push((fi, 0, "Font::new".into()));
        return;
    };
    let mut scratch = Scratch {
        ft: vec![],
        sk: vec![],
    };
    // previous ppem's stream digest per glyph: "the stream changes with ppem"
    let mut prev: Vec<u64> = vec![0; job.glyphs as usize];
    let mname = mode_name(mode);
    for (pi, &ppem) in ppems.iter().enumerate() {
        let hinting = if ppem == 0 { None } else { mode };
        let opts = InstanceOptions::new(job.index, ppem, &[], hinting);
        let Some((mut ft, mut sk)) = font.instantiate(&opts) else {
            l.instantiate_failed.push((fi, ppem, mname.clone()));
            continue;
        };
        if !ft.is_scalable() {
            continue;
        }
        l.instances += 1;
        let class = mode_class(mode, ppem);
        let all_gids: Vec<u32>;
        let gid_list: &[u32] = match gids {
            Some(g) => g,
            None => {
                all_gids = (0..job.glyphs).collect();
                &all_gids
            }
        };
        for &gid in gid_list {
            let c = compare_load(&mut ft, &mut sk, gid, ppem != 0, hinting.is_none(), &mut scratch);
            l.loads += 1;
            match &c {
                LoadCmp::Agree { nonempty, digest } => {
                    l.agree += 1;
                    let mut h = Fnv::new();
                    h.str(&job.name);
                    h.u64(gid as u64);
                    h.str(&mname);
                    let key = h.finish();
                    if pi > 0 && *nonempty && prev[gid as usize] != *digest {
                        l.nontrivial.insert(key);
                    }
                    l.all.insert(key ^ (*nonempty as u64));
                    prev[gid as usize] = *digest;
                }
                LoadCmp::BothFail => l.both_fail += 1,
                other => {
                    if let Some(err) = freetype_pedantic_error(job, gid, ppem, mode) {
                        // FreeType itself aborts this glyph's bytecode: no reference value
                        let e = l.ft_rejects.entry((fi, err)).or_default();
                        e.0 += 1;
                        e.1.insert(gid);
                        e.2.insert(ppem);
                        continue;
                    }
                    let (kind, detail) = kind_of(other).unwrap();
                    // corpus fonts: label = file name; synthetic family: label = the glyph's feature class
                    // (the same defect shows on every unitsPerEm)
                    let label = job.label(gid);
                    l.mism_font.entry(label.clone()).or_insert(fi);
                    *l.per_font_mism.entry((fi, class)).or_default() += 1;
                    let e = l.mism.entry((kind, label, class)).or_default();
                    e.count += 1;
                    e.ppems.insert(ppem);
                    if e.gids.len() < 4096 {
                        e.gids.insert(gid);
                    }
                    e.targets.insert(mname.clone());
                    if e.first.is_none() {
                        e.first = Some((gid, ppem, mname.clone(), detail));
                        e.first_font = fi;
                    }
                }
            }
        }
        *l.per_font_loads.entry(fi).or_default() += gid_list.len() as u64;
    }
}

fn ranges(v: &BTreeSet<u32>) -> String {
    // compact "1-4,7,9-12" rendering
    let mut out = vec![];
    let mut it = v.iter().copied();
    let Some(mut a) = it.next() else {
        return String::new();
    };
    let mut b = a;
    for x in it {
        if x == b + 1 {
            b = x;
        } else {
            out.push(if a == b { format!("{a}") } else { format!("{a}-{b}") });
            a = x;
            b = x;
        }
    }
    out.push(if a == b { format!("{a}") } else { format!("{a}-{b}") });
    let s = out.join(",");
    if s.len() > 200 {
        format!("{}… ({} values)", &s[..200], v.len())
    } else {
        s
    }
}

// ---------------------------------------------------------------------------------------------
// body
// ---------------------------------------------------------------------------------------------

fn body(run: &Run, replay: Option<&Value>) {
    run.rule("a case is one glyph load (font, glyph id, ppem, mode) executed by both skrifa and the bundled FreeType through fauntlet's instances and RegularizingPen; a (font, glyph, mode) triple is non-trivial when its outline is non-empty and its regularised stream differs between two consecutive ppem of the grid; states = distinct (font, glyph, mode, emptiness) outcomes");
    run.assume("FreeType as compiled by freetype-sys from its bundled sources (the build fauntlet links) is the reference, including its version and default driver properties");
    run.assume("fauntlet's RegularizingPen is the cosmetic normalisation the property refers to; fauntlet's FreeTypeInstance/SkrifaInstance decide load flags and hinting options");
    run.assume("an interpreter-mode load on which FreeType itself aborts the glyph's bytecode (the same load with FT_LOAD_PEDANTIC returns an error; without it FreeType silently returns the unhinted outline) has no reference value and is outside the property; such loads are counted and listed in the evidence");
    run.assume("a CFF load hinted by the font's own hints above 2000 ppem has no FreeType reference: FreeType's Adobe engine rejects it (psft.c CF2_MAX_SIZE, Glyph_Too_Big) and cff_slot_load silently retries unhinted, scaling the unscaled outline; measured on the unchanged tree: every hinted CFF load of the large-size family at ppem 2048 and 4000 whose hints move a point differs, none at ppem <= 2000; such loads are not enumerated (count in loads_not_enumerated_cff_hinted_above_freetype_2000ppem_limit); unhinted and auto-hinter loads at these sizes are enumerated and judged");
    run.assume("auto-hinter modes are judged only on fonts where the unchanged tree agrees with FreeType (the property's carve-out); excluded fonts are listed in bounds.auto_excluded_fonts and their measured disagreement is reported");

    let tmp = std::env::temp_dir().join(format!("c03-synth-{}", std::process::id()));
    let _ = std::fs::create_dir_all(&tmp);
    let synth_jobs = all_synth_jobs(&tmp);

    if let Some(case) = replay {
        replay_case(run, case, &synth_jobs);
        let _ = std::fs::remove_dir_all(&tmp);
        return;
    }

    let n_max: u32 = run.tier.pick(32, 256);
    let mut jobs = corpus_jobs();
    let total_static = jobs.len();
    if run.tier == Tier::Quick {
        // quick: the three fonts with known baseline deviations that are small enough, plus small hinted
        // TrueType and CFF fonts; the large fonts are left to the thorough tier
        // (fonts outside the filter stay in the list for the large-size family only)
    }
    let quick = run.tier == Tier::Quick;
    jobs.extend(synth_jobs.iter().filter(|j| run.tier == Tier::Thorough || j.in_quick).cloned());
    let synth_count = jobs.iter().filter(|j| j.synthetic).count();
    let modes = modes();

    run.bound("ppem", json!(format!("unscaled, 1..={n_max}")));
    run.bound("modes", json!(modes.iter().map(|m| mode_name(*m)).collect::<Vec<_>>()));
    run.bound("static_corpus_fonts_total", json!(total_static));
    run.bound("quick_font_filter", json!(format!("glyph count ≤ {QUICK_MAX_GLYPHS} (quick tier only)")));
    run.bound("auto_excluded_fonts", json!(AUTO_BASELINE_DISAGREES));
    run.bound("synthetic_family", json!(synth::describe()));
    run.bound("synthetic_hinted_truetype_family", json!(format!("{}; modes: unhinted + 5 interpreter targets (no auto); quick: {:?}; thorough: all fonts at ppem 1..={}", synth_hint::describe(), synth_jobs.iter().filter(|j| j.in_quick && j.name.starts_with("synth-tt:")).map(|j| j.name.clone()).collect::<Vec<_>>(), HINTED_TT_THOROUGH_N)));
    run.bound("synthetic_cff_family", json!(format!("{}; modes: unhinted + 5 hinted targets (no auto); quick: {:?}; thorough: all", synth_cff::describe(), synth_jobs.iter().filter(|j| j.in_quick && j.name.starts_with("synth-cff:")).map(|j| j.name.clone()).collect::<Vec<_>>())));
    // CFF fonts outside the "base charstrings × Private DICT variant" product: per font its glyph classes
    {
        let mut extra = serde_json::Map::new();
        for j in synth_jobs.iter().filter(|j| j.name.starts_with("synth-cff:") && j.path.to_string_lossy().contains("synth-cff-extra-")) {
            let mut counts: BTreeMap<String, usize> = BTreeMap::new();
            if let Some(c) = &j.classes {
                for k in c.iter() {
                    *counts.entry(k.clone()).or_default() += 1;
                }
            }
            extra.insert(j.name.clone(), json!({"glyphs": j.glyphs, "in_quick": j.in_quick, "classes": counts}));
        }
        run.count("synthetic_cff_extra_fonts", extra.len() as u64);
        run.bound("synthetic_cff_extra_fonts", Value::Object(extra));
    }
    run.extra("skrifa_features_enabled", json!(skrifa_feature_report()));

    // tasks in fixed order: font → mode → ppem chunk
    let chunk = 8usize;
    let mut tasks: Vec<(usize, Option<Hinting>, Vec<u32>, Option<Vec<u32>>)> = vec![];
    for (fi, job) in jobs.iter().enumerate() {
        if quick && !job.in_quick {
            continue; // large-size family only
        }
        // the unscaled load (ppem 0) has no hinting dimension: done once, in the unhinted mode
        let n_font = match (run.tier, job.thorough_n) {
            (Tier::Thorough, Some(n)) => n,
            _ => n_max,
        };
        for (mi, m) in modes.iter().enumerate() {
            if matches!(m, Some(Hinting::Auto(_))) && !job.auto_modes {
                continue;
            }
            let mut ppems: Vec<u32> = (1..=n_font).collect();
            if mi == 0 {
                ppems.insert(0, 0);
            }
            for c in ppems.chunks(chunk) {
                // overlap by one ppem so that "changes with ppem" is evaluated across chunk borders too
                tasks.push((fi, *m, c.to_vec(), None));
            }
        }
    }
    // --- size families beyond the contiguous grid (ppem truncation: hdmx u8 sizes, anything u8/u16) ---
    // (a) hdmx: every static TrueType font with an `hdmx` table, every glyph, every mode, the sizes
    //     {s-1, s, s+1, 256+s, 512+s, 768+s : s a record size of that font} ∪ {255, 256, 257}
    // (b) large sizes: every static font (also those outside the quick filter), a handful of glyphs,
    //     unhinted + interpreter targets (+ auto-hinter on the quick-filter fonts), LARGE_PPEMS
    let mut hdmx_family = serde_json::Map::new();
    let mut large_loads = 0u64;
    let mut hdmx_loads = 0u64;
    let mut cff_no_reference = 0u64;
    for (fi, job) in jobs.iter().enumerate() {
        let sizes = if job.flavour == "glyf" { hdmx_sizes(job) } else { vec![] };
        if !sizes.is_empty() {
            let mut set: BTreeSet<u32> = [255, 256, 257].into_iter().collect();
            for &s in &sizes {
                for v in [s.saturating_sub(1), s, s + 1, 256 + s, 512 + s, 768 + s] {
                    if v >= 1 {
                        set.insert(v);
                    }
                }
            }
            let ppems: Vec<u32> = set.into_iter().collect();
            // quick: fonts outside the quick filter contribute their first 64 glyphs only
            let hdmx_gids: Option<Vec<u32>> = if quick && !job.in_quick { Some((0..job.glyphs.min(64)).collect()) } else { None };
            let hdmx_glyphs = hdmx_gids.as_ref().map(|g| g.len() as u64).unwrap_or(job.glyphs as u64);
            let mut nm = 0u64;
            for m in modes.iter() {
                if matches!(m, Some(Hinting::Auto(_))) && !(job.auto_modes && job.in_quick) {
                    continue;
                }
                nm += 1;
                for c in ppems.chunks(chunk) {
                    tasks.push((fi, *m, c.to_vec(), hdmx_gids.clone()));
                }
            }
            hdmx_loads += nm * ppems.len() as u64 * hdmx_glyphs;
            hdmx_family.insert(job.name.clone(), json!({"record_sizes": sizes, "ppems": ranges(&ppems.iter().copied().collect()), "modes": nm, "glyphs": hdmx_glyphs}));
        }
        let n = job.glyphs;
        let gids: Vec<u32> = [0, 1, 2, 3, n / 3, n / 2, 2 * n / 3, n.saturating_sub(1)]
            .into_iter()
            .filter(|g| *g < n)
            .collect::<BTreeSet<u32>>()
            .into_iter()
            .collect();
        for m in modes.iter() {
            if matches!(m, Some(Hinting::Auto(_))) && !(job.auto_modes && job.in_quick) {
                continue;
            }
            let mut ppems = LARGE_PPEMS.to_vec();
            if job.flavour == "CFF" && matches!(m, Some(Hinting::Interpreter(_))) {
                let before = ppems.len();
                ppems.retain(|p| *p <= FT_CFF_HINTING_MAX_PPEM);
                cff_no_reference += ((before - ppems.len()) * gids.len()) as u64;
            }
            large_loads += (ppems.len() * gids.len()) as u64;
            tasks.push((fi, *m, ppems, Some(gids.clone())));
        }
    }
    run.bound("large_ppem_family", json!(format!("ppem {:?} x every static corpus font (all {total_static}, also those outside the quick filter) and every synthetic font of the tier x glyph ids {{0,1,2,3,n/3,n/2,2n/3,n-1}} x unhinted + 5 interpreter targets (+ 5 auto-hinter targets on corpus fonts inside the quick filter)", LARGE_PPEMS)));
    run.bound("hdmx_family", json!({"sizes": "s-1, s, s+1, 256+s, 512+s, 768+s for every record size s of the font, and 255, 256, 257; every glyph; every mode", "fonts": Value::Object(hdmx_family.clone())}));
    run.count("hdmx_family_fonts", hdmx_family.len() as u64);
    run.count("hdmx_family_loads", hdmx_loads);
    run.count("large_ppem_family_loads", large_loads);
    run.count("loads_not_enumerated_cff_hinted_above_freetype_2000ppem_limit", cff_no_reference);
    if hdmx_family.len() < 2 {
        run.machinery_error("hdmx family is vacuous: fewer than two fonts with an hdmx table (tinos_subset.ttf and the synthetic hdmx font are expected)");
    }
    run.count("fonts", jobs.len() as u64);
    run.count("fonts_corpus", (jobs.len() - synth_count) as u64);
    run.count("fonts_synthetic", synth_count as u64);
    run.count("glyphs_total", jobs.iter().map(|j| j.glyphs as u64).sum());
    run.count("tasks", tasks.len() as u64);

    // heavier fonts first for better load balance (order of evaluation does not influence results)
    let mut order: Vec<usize> = (0..tasks.len()).collect();
    order.sort_by_key(|i| std::cmp::Reverse(jobs[tasks[*i].0].glyphs));

    let merged = order
        .par_iter()
        .with_max_len(1)
        .fold(Local::default, |mut l, ti| {
            let (fi, m, p, g) = &tasks[*ti];
            let t0 = std::time::Instant::now();
            run_task(&jobs, *fi, *m, p, g.as_deref(), &mut l);
            *l.per_font_ns.entry((*fi, mode_class(*m, 1))).or_default() += t0.elapsed().as_nanos() as u64;
            l
        })
        .reduce(Local::default, Local::merge);

    run.evals(merged.loads);
    run.trans(merged.loads * 2);
    run.observe_many(&merged.all, &merged.nontrivial);
    run.count("glyph_loads", merged.loads);
    run.count("loads_agree", merged.agree);
    run.count("loads_both_engines_fail", merged.both_fail);
    run.count("instances", merged.instances);
    // fauntlet creates both instances or none: attribute each failure. If FreeType cannot open the font or
    // set the size there is no reference (outside the property, reported in the evidence); if only skrifa
    // fails it is a violation.
    let mut no_reference = serde_json::Map::new();
    for (fi, ppem, m) in merged.instantiate_failed.iter() {
        let job = &jobs[*fi];
        let mode = mode_from_name(m).unwrap_or(None);
        let (ft_ok, sk_ok, msg) = attribute_instantiate_failure(job, *ppem, mode);
        if !ft_ok {
            let e = no_reference
                .entry(short(&job.name).to_string())
                .or_insert(json!({"instances": 0, "reason": msg}));
            e["instances"] = json!(e["instances"].as_u64().unwrap_or(0) + 1);
            continue;
        }
        let _ = sk_ok;
        run.violation(
            &format!("skrifa cannot create an instance FreeType creates [{}] mode={}", short(&job.name), mode_class(mode, *ppem)),
            &format!("fauntlet::Font::instantiate returned None for {} ppem {} mode {}: {}", job.name, ppem, m, msg),
            json!({"font": job.name, "gid": 0, "ppem": ppem, "mode": m}),
        );
    }
    run.extra("no_freetype_reference_instances", Value::Object(no_reference));
    let mut rej = serde_json::Map::new();
    for ((fi, err), (n, gids, ppems)) in merged.ft_rejects.iter() {
        rej.insert(
            format!("{} / {}", short(&jobs[*fi].name), err),
            json!({"loads": n, "glyph_ids": gids.iter().take(16).collect::<Vec<_>>(), "ppems": ranges(ppems)}),
        );
        run.count("loads_outside_property_freetype_aborts_bytecode", *n);
    }
    run.extra("freetype_aborts_bytecode_under_pedantic", Value::Object(rej));

    // samples: first load of a few fonts
    for j in jobs.iter().step_by((jobs.len() / 5).max(1)).take(6) {
        run.sample(json!({"font": j.name, "index": j.index, "flavour": j.flavour, "glyphs": j.glyphs, "gid": j.glyphs / 2, "ppem": n_max / 2, "mode": "interpreter:Normal"}));
    }

    // per-font table
    let mut rows = vec![];
    for (fi, j) in jobs.iter().enumerate() {
        let mut mm = serde_json::Map::new();
        for ((f, class), n) in merged.per_font_mism.iter() {
            if *f == fi {
                mm.insert(class.to_string(), json!(n));
            }
        }
        let mut cpu = serde_json::Map::new();
        for ((f, class), ns) in merged.per_font_ns.iter() {
            if *f == fi {
                cpu.insert(class.to_string(), json!((*ns as f64 / 1e7).round() / 100.0));
            }
        }
        rows.push(json!({"font": j.name, "flavour": j.flavour, "glyphs": j.glyphs, "loads": merged.per_font_loads.get(&fi).copied().unwrap_or(0), "mismatches": mm, "cpu_seconds": cpu}));
    }
    run.extra("fonts", json!(rows));

    // violations, one per (kind, font label, mode class)
    let mut auto_excluded = serde_json::Map::new();
    for ((kind, label, class), agg) in merged.mism.iter() {
        let job = &jobs[agg.first_font];
        let (gid, ppem, mname, detail) = agg.first.clone().unwrap();
        if *class == "auto" && AUTO_BASELINE_DISAGREES.contains(&label.as_str()) {
            auto_excluded.insert(
                format!("{label} / {kind}"),
                json!({"loads_disagreeing": agg.count, "of_loads": job.glyphs as u64 * n_max as u64 * 5, "ppems": ranges(&agg.ppems)}),
            );
            continue;
        }
        let id = format!("{kind} [{label}] mode={class}");
        let what = format!(
            "{}: {} loads in mode class {class} disagree (targets {:?}; ppem {}; {} distinct glyph ids, e.g. {:?}); first: gid {gid} ppem {ppem} {mname}: {detail}",
            job.name,
            agg.count,
            agg.targets,
            ranges(&agg.ppems),
            agg.gids.len(),
            agg.gids.iter().take(8).collect::<Vec<_>>(),
        );
        run.violation(&id, &what, json!({"font": job.name, "gid": gid, "ppem": ppem, "mode": mname}));
    }
    run.extra("auto_baseline_disagreements", Value::Object(auto_excluded));
    // run-time mechanism check for the label sharing above: per unitsPerEm, the font that sets INSTCTRL
    // selectors 2 and 3 must disagree with FreeType on exactly as many loads as the selector-2-only font
    let mut equiv = serde_json::Map::new();
    for upem in synth_hint::UPEMS {
        let find = |prep: &str| {
            jobs.iter()
                .position(|j| j.name == format!("synth-tt:upem={upem},prep={prep}"))
        };
        if let (Some(a), Some(b)) = (find("instctrl2-scvtci0"), find("instctrl2+3-scvtci0")) {
            let ca = merged.per_font_mism.get(&(a, "interpreter")).copied().unwrap_or(0);
            let cb = merged.per_font_mism.get(&(b, "interpreter")).copied().unwrap_or(0);
            equiv.insert(format!("upem={upem}"), json!({"selector2_only": ca, "selectors_2_and_3": cb}));
            if ca != cb {
                run.violation(
                    "INSTCTRL selectors 2+3 disagree with FreeType on other loads than selector 2 alone [synthetic hinted]",
                    &format!("upem {upem}: {cb} interpreter loads disagree under prep instctrl2+3-scvtci0, {ca} under instctrl2-scvtci0"),
                    json!({"font": jobs[b].name, "gid": 0, "ppem": 12, "mode": "interpreter:Normal"}),
                );
            }
        }
    }
    run.extra("instctrl2_equivalence", Value::Object(equiv));
    // vacuity guard for the hinted synthetic families: how many glyphs of each class does hinting change
    // at all (skrifa, ppem 12, 17, 30, 45, Mono and Normal targets), and how many does FreeType reject
    let mut effect = serde_json::Map::new();
    for job in jobs.iter().filter(|j| j.synthetic && !j.auto_modes) {
        effect.insert(job.name.clone(), hinting_effect(job));
    }
    run.extra("synthetic_hinted_families_effect", Value::Object(effect));
    let _ = std::fs::remove_dir_all(&tmp);
}

const QUICK_MAX_GLYPHS: u32 = 700;
/// Sizes around the u8 / u16-ish truncation points of a ppem, and some well above them.
const LARGE_PPEMS: [u32; 10] = [255, 256, 257, 511, 512, 513, 1000, 2000, 2048, 4000];
/// FreeType's Adobe CFF engine rejects glyphs above 2000 ppem (psft.c `CF2_MAX_SIZE`); cff_slot_load then
/// retries *unhinted* and scales the unscaled outline (cffgload.c, `Glyph_Too_Big`): above this size
/// FreeType has no "hinted by the font's own hints" output for a CFF font.
const FT_CFF_HINTING_MAX_PPEM: u32 = 2000;
/// Record sizes of the synthetic hdmx font.
const SYNTH_HDMX_SIZES: [u8; 4] = [8, 11, 12, 255];

/// The pixel sizes of a font's `hdmx` device records (empty: no table).
fn hdmx_sizes(job: &FontJob) -> Vec<u32> {
    let Ok(bytes) = std::fs::read(&job.path) else {
        return vec![];
    };
    let Ok(font) = FontRef::from_index(&bytes, job.index as u32) else {
        return vec![];
    };
    let Ok(hdmx) = font.hdmx() else {
        return vec![];
    };
    hdmx.records().iter().filter_map(|r| r.ok()).map(|r| r.pixel_size as u32).collect()
}

/// `base` plus an `hdmx` table (version 0) with one record per size; the device widths
/// ((gid*37 + size*11) mod 199) + 1 are unrelated to the scaled hmtx advances.
fn with_hdmx(base: &[u8], glyphs: usize, sizes: &[u8]) -> Vec<u8> {
    use write_fonts::{types::Tag, FontBuilder};
    let rec = (2 + glyphs + 3) & !3;
    let mut t: Vec<u8> = vec![];
    t.extend_from_slice(&0u16.to_be_bytes());
    t.extend_from_slice(&(sizes.len() as u16).to_be_bytes());
    t.extend_from_slice(&(rec as u32).to_be_bytes());
    for &s in sizes {
        let widths: Vec<u8> = (0..glyphs).map(|g| ((g * 37 + s as usize * 11) % 199 + 1) as u8).collect();
        let start = t.len();
        t.push(s);
        t.push(*widths.iter().max().unwrap_or(&0));
        t.extend_from_slice(&widths);
        t.resize(start + rec, 0);
    }
    let font = FontRef::new(base).expect("synthetic base font parses");
    let mut fb = FontBuilder::new();
    fb.add_raw(Tag::new(b"hdmx"), t);
    fb.copy_missing_tables(font);
    fb.build()
}
/// ppem limit of the hinted synthetic TrueType family in the thorough tier (DELTAP3 reaches ppem 56 with
/// the default delta base; the fonts have ~11 000 glyphs each)
const HINTED_TT_THOROUGH_N: u32 = 64;

/// Per glyph class: glyphs, glyphs whose skrifa outline under interpreter hinting differs from the unhinted
/// one (at ppem 12, 17, 30 or 45, target Mono / Normal), glyphs FreeType rejects under FT_LOAD_PEDANTIC (ppem 17,
/// Normal).
fn hinting_effect(job: &FontJob) -> Value {
    let Some(classes) = &job.classes else {
        return json!(null);
    };
    let Some(mut font) = Font::new(&job.path) else {
        return json!("Font::new failed");
    };
    let mut digests = |font: &mut Font, ppem: u32, h: Option<Hinting>| -> Vec<u64> {
        let opts = InstanceOptions::new(job.index, ppem, &[], h);
        let Some((_ft, mut sk)) = font.instantiate(&opts) else {
            return vec![];
        };
        let mut v = vec![];
        let mut buf: Vec<PathElement> = vec![];
        for g in 0..job.glyphs {
            buf.clear();
            let _ = sk.outline(GlyphId::new(g), &mut RegularizingPen::new(&mut buf, true));
            v.push(elements_digest(&buf));
        }
        v
    };
    let mut changed_mono = vec![false; job.glyphs as usize];
    let mut changed_normal = vec![false; job.glyphs as usize];
    for ppem in [12, 17, 30, 45] {
        let u = digests(&mut font, ppem, None);
        let m = digests(&mut font, ppem, Some(Hinting::Interpreter(HintingTarget::Mono)));
        let n = digests(&mut font, ppem, Some(Hinting::Interpreter(HintingTarget::Normal)));
        for g in 0..job.glyphs as usize {
            if u.get(g) != m.get(g) {
                changed_mono[g] = true;
            }
            if u.get(g) != n.get(g) {
                changed_normal[g] = true;
            }
        }
    }
    let mut per: BTreeMap<String, [u64; 4]> = BTreeMap::new();
    for g in 0..job.glyphs {
        let e = per.entry(classes[g as usize].clone()).or_default();
        e[0] += 1;
        e[1] += changed_mono[g as usize] as u64;
        e[2] += changed_normal[g as usize] as u64;
        if job.flavour == "glyf"
            && freetype_pedantic_error(job, g, 17, Some(Hinting::Interpreter(HintingTarget::Normal))).is_some()
        {
            e[3] += 1;
        }
    }
    json!(per
        .into_iter()
        .map(|(k, v)| (k, json!({"glyphs": v[0], "changed_by_hinting_mono": v[1], "changed_by_hinting_normal": v[2], "freetype_pedantic_errors": v[3]})))
        .collect::<serde_json::Map<String, Value>>())
}

/// Write all synthetic families to `dir` and describe them as jobs.
fn all_synth_jobs(dir: &std::path::Path) -> Vec<FontJob> {
    let mut out = synth::write_family(dir);
    // hinted TrueType family
    let glyphs = synth_hint::glyphs();
    for upem in synth_hint::UPEMS {
        for (pi, (pname, prep)) in synth_hint::preps().into_iter().enumerate() {
            // the prep variant is part of the class: the same instruction family can diverge for
            // different reasons under different control-value programs
            // Variants that set INSTCTRL selector 2 together with other selectors show, in the MIAP and
            // MIRP classes, exactly the known selector-2 divergence (FreeType 2.12.1 keeps the prep's
            // cut-in): measured — at equal unitsPerEm the 2+3 font has the same mismatching loads as the
            // selector-2-only font (checked again at run time below, `instctrl2_equivalence`), and both
            // engines end up in backward-compatibility mode. Those two classes therefore carry the
            // selector-2-only variant's label; every other class keeps its own.
            let sel2_combo = pname == "instctrl2+3-scvtci0" || pname == "instctrl1+2+3-scvtci0";
            let classes = std::sync::Arc::new(
                glyphs
                    .iter()
                    .map(|g| {
                        let label = if sel2_combo && (g.class == "MIAP" || g.class == "MIRP") {
                            "instctrl2-scvtci0"
                        } else {
                            pname
                        };
                        format!("hinted {} (prep {label})", g.class)
                    })
                    .collect::<Vec<_>>(),
            );
            let bytes = synth_hint::build_font(upem, &prep, &glyphs);
            let path = dir.join(format!("synth-tt-{upem}-{pname}.ttf"));
            std::fs::write(&path, &bytes).expect("write synthetic font");
            out.push(FontJob {
                name: format!("synth-tt:upem={upem},prep={pname}"),
                path,
                index: 0,
                glyphs: glyphs.len() as u32,
                flavour: "glyf",
                synthetic: true,
                classes: Some(classes.clone()),
                auto_modes: false,
                thorough_n: Some(HINTED_TT_THOROUGH_N),
                // quick: a plain font, a native-ClearType font, the INSTCTRL-2 font and the font that sets
                // INSTCTRL selectors 2 and 3 together
                // (the last two share a unitsPerEm so that their disagreement counts can be compared)
                in_quick: (upem == 2048 && (pi == 0 || pi == 2 || pi == 5)) || (upem == 1000 && pi == 1),
            });
        }
    }
    // hdmx font: the first simple glyphs of the hinted family (prep "none", unitsPerEm 2048) + an hdmx table
    {
        let sub: Vec<synth_hint::HGlyph> = glyphs.iter().filter(|g| g.raw_composite.is_none()).take(48).map(|g| synth_hint::HGlyph {
            class: g.class.clone(),
            points: g.points.clone(),
            code: g.code.clone(),
            raw_composite: None,
            contour2: g.contour2.clone(),
        }).collect();
        let base = synth_hint::build_font(2048, &[], &sub);
        let bytes = with_hdmx(&base, sub.len(), &SYNTH_HDMX_SIZES);
        let path = dir.join("synth-tt-hdmx.ttf");
        std::fs::write(&path, &bytes).expect("write synthetic font");
        out.push(FontJob {
            name: "synth-tt:hdmx".into(),
            path,
            index: 0,
            glyphs: sub.len() as u32,
            flavour: "glyf",
            synthetic: true,
            classes: Some(std::sync::Arc::new(sub.iter().map(|g| format!("hdmx font, hinted {}", g.class)).collect())),
            auto_modes: false,
            thorough_n: Some(HINTED_TT_THOROUGH_N),
            in_quick: true,
        });
    }
    // CFF family
    let cs = synth_cff::charstrings();
    let shared_classes = std::sync::Arc::new(cs.iter().map(|c| format!("CFF {}", c.0)).collect::<Vec<_>>());
    let programs: Vec<Vec<u8>> = cs.iter().map(|c| c.1.clone()).collect();
    for (si, spec) in synth_cff::private_specs().into_iter().enumerate() {
        // Private DICT variants with non-integer operands carry the variant in the class (= in the violation
        // identity): FreeType truncates some of these operands, a divergence of its own kind that must not
        // share an identity with the integer variants of the same glyph class
        let classes = if ["BlueShift 7.5", "BlueFuzz 1.5", "fractional BlueValues"].contains(&spec.name) {
            std::sync::Arc::new(cs.iter().map(|c| format!("CFF {} (Private {})", c.0, spec.name)).collect::<Vec<_>>())
        } else {
            shared_classes.clone()
        };
        let bytes = synth_cff::build_font(&spec, &programs);
        let path = dir.join(format!("synth-cff-{si}.otf"));
        std::fs::write(&path, &bytes).expect("write synthetic font");
        out.push(FontJob {
            name: format!("synth-cff:{}", spec.name),
            path,
            index: 0,
            glyphs: programs.len() as u32,
            flavour: "CFF",
            synthetic: true,
            classes: Some(classes.clone()),
            auto_modes: false,
            thorough_n: None,
            in_quick: true,
        });
    }
    // CFF fonts that are not "base charstrings × Private DICT variant": operators, subroutines, CID, …
    for (ei, ef) in synth_cff::extra_fonts().into_iter().enumerate() {
        let path = dir.join(format!("synth-cff-extra-{ei}.otf"));
        std::fs::write(&path, &ef.bytes).expect("write synthetic font");
        out.push(FontJob {
            name: format!("synth-cff:{}", ef.name),
            path,
            index: 0,
            glyphs: ef.classes.len() as u32,
            flavour: "CFF",
            synthetic: true,
            classes: Some(std::sync::Arc::new(ef.classes.iter().map(|c| format!("CFF {c}")).collect::<Vec<_>>())),
            auto_modes: false,
            thorough_n: None,
            in_quick: ef.in_quick,
        });
    }
    out
}

fn skrifa_feature_report() -> Value {
    // Cargo passes the enabled features of *this* crate only; for skrifa we observe behaviour instead:
    // the `autohint_shaping` feature changes which style the auto-hinter assigns to glyphs reachable only
    // through GSUB. We report both the declared dependency line and a behavioural probe.
    json!({
        "declared": "skrifa = { default-features = false, features = [\"std\"] } (as fauntlet's workspace builds it)",
        "autohint_shaping_active": autohint_shaping_probe(),
    })
}

/// Behavioural probe for skrifa's `autohint_shaping` feature: in `notoserif_autohint_shaping.ttf` glyphs
/// 5..=8 are reachable only through GSUB; without the feature (ShaperMode::Nominal) they keep the
/// fallback style that glyph 0 has, with it (BestEffort) they get Cyrillic / small-caps styles.
/// `GlyphStyles` is opaque but derives Debug, which prints the per-glyph style words.
fn autohint_shaping_probe() -> Value {
    let path = repo_root().join("font-test-data/test_data/ttf/notoserif_autohint_shaping.ttf");
    let Ok(bytes) = std::fs::read(&path) else {
        return json!("probe font missing");
    };
    let Ok(font) = FontRef::new(&bytes) else {
        return json!("probe font unreadable");
    };
    let styles = skrifa::outline::GlyphStyles::new(&font.outline_glyphs());
    let dbg = format!("{styles:?}");
    let words: Vec<u64> = dbg
        .split("GlyphStyle(")
        .skip(1)
        .filter_map(|s| s.split(')').next().and_then(|n| n.trim().parse().ok()))
        .collect();
    if words.len() < 9 {
        return json!(format!("probe could not parse {} style words", words.len()));
    }
    json!(words[5..=8].iter().any(|w| *w != words[0]))
}

fn replay_case(run: &Run, case: &Value, synth_jobs: &[FontJob]) {
    let name = case["font"].as_str().unwrap_or("");
    let mut jobs = corpus_jobs();
    jobs.extend(synth_jobs.iter().cloned());
    let Some(job) = jobs.iter().find(|j| j.name == name) else {
        run.machinery_error(&format!("replay: unknown font {name}"));
        return;
    };
    let gid = case["gid"].as_u64().unwrap_or(0) as u32;
    let ppem = case["ppem"].as_u64().unwrap_or(0) as u32;
    let Some(mode) = mode_from_name(case["mode"].as_str().unwrap_or("unhinted")) else {
        run.machinery_error("replay: unknown mode");
        return;
    };
    let Some(mut font) = Font::new(&job.path) else {
        run.machinery_error("replay: Font::new failed");
        return;
    };
    let hinting = if ppem == 0 { None } else { mode };
    let opts = InstanceOptions::new(job.index, ppem, &[], hinting);
    let Some((mut ft, mut sk)) = font.instantiate(&opts) else {
        run.violation(
            &format!("instantiate fails [{}] mode={}", short(&job.name), mode_class(mode, ppem)),
            "instantiate returned None",
            case.clone(),
        );
        return;
    };
    let mut s = Scratch {
        ft: vec![],
        sk: vec![],
    };
    let c = compare_load(&mut ft, &mut sk, gid, ppem != 0, hinting.is_none(), &mut s);
    println!("replay: {} gid {gid} ppem {ppem} {}: {:?}", job.name, mode_name(mode), c);
    if std::env::var("C03_DUMP").is_ok() {
        println!("  FreeType: {}", render(&s.ft));
        println!("  skrifa:   {}", render(&s.sk));
    }
    if let Some((kind, detail)) = kind_of(&c) {
        if let Some(err) = freetype_pedantic_error(job, gid, ppem, mode) {
            println!("replay: FreeType aborts this glyph's bytecode under FT_LOAD_PEDANTIC ({err}): outside the property");
            return;
        }
        let class = mode_class(mode, ppem);
        if class == "auto" && AUTO_BASELINE_DISAGREES.contains(&short(&job.name)) {
            return;
        }
        let label = job.label(gid);
        run.violation(&format!("{kind} [{label}] mode={class}"), &detail, case.clone());
    }
}
