//! Synthetic *hinted* TrueType family for C03: small glyphs whose programs exercise the rounding- and
//! interpolation-heavy instructions of the TrueType interpreter on boundary geometry, compared with
//! FreeType in the 5 interpreter modes (and unhinted) over the ppem grid like any corpus font.
//!
//! Every parameter alphabet below is enumerated completely, in a fixed order; one glyph = one
//! (instruction family, parameters, geometry). Fonts: unitsPerEm ∈ {1000, 2048} × a `prep` variant
//! (none; native ClearType via INSTCTRL 3; INSTCTRL 2 + SCVTCI in prep; instructions switched off above
//! 20 ppem via INSTCTRL 1; SCANCTRL/SCANTYPE + WCVTP/WCVTF in prep).
//!
//! A further family crosses every vector state (projection setter × freedom setter, with diagonal,
//! axis-aligned and degenerate reference lines) with every distance-reading / point-moving instruction.
//!
//! The class of a glyph (its instruction family) is part of the violation identity.

use font_types::Tag;
use read_fonts::tables::glyf::CurvePoint;
use write_fonts::tables::glyf::{Bbox, Contour, GlyfLocaBuilder, SimpleGlyph};
use write_fonts::tables::loca::LocaFormat;
use write_fonts::FontBuilder;

// ---- opcodes -----------------------------------------------------------------------------------
pub(crate) const SVTCA_Y: u8 = 0x00;
pub(crate) const SVTCA_X: u8 = 0x01;
pub(crate) const SPVTL: u8 = 0x06; // +a
pub(crate) const SFVTL: u8 = 0x08; // +a
pub(crate) const SPVFS: u8 = 0x0A;
pub(crate) const SFVFS: u8 = 0x0B;
pub(crate) const SFVTPV: u8 = 0x0E;
pub(crate) const ISECT: u8 = 0x0F;
pub(crate) const SRP1: u8 = 0x11;
pub(crate) const SRP2: u8 = 0x12;
pub(crate) const SZP0: u8 = 0x13;
pub(crate) const SZP1: u8 = 0x14;
pub(crate) const SMD: u8 = 0x1A;
pub(crate) const SCVTCI: u8 = 0x1D;
pub(crate) const SSWCI: u8 = 0x1E;
pub(crate) const SSW: u8 = 0x1F;
pub(crate) const ALIGNPTS: u8 = 0x27;
pub(crate) const UTP: u8 = 0x29;
pub(crate) const MDAP: u8 = 0x2E; // +r
pub(crate) const IUP_Y: u8 = 0x30;
pub(crate) const IUP_X: u8 = 0x31;
pub(crate) const SHP: u8 = 0x32; // +a
pub(crate) const SHC: u8 = 0x34; // +a
pub(crate) const SHZ: u8 = 0x36; // +a
pub(crate) const SHPIX: u8 = 0x38;
pub(crate) const IP: u8 = 0x39;
pub(crate) const MSIRP: u8 = 0x3A; // +a
pub(crate) const ALIGNRP: u8 = 0x3C;
pub(crate) const MIAP: u8 = 0x3E; // +r
pub(crate) const NPUSHB: u8 = 0x40;
pub(crate) const NPUSHW: u8 = 0x41;
pub(crate) const WCVTP: u8 = 0x44;
pub(crate) const GC: u8 = 0x46; // +a
pub(crate) const SCFS: u8 = 0x48;
pub(crate) const MD: u8 = 0x49; // +a
pub(crate) const MPPEM: u8 = 0x4B;
pub(crate) const MPS: u8 = 0x4C;
pub(crate) const FLIPON: u8 = 0x4D;
pub(crate) const FLIPOFF: u8 = 0x4E;
pub(crate) const GT: u8 = 0x52;
pub(crate) const IF: u8 = 0x58;
pub(crate) const EIF: u8 = 0x59;
pub(crate) const DELTAP1: u8 = 0x5D;
pub(crate) const SDB: u8 = 0x5E;
pub(crate) const SDS: u8 = 0x5F;
pub(crate) const ROUND: u8 = 0x68; // +ab
pub(crate) const NROUND: u8 = 0x6C; // +ab
pub(crate) const WCVTF: u8 = 0x70;
pub(crate) const DELTAP2: u8 = 0x71;
pub(crate) const DELTAP3: u8 = 0x72;
pub(crate) const DELTAC1: u8 = 0x73;
pub(crate) const DELTAC2: u8 = 0x74;
pub(crate) const DELTAC3: u8 = 0x75;
pub(crate) const SROUND: u8 = 0x76;
pub(crate) const S45ROUND: u8 = 0x77;
pub(crate) const FLIPPT: u8 = 0x80;
pub(crate) const FLIPRGON: u8 = 0x81;
pub(crate) const FLIPRGOFF: u8 = 0x82;
pub(crate) const SCANCTRL: u8 = 0x85;
pub(crate) const SDPVTL: u8 = 0x86; // +a
pub(crate) const GETINFO: u8 = 0x88;
pub(crate) const SCANTYPE: u8 = 0x8D;
pub(crate) const INSTCTRL: u8 = 0x8E;
pub(crate) const MDRP: u8 = 0xC0; // +abcde
pub(crate) const MIRP: u8 = 0xE0; // +abcde

/// round-state setting instructions: RTG, RTHG, RTDG, RDTG, RUTG, ROFF
pub(crate) const ROUND_STATES: [(u8, &str); 6] = [
    (0x18, "RTG"),
    (0x19, "RTHG"),
    (0x3D, "RTDG"),
    (0x7D, "RDTG"),
    (0x7C, "RUTG"),
    (0x7A, "ROFF"),
];

/// push a list of values (bytes when all fit, words otherwise); the LAST value ends on top of the stack
pub(crate) fn push(code: &mut Vec<u8>, vals: &[i32]) {
    if vals.is_empty() {
        return;
    }
    if vals.iter().all(|v| (0..=255).contains(v)) {
        if vals.len() <= 8 {
            code.push(0xB0 + vals.len() as u8 - 1);
        } else {
            code.push(NPUSHB);
            code.push(vals.len() as u8);
        }
        code.extend(vals.iter().map(|v| *v as u8));
    } else {
        if vals.len() <= 8 {
            code.push(0xB8 + vals.len() as u8 - 1);
        } else {
            code.push(NPUSHW);
            code.push(vals.len() as u8);
        }
        for v in vals {
            code.extend_from_slice(&(*v as i16).to_be_bytes());
        }
    }
}

pub(crate) fn axis_op(axis: usize) -> u8 {
    if axis == 0 {
        SVTCA_X
    } else {
        SVTCA_Y
    }
}

/// Touch point `p` along the current axis without moving it (MDAP[0]). In FreeType's v40 backward
/// compatibility mode SHPIX only moves points that are already touched in y, so every program that
/// observes a computed value through SHPIX touches its target first.
pub(crate) fn touch(code: &mut Vec<u8>, p: i32) {
    push(code, &[p]);
    code.push(MDAP);
}

pub(crate) fn iup(code: &mut Vec<u8>) {
    code.push(IUP_Y);
    code.push(IUP_X);
}

pub(crate) type Pt = (i16, i16, bool);

pub struct HGlyph {
    pub class: String,
    pub points: Vec<Pt>,
    pub code: Vec<u8>,
    /// raw `glyf` bytes of a composite glyph with its own instructions (points/code unused then)
    pub raw_composite: Option<Vec<u8>>,
    /// optional second contour (multi-contour families)
    pub contour2: Vec<Pt>,
}

/// The two general geometries (5 points, one contour).
pub(crate) fn geometries() -> Vec<Vec<Pt>> {
    vec![
        vec![
            (50, 0, true),
            (450, 0, true),
            (450, 333, true),
            (250, 700, true),
            (50, 333, true),
        ],
        vec![
            (0, 0, true),
            (499, 1, true),
            (500, 500, true),
            (251, 749, false),
            (1, 501, true),
        ],
    ]
}

/// The control value table (FUnits). Index → meaning is fixed; the programs refer to indices.
pub const CVT: [i16; 20] = [
    0, 333, 332, 334, 340, 300, 450, 449, 500, 700, -1, 1000, // 0..=11 positions
    400, 399, 410, 367, -400, 1, 499, 501, // 12..=19 distances / near-geometry values
];

pub(crate) const BOUNDARY_F26: [i32; 11] = [0, 1, -1, 31, 32, 33, 63, 64, 65, -32, -33];

pub fn glyphs() -> Vec<HGlyph> {
    let mut out: Vec<HGlyph> = vec![];
    let geos = geometries();
    let mut add = |class: &str, points: &[Pt], code: Vec<u8>| {
        out.push(HGlyph {
            class: class.to_string(),
            points: points.to_vec(),
            code,
            raw_composite: None,
            contour2: vec![],
        })
    };
    // glyph 0: empty
    add("empty", &[], vec![]);

    for geo in &geos {
        // F1 MDAP[r] under every round state, both axes, every point
        for (rs, _) in ROUND_STATES {
            for axis in 0..2 {
                for r in 0..2u8 {
                    for p in 0..geo.len() as i32 {
                        let mut c = vec![rs, axis_op(axis)];
                        push(&mut c, &[p]);
                        c.push(MDAP + r);
                        iup(&mut c);
                        add("MDAP", geo, c);
                    }
                }
            }
        }
        // F3 MIAP[r]: every cvt entry × r × axis × cut-in setting × two points
        for i in 0..CVT.len() as i32 {
            for r in 0..2u8 {
                for axis in 0..2 {
                    for cutin in [None, Some(0), Some(64), Some(128)] {
                        for p in [2, 3] {
                            let mut c = vec![axis_op(axis)];
                            if let Some(v) = cutin {
                                push(&mut c, &[v]);
                                c.push(SCVTCI);
                            }
                            push(&mut c, &[p, i]);
                            c.push(MIAP + r);
                            iup(&mut c);
                            add("MIAP", geo, c);
                        }
                    }
                }
            }
        }
        // F4 MDRP[abcde]: all 32 flag combinations × axis × minimum distance × point pair
        for f in 0..32u8 {
            for axis in 0..2 {
                for smd in [None, Some(0), Some(65)] {
                    for (rp0, p) in [(0, 1), (4, 3), (0, 2)] {
                        let mut c = vec![axis_op(axis)];
                        if let Some(v) = smd {
                            push(&mut c, &[v]);
                            c.push(SMD);
                        }
                        push(&mut c, &[rp0]);
                        c.push(MDAP + 1);
                        push(&mut c, &[p]);
                        c.push(MDRP + f);
                        iup(&mut c);
                        add("MDRP", geo, c);
                    }
                }
            }
            // single width (value in FUnits) and its cut-in
            for axis in 0..2 {
                for (ssw, sswci) in [(400, 64), (333, 0), (410, 640), (0, 64)] {
                    let mut c = vec![axis_op(axis)];
                    push(&mut c, &[ssw]);
                    c.push(SSW);
                    push(&mut c, &[sswci]);
                    c.push(SSWCI);
                    push(&mut c, &[0]);
                    c.push(MDAP + 1);
                    push(&mut c, &[if axis == 0 { 1 } else { 2 }]);
                    c.push(MDRP + f);
                    iup(&mut c);
                    add("MDRP with single width", geo, c);
                }
            }
        }
        // F5 MIRP[abcde]: all 32 × axis × distance-like cvt entries × cut-in × auto flip
        for f in 0..32u8 {
            for axis in 0..2 {
                for i in [12, 13, 14, 15, 16] {
                    for cutin in [None, Some(0)] {
                        for flip in [None, Some(FLIPOFF)] {
                            let mut c = vec![axis_op(axis)];
                            if let Some(v) = cutin {
                                push(&mut c, &[v]);
                                c.push(SCVTCI);
                            }
                            if let Some(op) = flip {
                                c.push(op);
                            }
                            push(&mut c, &[0]);
                            c.push(MDAP + 1);
                            push(&mut c, &[if axis == 0 { 1 } else { 2 }, i]);
                            c.push(MIRP + f);
                            iup(&mut c);
                            add("MIRP", geo, c);
                        }
                    }
                }
            }
        }
        // F7 SHP / SHC / SHZ
        for axis in 0..2 {
            for a in 0..2u8 {
                for p in [1, 2, 3] {
                    let mut c = vec![axis_op(axis)];
                    push(&mut c, &[0]);
                    c.push(MDAP + 1);
                    push(&mut c, &[0]);
                    c.push(SRP2);
                    push(&mut c, &[p]);
                    c.push(SHP + a);
                    iup(&mut c);
                    add("SHP", geo, c);
                }
                let mut c = vec![axis_op(axis)];
                push(&mut c, &[4]);
                c.push(MDAP + 1);
                push(&mut c, &[4]);
                c.push(SRP2);
                push(&mut c, &[0]);
                c.push(SHC + a);
                iup(&mut c);
                add("SHC", geo, c);
                let mut c = vec![axis_op(axis)];
                push(&mut c, &[2]);
                c.push(MDAP + 1);
                push(&mut c, &[2]);
                c.push(SRP2);
                push(&mut c, &[1]);
                c.push(SHZ + a);
                iup(&mut c);
                add("SHZ", geo, c);
            }
        }
        // F8 alignment / interpolation / intersection / misc point movers
        for axis in 0..2 {
            for p in [1, 2, 3] {
                let mut c = vec![axis_op(axis)];
                push(&mut c, &[0]);
                c.push(MDAP + 1);
                push(&mut c, &[p]);
                c.push(ALIGNRP);
                iup(&mut c);
                add("ALIGNRP", geo, c);
            }
            for p in [1, 3, 4] {
                let mut c = vec![axis_op(axis)];
                push(&mut c, &[0]);
                c.push(MDAP + 1);
                push(&mut c, &[2]);
                c.push(MDAP + 1);
                push(&mut c, &[0]);
                c.push(SRP1);
                push(&mut c, &[2]);
                c.push(SRP2);
                push(&mut c, &[p]);
                c.push(IP);
                iup(&mut c);
                add("IP", geo, c);
            }
            let mut c = vec![axis_op(axis)];
            push(&mut c, &[1, 4]);
            c.push(ALIGNPTS);
            iup(&mut c);
            add("ALIGNPTS", geo, c);
            for a in 0..2u8 {
                for d in [0, 64, -65, 33] {
                    let mut c = vec![axis_op(axis)];
                    push(&mut c, &[0]);
                    c.push(MDAP + 1);
                    push(&mut c, &[2, d]);
                    c.push(MSIRP + a);
                    iup(&mut c);
                    add("MSIRP", geo, c);
                }
            }
            let mut c = vec![axis_op(axis)];
            push(&mut c, &[0]);
            c.push(MDAP + 1);
            push(&mut c, &[0]);
            c.push(UTP);
            iup(&mut c);
            add("UTP", geo, c);
            for v in [0, 64, -33, 1000] {
                let mut c = vec![axis_op(axis)];
                push(&mut c, &[2, v]);
                c.push(SCFS);
                iup(&mut c);
                add("SCFS", geo, c);
            }
            for a in 0..2u8 {
                // GC[a] of a rounded point written back with SCFS
                let mut c = vec![axis_op(axis)];
                push(&mut c, &[2]);
                c.push(MDAP + 1);
                push(&mut c, &[3, 2]);
                c.push(GC + a);
                c.push(SCFS);
                iup(&mut c);
                add("GC", geo, c);
                // MD[a] between two points used as a pixel shift of a third
                let mut c = vec![axis_op(axis)];
                push(&mut c, &[1]);
                c.push(MDAP + 1);
                touch(&mut c, 3);
                push(&mut c, &[3, 1, 4]);
                c.push(MD + a);
                c.push(SHPIX);
                iup(&mut c);
                add("MD", geo, c);
            }
        }
        for (pts, name) in [([3, 0, 2, 1, 4], "crossing"), ([3, 0, 1, 4, 2], "near parallel")] {
            let mut c = vec![];
            push(&mut c, &pts);
            c.push(ISECT);
            iup(&mut c);
            add(&format!("ISECT {name}"), geo, c);
        }
        {
            let mut c = vec![];
            push(&mut c, &[3]);
            c.push(FLIPPT);
            add("FLIPPT", geo, c);
            let mut c = vec![];
            push(&mut c, &[1, 3]);
            c.push(FLIPRGOFF);
            add("FLIPRGOFF", geo, c);
            let mut c = vec![];
            push(&mut c, &[2, 3]);
            c.push(FLIPRGON);
            add("FLIPRGON", geo, c);
        }
        // measured quantities observed as a pixel shift of point 3 along y
        {
            let mut c = vec![SVTCA_Y];
            touch(&mut c, 3);
            push(&mut c, &[3]);
            c.push(MPPEM);
            c.push(SHPIX);
            iup(&mut c);
            add("MPPEM", geo, c);
            let mut c = vec![SVTCA_Y];
            touch(&mut c, 3);
            push(&mut c, &[3]);
            c.push(MPS);
            c.push(SHPIX);
            iup(&mut c);
            add("MPS", geo, c);
            for sel in [1, 2, 4, 8, 16, 32, 64, 128, 256, 512, 1024, 2048, 4096, 0x1FFF] {
                let mut c = vec![SVTCA_Y];
                touch(&mut c, 3);
                push(&mut c, &[3, sel]);
                c.push(GETINFO);
                c.push(SHPIX);
                iup(&mut c);
                add("GETINFO", geo, c);
            }
        }
        // F10 twilight zone: a twilight point created with MIAP, then MIRP into the glyph zone
        for f in 0..32u8 {
            for axis in 0..2 {
                let mut c = vec![axis_op(axis)];
                push(&mut c, &[0]);
                c.push(SZP0);
                push(&mut c, &[0, if axis == 0 { 6 } else { 1 }]);
                c.push(MIAP + 1);
                push(&mut c, &[1]);
                c.push(SZP1);
                push(&mut c, &[if axis == 0 { 2 } else { 3 }, 15]);
                c.push(MIRP + f);
                iup(&mut c);
                add("twilight MIAP + MIRP", geo, c);
            }
        }
        // F11 diagonal projection / freedom vectors
        for a in 0..2u8 {
            for (p1, p2) in [(0, 2), (1, 3), (4, 1)] {
                let mut c = vec![];
                push(&mut c, &[p1, p2]);
                c.push(SPVTL + a);
                c.push(SFVTPV);
                push(&mut c, &[3]);
                c.push(MDAP + 1);
                iup(&mut c);
                add("SPVTL + MDAP", geo, c);
                let mut c = vec![];
                push(&mut c, &[p1, p2]);
                c.push(SFVTL + a);
                push(&mut c, &[2]);
                c.push(MDAP + 1);
                iup(&mut c);
                add("SFVTL + MDAP", geo, c);
                let mut c = vec![];
                push(&mut c, &[0]);
                c.push(MDAP + 1);
                push(&mut c, &[p1, p2]);
                c.push(SDPVTL + a);
                push(&mut c, &[3]);
                c.push(MDRP + 0x14);
                iup(&mut c);
                add("SDPVTL + MDRP", geo, c);
            }
        }
        for (x, y) in [(0x4000, 0), (0x2D41, 0x2D41), (-0x4000, 0), (0, -0x4000), (0x3B21, 0x187E)] {
            let mut c = vec![];
            push(&mut c, &[x, y]);
            c.push(SPVFS);
            push(&mut c, &[x, y]);
            c.push(SFVFS);
            push(&mut c, &[2]);
            c.push(MDAP + 1);
            iup(&mut c);
            add("SPVFS/SFVFS + MDAP", geo, c);
        }
    }

    let geo = &geos[0];
    // F13 vector state × consumer: after every (projection setter, freedom setter) pair — with diagonal,
    // horizontal, vertical and degenerate (coincident points) reference lines, the freedom vector equal
    // to, different from and perpendicular to the projection vector — each distance-reading / point-moving
    // instruction is executed once and its effect left in the outline. Setup (under SVTCA[x]): points 2
    // and 0 are rounded, so rp0 = rp1 = 0 has moved; rp2 = 2.
    {
        const SPVTCA_Y: u8 = 0x02;
        const SPVTCA_X: u8 = 0x03;
        const SFVTCA_Y: u8 = 0x04;
        const SFVTCA_X: u8 = 0x05;
        let lines: [(&str, i32, i32); 4] = [
            ("diagonal", 0, 2),
            ("horizontal", 0, 1),
            ("vertical", 1, 2),
            ("degenerate", 1, 1),
        ];
        // projection setters: (class name, code)
        let mut psetters: Vec<(String, Vec<u8>)> = vec![
            ("SVTCA".into(), vec![SVTCA_X]),
            ("SVTCA".into(), vec![SVTCA_Y]),
            ("SPVTCA".into(), vec![SPVTCA_X]),
            ("SPVTCA".into(), vec![SPVTCA_Y]),
        ];
        for (op, name) in [(SPVTL, "SPVTL"), (SDPVTL, "SDPVTL")] {
            for a in 0..2u8 {
                for (_, p1, p2) in lines {
                    let mut c = vec![];
                    push(&mut c, &[p1, p2]);
                    c.push(op + a);
                    psetters.push((name.into(), c));
                }
            }
        }
        for (x, y) in [(0x2D41, 0x2D41), (0x3B21, -0x187E), (0, 0x4000)] {
            let mut c = vec![];
            push(&mut c, &[x, y]);
            c.push(SPVFS);
            psetters.push(("SPVFS".into(), c));
        }
        // freedom setters
        let mut fsetters: Vec<Vec<u8>> = vec![
            vec![],
            vec![SFVTPV],
            vec![SFVTCA_X],
            vec![SFVTCA_Y],
        ];
        for (a, p1, p2) in [(0u8, 0, 2), (1, 0, 2), (0, 1, 1)] {
            let mut c = vec![];
            push(&mut c, &[p1, p2]);
            c.push(SFVTL + a);
            fsetters.push(c);
        }
        {
            let mut c = vec![];
            push(&mut c, &[0x2D41, 0x2D41]);
            c.push(SFVFS);
            fsetters.push(c);
        }
        // consumers: (class name, code); the moved point is 3
        let mut consumers: Vec<(String, Vec<u8>)> = vec![];
        for f in [0x00u8, 0x04, 0x08, 0x0C, 0x1D] {
            let mut c = vec![];
            push(&mut c, &[3]);
            c.push(MDRP + f);
            consumers.push(("MDRP".into(), c));
        }
        for f in [0x00u8, 0x04, 0x0C] {
            let mut c = vec![];
            push(&mut c, &[3, 12]);
            c.push(MIRP + f);
            consumers.push(("MIRP".into(), c));
        }
        {
            let mut c = vec![];
            push(&mut c, &[3]);
            c.push(IP);
            consumers.push(("IP".into(), c));
            for a in 0..2u8 {
                let mut c = vec![];
                push(&mut c, &[3, 3]);
                c.push(GC + a);
                c.push(SCFS);
                consumers.push(("GC+SCFS".into(), c));
                let mut c = vec![];
                touch(&mut c, 3);
                push(&mut c, &[3, 0, 2]);
                c.push(MD + a);
                c.push(SHPIX);
                consumers.push(("MD".into(), c));
                let mut c = vec![];
                push(&mut c, &[3]);
                c.push(SHP + a);
                consumers.push(("SHP".into(), c));
            }
            let mut c = vec![];
            push(&mut c, &[3, 33]);
            c.push(MSIRP);
            consumers.push(("MSIRP".into(), c));
            let mut c = vec![];
            push(&mut c, &[3]);
            c.push(ALIGNRP);
            consumers.push(("ALIGNRP".into(), c));
            let mut c = vec![];
            push(&mut c, &[3, 0, 2, 1, 4]);
            c.push(ISECT);
            consumers.push(("ISECT".into(), c));
        }
        for (pname, pcode) in &psetters {
            for fcode in &fsetters {
                for (cname, ccode) in &consumers {
                    let mut c = vec![SVTCA_X];
                    push(&mut c, &[2]);
                    c.push(MDAP + 1);
                    push(&mut c, &[0]);
                    c.push(MDAP + 1);
                    push(&mut c, &[2]);
                    c.push(SRP2);
                    c.extend_from_slice(pcode);
                    c.extend_from_slice(fcode);
                    c.extend_from_slice(ccode);
                    iup(&mut c);
                    // MIRP consumers keep the plain class "MIRP": under the INSTCTRL-2 prep variant they
                    // show the same (known) control-value cut-in divergence as the MIRP family itself
                    if cname == "MIRP" {
                        add("MIRP", geo, c);
                    } else {
                        add(&format!("{pname} then {cname}"), geo, c);
                    }
                }
            }
        }
    }
    // F2 SROUND / S45ROUND: the complete parameter byte × axis (point 2, MDAP[1])
    // (on the first geometry and on its mirror image, so that negative distances are rounded too)
    let mirrored: Vec<Pt> = geo.iter().map(|(x, y, on)| (-*x, -*y, *on)).collect();
    for (op, name) in [(SROUND, "SROUND"), (S45ROUND, "S45ROUND")] {
        for n in 0..=255 {
            for axis in 0..2 {
                for g in [geo, &mirrored] {
                    let mut c = vec![axis_op(axis)];
                    push(&mut c, &[n]);
                    c.push(op);
                    push(&mut c, &[2]);
                    c.push(MDAP + 1);
                    iup(&mut c);
                    add(name, g, c);
                }
            }
        }
    }
    // F9 DELTAP1/2/3: the complete argument byte (y; DELTAP1 also x), default delta base and shift
    for (op, name, axes) in [(DELTAP1, "DELTAP1", 2), (DELTAP2, "DELTAP2", 1), (DELTAP3, "DELTAP3", 1)] {
        for arg in 0..=255 {
            for axis in (0..axes).rev() {
                let mut c = vec![axis_op(if axes == 1 { 1 } else { axis })];
                push(&mut c, &[arg, 3, 1]);
                c.push(op);
                iup(&mut c);
                add(name, geo, c);
            }
        }
    }
    // DELTAC1/2/3: the complete argument byte, observed through MIAP[0] of the changed entry
    for (op, name) in [(DELTAC1, "DELTAC1"), (DELTAC2, "DELTAC2"), (DELTAC3, "DELTAC3")] {
        for arg in 0..=255 {
            let mut c = vec![SVTCA_Y];
            push(&mut c, &[arg, 1, 1]);
            c.push(op);
            push(&mut c, &[2, 1]);
            c.push(MIAP);
            iup(&mut c);
            add(name, geo, c);
        }
    }
    // delta base / delta shift variations
    for (sdb, sds) in [(9, 0), (9, 6), (20, 3), (1, 1), (200, 3), (24, 5)] {
        for mag in 0..16 {
            for step in [0, 15] {
                let mut c = vec![SVTCA_Y];
                push(&mut c, &[sdb]);
                c.push(SDB);
                push(&mut c, &[sds]);
                c.push(SDS);
                push(&mut c, &[(step << 4) | mag, 3, 1]);
                c.push(DELTAP1);
                iup(&mut c);
                add("DELTAP1 with SDB/SDS", geo, c);
            }
        }
    }
    // F12 arithmetic observed as a pixel shift of point 3 along y
    for (rs, _) in ROUND_STATES {
        for v in BOUNDARY_F26 {
            for ab in 0..4u8 {
                let mut c = vec![SVTCA_Y, rs];
                touch(&mut c, 3);
                push(&mut c, &[3, v]);
                c.push(ROUND + ab);
                c.push(SHPIX);
                iup(&mut c);
                add("ROUND", geo, c);
            }
        }
    }
    for v in BOUNDARY_F26 {
        for (ops, name) in [
            (vec![NROUND], "NROUND"),
            (vec![NROUND + 1], "NROUND"),
            (vec![0x66], "FLOOR"),
            (vec![0x67], "CEILING"),
            (vec![0x64], "ABS"),
            (vec![0x65], "NEG"),
            (vec![0x56], "ODD"),
            (vec![0x57], "EVEN"),
            (vec![0x5C], "NOT"),
        ] {
            let mut c = vec![SVTCA_Y];
            touch(&mut c, 3);
            push(&mut c, &[3, v]);
            c.extend(ops);
            c.push(SHPIX);
            iup(&mut c);
            add(name, geo, c);
        }
        for w in BOUNDARY_F26 {
            for (op, name) in [
                (0x60u8, "ADD"),
                (0x61, "SUB"),
                (0x62, "DIV"),
                (0x63, "MUL"),
                (0x8B, "MAX"),
                (0x8C, "MIN"),
                (0x50, "LT"),
                (0x53, "GTEQ"),
            ] {
                let mut c = vec![SVTCA_Y];
                touch(&mut c, 3);
                push(&mut c, &[3, v * 16, w * 16]);
                c.push(op);
                c.push(SHPIX);
                iup(&mut c);
                add(name, geo, c);
            }
        }
    }

    // F6 IUP: touched references P0 and P3 on the diagonal, untouched P1, P2 with coordinates equal to /
    // one unit off / between / outside the references; the references are shifted by whole and
    // fractional pixels in x and y before IUP[x], IUP[y]
    for a in [99i16, 100, 101, 300, 499, 500, 501, 50, 550] {
        for b in [100i16, 300, 501] {
            let pts: Vec<Pt> = vec![
                (100, 100, true),
                (a, b, true),
                (b, a, true),
                (500, 500, true),
                (600, 100, true),
            ];
            for d0 in [0, 64, -32] {
                for d1 in [0, 64, 33] {
                    if d0 == 0 && d1 == 0 {
                        continue;
                    }
                    let mut c = vec![];
                    for ax in [SVTCA_X, SVTCA_Y] {
                        c.push(ax);
                        touch(&mut c, 0);
                        touch(&mut c, 3);
                        push(&mut c, &[0, d0]);
                        c.push(SHPIX);
                        push(&mut c, &[3, d1]);
                        c.push(SHPIX);
                    }
                    c.push(IUP_X);
                    c.push(IUP_Y);
                    add("IUP", &pts, c);
                }
            }
        }
    }
    // F14 instructed composites. Five instructed simple glyphs whose programs leave points touched in x
    // only / y only / both / both followed by IUP / not at all serve as components. Every composite has
    // two components (first: each of the five; second: untouched or touched in both, under 5
    // transform/flag variants) and its OWN program: move one point (of the first or of the second
    // component) with SHPIX / MDAP[1] / MIAP[1] along x or y, then IUP[x], IUP[y] or both. FreeType
    // un-touches all points of the assembled composite before running that program.
    let geo = &geos[0];
    let comp_base = out.len() as u16;
    let comp_programs: [(&str, Vec<u8>); 5] = [
        ("none", vec![]),
        ("x", {
            let mut c = vec![SVTCA_X];
            push(&mut c, &[2]);
            c.push(MDAP + 1);
            c
        }),
        ("y", {
            let mut c = vec![SVTCA_Y];
            push(&mut c, &[2]);
            c.push(MDAP + 1);
            push(&mut c, &[3]);
            c.push(MDAP + 1);
            c
        }),
        ("both", {
            let mut c = vec![SVTCA_X];
            push(&mut c, &[1]);
            c.push(MDAP + 1);
            c.push(SVTCA_Y);
            push(&mut c, &[3]);
            c.push(MDAP + 1);
            c
        }),
        ("both+IUP", {
            let mut c = vec![SVTCA_X];
            push(&mut c, &[1]);
            c.push(MDAP + 1);
            c.push(SVTCA_Y);
            push(&mut c, &[3]);
            c.push(MDAP + 1);
            iup(&mut c);
            c
        }),
    ];
    for (_, code) in &comp_programs {
        out.push(HGlyph {
            class: "component of instructed composites".into(),
            points: geo.clone(),
            code: code.clone(),
            raw_composite: None,
            contour2: vec![],
        });
    }
    // composite flag bits
    const ARGS_WORDS_XY: u16 = 0x0003;
    const ROUND_XY: u16 = 0x0004;
    const HAVE_SCALE: u16 = 0x0008;
    const MORE: u16 = 0x0020;
    const HAVE_INS: u16 = 0x0100;
    const USE_MY_METRICS: u16 = 0x0200;
    const SCALED_OFFSET: u16 = 0x0800;
    // second-component variants: (extra flags, scale in F2Dot14 bits if any)
    let variants: [(u16, Option<i16>); 5] = [
        (0, None),
        (ROUND_XY, None),
        (HAVE_SCALE, Some(0x2000)),
        (HAVE_SCALE | SCALED_OFFSET, Some(0x2000)),
        (USE_MY_METRICS, None),
    ];
    // the composite's own programs
    // (program, uses MIAP): composites moved by MIAP keep the plain class "MIAP" — under the INSTCTRL-2
    // prep variant they show the same known cut-in divergence as the MIAP family
    let mut programs: Vec<(Vec<u8>, bool)> = vec![];
    for k in [3, 7] {
        for axis in 0..2 {
            for mover in 0..3 {
                for iups in [vec![IUP_X], vec![IUP_Y], vec![IUP_Y, IUP_X]] {
                    let mut c = vec![axis_op(axis)];
                    match mover {
                        0 => {
                            push(&mut c, &[k, 64]);
                            c.push(SHPIX);
                        }
                        1 => {
                            push(&mut c, &[k]);
                            c.push(MDAP + 1);
                        }
                        _ => {
                            push(&mut c, &[k, 9]);
                            c.push(MIAP + 1);
                        }
                    }
                    c.extend(iups);
                    programs.push((c, mover == 2));
                }
            }
        }
    }
    for first in 0..5u16 {
        for second in [0u16, 3] {
            for (vflags, scale) in variants {
                for (prog, is_miap) in &programs {
                    let mut g: Vec<u8> = vec![];
                    g.extend_from_slice(&(-1i16).to_be_bytes());
                    for v in [-100i16, -100, 1300, 900] {
                        g.extend_from_slice(&v.to_be_bytes());
                    }
                    // first component at the origin
                    g.extend_from_slice(&(ARGS_WORDS_XY | MORE).to_be_bytes());
                    g.extend_from_slice(&(comp_base + first).to_be_bytes());
                    g.extend_from_slice(&0i16.to_be_bytes());
                    g.extend_from_slice(&0i16.to_be_bytes());
                    // second component, shifted
                    g.extend_from_slice(&(ARGS_WORDS_XY | HAVE_INS | vflags).to_be_bytes());
                    g.extend_from_slice(&(comp_base + second).to_be_bytes());
                    g.extend_from_slice(&533i16.to_be_bytes());
                    g.extend_from_slice(&67i16.to_be_bytes());
                    if let Some(sc) = scale {
                        g.extend_from_slice(&sc.to_be_bytes());
                    }
                    g.extend_from_slice(&(prog.len() as u16).to_be_bytes());
                    g.extend_from_slice(prog);
                    out.push(HGlyph {
                        class: if *is_miap { "MIAP".into() } else { "instructed composite".into() },
                        points: vec![],
                        code: prog.clone(),
                        raw_composite: Some(g),
                        contour2: vec![],
                    });
                }
            }
        }
    }
    // F15… second-generation families (functions, control flow, stack, storage, zones, phantoms, …)
    crate::synth_hint2::more(&mut out);
    out
}

pub const UPEMS: [u16; 2] = [1000, 2048];

pub fn preps() -> Vec<(&'static str, Vec<u8>)> {
    let mut v = vec![("none", vec![])];
    let mut c = vec![];
    push(&mut c, &[4, 3]);
    c.push(INSTCTRL);
    v.push(("native-cleartype", c));
    let mut c = vec![];
    push(&mut c, &[0]);
    c.push(SCVTCI);
    push(&mut c, &[2, 2]);
    c.push(INSTCTRL);
    v.push(("instctrl2-scvtci0", c));
    let mut c = vec![MPPEM];
    push(&mut c, &[20]);
    c.push(GT);
    c.push(IF);
    push(&mut c, &[1, 1]);
    c.push(INSTCTRL);
    c.push(EIF);
    v.push(("off-above-20ppem", c));
    let mut c = vec![];
    push(&mut c, &[0x1FF]);
    c.push(SCANCTRL);
    push(&mut c, &[4]);
    c.push(SCANTYPE);
    push(&mut c, &[1, 5 * 64 + 31]);
    c.push(WCVTP);
    push(&mut c, &[15, 368]);
    c.push(WCVTF);
    v.push(("scanctrl-wcvt", c));
    // combinations of the INSTCTRL selectors (1: inhibit grid fitting, here above 20 ppem; 2: default
    // graphics state in glyph programs, with SCVTCI 0 so that the bit is observable; 3: native ClearType)
    let sel1 = |c: &mut Vec<u8>| {
        c.push(MPPEM);
        push(c, &[20]);
        c.push(GT);
        c.push(IF);
        push(c, &[1, 1]);
        c.push(INSTCTRL);
        c.push(EIF);
    };
    let sel2 = |c: &mut Vec<u8>| {
        push(c, &[0]);
        c.push(SCVTCI);
        push(c, &[2, 2]);
        c.push(INSTCTRL);
    };
    let sel3 = |c: &mut Vec<u8>| {
        push(c, &[4, 3]);
        c.push(INSTCTRL);
    };
    let mut c = vec![];
    sel2(&mut c);
    sel3(&mut c);
    v.push(("instctrl2+3-scvtci0", c));
    let mut c = vec![];
    sel3(&mut c);
    sel1(&mut c);
    v.push(("instctrl1+3", c));
    let mut c = vec![];
    sel2(&mut c);
    sel3(&mut c);
    sel1(&mut c);
    v.push(("instctrl1+2+3-scvtci0", c));
    v
}

pub fn describe() -> String {
    let g = glyphs();
    let mut counts: std::collections::BTreeMap<String, usize> = Default::default();
    for x in &g {
        *counts.entry(x.class.clone()).or_default() += 1;
    }
    format!(
        "unitsPerEm {UPEMS:?} × prep variants {:?}; {} glyphs per font by instruction family: {:?}",
        preps().iter().map(|p| p.0).collect::<Vec<_>>(),
        g.len(),
        counts
    )
}

pub fn build_font(upem: u16, prep: &[u8], glyphs: &[HGlyph]) -> Vec<u8> {
    let mut b = GlyfLocaBuilder::new();
    let mut x_mins = vec![];
    let mut max_ins = 0usize;
    for g in glyphs {
        if let Some(raw) = &g.raw_composite {
            use read_fonts::FontRead;
            let cg = write_fonts::tables::glyf::CompositeGlyph::read(read_fonts::FontData::new(raw))
                .expect("hand-encoded composite parses");
            x_mins.push(-100i16);
            max_ins = max_ins.max(g.code.len());
            b.add_glyph(&cg).unwrap();
            continue;
        }
        if g.points.is_empty() {
            b.add_glyph(&SimpleGlyph::default()).unwrap();
            x_mins.push(0i16);
            continue;
        }
        let contour: Contour = g
            .points
            .iter()
            .map(|(x, y, on)| CurvePoint::new(*x, *y, *on))
            .collect::<Vec<_>>()
            .into();
        let mut sg = SimpleGlyph {
            bbox: Bbox::default(),
            contours: if g.contour2.is_empty() {
                vec![contour]
            } else {
                let c2: Contour = g
                    .contour2
                    .iter()
                    .map(|(x, y, on)| CurvePoint::new(*x, *y, *on))
                    .collect::<Vec<_>>()
                    .into();
                vec![contour, c2]
            },
            instructions: g.code.clone(),
        };
        sg.recompute_bounding_box();
        x_mins.push(sg.bbox.x_min);
        max_ins = max_ins.max(g.code.len());
        b.add_glyph(&sg).unwrap();
    }
    let n = x_mins.len();
    let (glyf, loca, fmt) = b.build();
    let long_loca = matches!(fmt, LocaFormat::Long);
    let mut hmtx = vec![];
    for g in 0..n {
        hmtx.extend_from_slice(&((600 + (g % 7) * 13) as u16).to_be_bytes());
        hmtx.extend_from_slice(&x_mins[g].to_be_bytes());
    }
    let mut head: Vec<u8> = vec![];
    head.extend_from_slice(&0x0001_0000u32.to_be_bytes());
    head.extend_from_slice(&0x0001_0000u32.to_be_bytes());
    head.extend_from_slice(&0u32.to_be_bytes());
    head.extend_from_slice(&0x5F0F_3CF5u32.to_be_bytes());
    head.extend_from_slice(&0x000Bu16.to_be_bytes()); // baseline at 0, lsb at 0, integer ppem
    head.extend_from_slice(&upem.to_be_bytes());
    head.extend_from_slice(&[0; 16]);
    for v in [-100i16, -100, 1100, 1100] {
        head.extend_from_slice(&v.to_be_bytes());
    }
    head.extend_from_slice(&0u16.to_be_bytes());
    head.extend_from_slice(&1u16.to_be_bytes());
    head.extend_from_slice(&2i16.to_be_bytes());
    head.extend_from_slice(&(long_loca as i16).to_be_bytes());
    head.extend_from_slice(&0i16.to_be_bytes());
    let mut hhea: Vec<u8> = vec![];
    hhea.extend_from_slice(&0x0001_0000u32.to_be_bytes());
    hhea.extend_from_slice(&800i16.to_be_bytes());
    hhea.extend_from_slice(&(-200i16).to_be_bytes());
    hhea.extend_from_slice(&0i16.to_be_bytes());
    hhea.extend_from_slice(&700u16.to_be_bytes());
    hhea.extend_from_slice(&0i16.to_be_bytes());
    hhea.extend_from_slice(&0i16.to_be_bytes());
    hhea.extend_from_slice(&1100i16.to_be_bytes());
    hhea.extend_from_slice(&1i16.to_be_bytes());
    hhea.extend_from_slice(&[0; 2 + 2 + 8]);
    hhea.extend_from_slice(&0i16.to_be_bytes());
    hhea.extend_from_slice(&(n as u16).to_be_bytes());
    let mut maxp: Vec<u8> = vec![];
    maxp.extend_from_slice(&0x0001_0000u32.to_be_bytes());
    for v in [
        n as u16,
        16,  // maxPoints
        2,   // maxContours
        16,  // maxCompositePoints
        4,   // maxCompositeContours
        2,   // maxZones
        8,   // maxTwilightPoints
        8,   // maxStorage
        16,  // maxFunctionDefs
        2,   // maxInstructionDefs
        64,  // maxStackElements
        (max_ins.max(prep.len()).max(crate::synth_hint2::fpgm().len()) + 8) as u16,
        4, // maxComponentElements
        2, // maxComponentDepth
    ] {
        maxp.extend_from_slice(&v.to_be_bytes());
    }
    let mut cvt = vec![];
    for v in CVT {
        cvt.extend_from_slice(&v.to_be_bytes());
    }
    let mut fb = FontBuilder::new();
    fb.add_raw(Tag::new(b"head"), head);
    fb.add_raw(Tag::new(b"hhea"), hhea);
    fb.add_raw(Tag::new(b"maxp"), maxp);
    fb.add_raw(Tag::new(b"hmtx"), hmtx);
    fb.add_raw(Tag::new(b"cvt "), cvt);
    fb.add_raw(Tag::new(b"fpgm"), crate::synth_hint2::fpgm());
    if !prep.is_empty() {
        fb.add_raw(Tag::new(b"prep"), prep.to_vec());
    }
    fb.add_table(&glyf).unwrap();
    fb.add_table(&loca).unwrap();
    fb.build()
}
