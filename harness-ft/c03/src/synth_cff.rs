//! Synthetic CFF family for C03: a hand-assembled minimal CFF table inside an `OTTO` font (FontBuilder),
//! one font per Private DICT variant (hint parameters at boundary values), every font with the same
//! charstrings: stems at blue-zone boundary positions, edge (ghost) hints, zero-width and overlapping
//! stems with hintmask, cntrmask, the four flex operators, and round shapes with over/undershoot around the
//! blue zones. Compared with FreeType in the 5 hinted modes (FreeType's CFF hinter / skrifa's port) and
//! unhinted, over the ppem grid. The glyph class is part of the violation identity.

use font_types::Tag;
use write_fonts::FontBuilder;

/// Type 2 charstring number
fn num(v: i32) -> Vec<u8> {
    if (-107..=107).contains(&v) {
        vec![(v + 139) as u8]
    } else if (108..=1131).contains(&v) {
        let w = v - 108;
        vec![(w >> 8) as u8 + 247, (w & 0xFF) as u8]
    } else if (-1131..=-108).contains(&v) {
        let w = -v - 108;
        vec![(w >> 8) as u8 + 251, (w & 0xFF) as u8]
    } else {
        let mut o = vec![28];
        o.extend_from_slice(&(v as i16).to_be_bytes());
        o
    }
}

fn cs(parts: &[(&[i32], &[u8])]) -> Vec<u8> {
    let mut o = vec![];
    for (nums, op) in parts {
        for n in *nums {
            o.extend(num(*n));
        }
        o.extend_from_slice(op);
    }
    o
}

const HSTEM: &[u8] = &[1];
const VSTEM: &[u8] = &[3];
const RLINETO: &[u8] = &[5];
const HLINETO: &[u8] = &[6];
const VLINETO: &[u8] = &[7];
const RRCURVETO: &[u8] = &[8];
const ENDCHAR: &[u8] = &[14];
const HSTEMHM: &[u8] = &[18];
const RMOVETO: &[u8] = &[21];
const FLEX: &[u8] = &[12, 35];
const HFLEX: &[u8] = &[12, 34];
const HFLEX1: &[u8] = &[12, 36];
const FLEX1: &[u8] = &[12, 37];

const Y_ALPHABET: [i32; 16] = [-13, -12, -11, -1, 0, 1, 250, 499, 500, 501, 511, 512, 513, 699, 700, 712];

/// (class, charstring); glyph 0 (.notdef) is `endchar`
pub fn charstrings() -> Vec<(String, Vec<u8>)> {
    let mut out: Vec<(String, Vec<u8>)> = vec![("empty".into(), ENDCHAR.to_vec())];
    // A horizontal bars: hstem at every boundary position × stem height
    for y0 in Y_ALPHABET {
        for h in [0, 1, 20, 50, 51, 100] {
            out.push((
                "horizontal stem".into(),
                cs(&[
                    (&[y0, h], HSTEM),
                    (&[100, 300], VSTEM),
                    (&[100, y0], RMOVETO),
                    (&[300], HLINETO),
                    (&[h], VLINETO),
                    (&[-300], HLINETO),
                    (&[], ENDCHAR),
                ]),
            ));
        }
    }
    // A' stems whose top (bottom) edge lies BlueShift ± 2 units inside a top (bottom) zone: the
    // "at least one pixel of overshoot" rule switches exactly at BlueShift (default 7)
    for t in [505, 506, 507, 508, 509, 705, 706, 707, 708, 709] {
        out.push((
            "stem edge at BlueShift".into(),
            cs(&[
                (&[t - 50, 50], HSTEM),
                (&[100, t - 50], RMOVETO),
                (&[300], HLINETO),
                (&[50], VLINETO),
                (&[-300], HLINETO),
                (&[], ENDCHAR),
            ]),
        ));
    }
    for b in [-9, -8, -7, -6, -5] {
        out.push((
            "stem edge at BlueShift".into(),
            cs(&[
                (&[b, 50], HSTEM),
                (&[100, b], RMOVETO),
                (&[300], HLINETO),
                (&[50], VLINETO),
                (&[-300], HLINETO),
                (&[], ENDCHAR),
            ]),
        ));
    }
    // B edge (ghost) hints −20 / −21 on a 40-unit bar
    for y in Y_ALPHABET {
        for (pos, w) in [(y + 40, -20), (y + 21, -21), (y, -20), (y, -21)] {
            out.push((
                "edge hint".into(),
                cs(&[
                    (&[pos, w], HSTEM),
                    (&[100, y], RMOVETO),
                    (&[300], HLINETO),
                    (&[40], VLINETO),
                    (&[-300], HLINETO),
                    (&[], ENDCHAR),
                ]),
            ));
        }
    }
    // C vertical stems
    for x in [0, 1, 99, 100] {
        for w in [0, 1, 79, 80, 81, 200] {
            out.push((
                "vertical stem".into(),
                cs(&[
                    (&[0, 700], HSTEM),
                    (&[x, w], VSTEM),
                    (&[x, 0], RMOVETO),
                    (&[w], HLINETO),
                    (&[700], VLINETO),
                    (&[-w], HLINETO),
                    (&[], ENDCHAR),
                ]),
            ));
        }
    }
    // D two (possibly overlapping / zero-width) stems selected by hintmask
    for (y1, h1) in [(20, 50), (50, 50), (49, 2), (0, 50), (25, 0), (120, 30)] {
        for mask in [0x80u8, 0x40, 0xC0] {
            let mut c = cs(&[(&[0, 50, y1 - 50, h1], HSTEMHM)]);
            c.extend_from_slice(&[19, mask]);
            c.extend(cs(&[
                (&[100, 0], RMOVETO),
                (&[300], HLINETO),
                (&[50], VLINETO),
                (&[-300], HLINETO),
            ]));
            c.extend_from_slice(&[19, mask ^ 0xC0 | 0x40]);
            c.extend(cs(&[
                (&[0, y1 - 50], RMOVETO),
                (&[300], HLINETO),
                (&[h1], VLINETO),
                (&[-300], HLINETO),
                (&[], ENDCHAR),
            ]));
            out.push(("overlapping stems with hintmask".into(), c));
        }
    }
    // E three stems with a counter mask
    for y in [199, 200, 201, 225] {
        let mut c = cs(&[(&[0, 50, y - 50, 50, 400 - y - 50, 50], HSTEMHM)]);
        c.extend_from_slice(&[20, 0xE0]);
        for (dy, first) in [(0, true), (y, false), (400 - y, false)] {
            let _ = first;
            c.extend(cs(&[
                (&[if dy == 0 { 100 } else { 0 }, if dy == 0 { 0 } else { dy - 50 }], RMOVETO),
                (&[300], HLINETO),
                (&[50], VLINETO),
                (&[-300], HLINETO),
            ]));
        }
        c.extend_from_slice(ENDCHAR);
        out.push(("cntrmask".into(), c));
    }
    // F flex operators on the baseline and on a blue zone
    for base in [0, 500] {
        for fh in [0, 1, -1, 10, 50] {
            let variants: [(&str, Vec<i32>, &[u8]); 4] = [
                ("flex", vec![50, 0, 50, fh, 50, 0, 50, 0, 50, -fh, 50, 0, 50], FLEX),
                ("hflex", vec![50, 50, fh, 50, 50, 50, 50], HFLEX),
                ("hflex1", vec![50, 0, 50, fh, 50, 50, 50, -fh, 50], HFLEX1),
                ("flex1", vec![50, 0, 50, fh, 50, 0, 50, 0, 50, -fh, 50], FLEX1),
            ];
            for (name, args, op) in variants {
                let mut c = cs(&[(&[base, 100], HSTEM), (&[100, base], RMOVETO)]);
                c.extend(cs(&[(&args, op)]));
                c.extend(cs(&[(&[100], VLINETO), (&[-300], HLINETO), (&[], ENDCHAR)]));
                out.push((name.into(), c));
            }
        }
    }
    // F' flex operand sub-family. Every flex here is followed by two more relative segments, so a wrong
    // flex end point shifts the rest of the path.
    let tail: [(&[i32], &[u8]); 3] = [(&[37, 23], RLINETO), (&[-19, 45], RLINETO), (&[], ENDCHAR)];
    // flex1: the last operand is dx or dy depending on whether |dx| > |dy| accumulated over the first
    // five points (a tie counts as "dy"): sums on both sides of, and exactly on, the tie in all four
    // sign combinations, on the axes and at zero; last operand of either sign
    for (sx, sy) in [
        (250, 100),
        (100, 250),
        (200, 200),
        (200, -200),
        (-200, 200),
        (-200, -200),
        (0, 200),
        (200, 0),
        (0, 0),
        (210, 200),
        (200, 210),
        (-190, 200),
    ] {
        for d6 in [50, -50] {
            // the five deltas: weights 3,2,0,2,3 (x) and 1,3,2,3,1 (y), in tenths of the sum
            let dx: Vec<i32> = [3, 2, 0, 2, 3].iter().map(|w| sx * w / 10).collect();
            let dy: Vec<i32> = [1, 3, 2, 3, 1].iter().map(|w| sy * w / 10).collect();
            let mut args = vec![];
            for i in 0..5 {
                args.push(dx[i]);
                args.push(dy[i]);
            }
            args.push(d6);
            let mut c = cs(&[(&[300, 250], RMOVETO), (&args, FLEX1)]);
            c.extend(cs(&tail));
            out.push(("flex1 by accumulated direction".into(), c));
        }
    }
    // flex: flex depth operand around 50 (hundredths of a device pixel) × flex height, on the baseline
    // and on a blue zone
    for base in [0, 500] {
        for fd in [0, 1, 49, 50, 51, 100] {
            for fh in [0, 1, 2, 5] {
                let args = vec![50, 0, 50, fh, 50, 0, 50, 0, 50, -fh, 50, 0, fd];
                let mut c = cs(&[(&[base, 100], HSTEM), (&[100, base], RMOVETO), (&args, FLEX)]);
                c.extend(cs(&tail));
                out.push(("flex depth".into(), c));
            }
        }
    }
    // hflex / hflex1 operand alphabets
    for base in [0, 500] {
        for dy2 in [0, 1, -1, 20, -20] {
            let mut c = cs(&[
                (&[base, 100], HSTEM),
                (&[100, base], RMOVETO),
                (&[50, 50, dy2, 50, 50, 50, 50], HFLEX),
            ]);
            c.extend(cs(&tail));
            out.push(("hflex operands".into(), c));
        }
        for (dy1, dy2, dy5) in [(0, 20, -20), (10, 10, -20), (-10, 30, -20), (5, 5, 5), (0, 0, 0)] {
            let mut c = cs(&[
                (&[base, 100], HSTEM),
                (&[100, base], RMOVETO),
                (&[50, dy1, 50, dy2, 50, 50, 50, dy5, 50], HFLEX1),
            ]);
            c.extend(cs(&tail));
            out.push(("hflex1 operands".into(), c));
        }
    }
    // G round shapes with undershoot b and overshoot t
    for b in [-13, -12, -6, -1, 0, 1] {
        for t in [499, 500, 506, 512, 513] {
            let hh = (t - b) / 2;
            let rest = (t - b) - hh;
            out.push((
                "round shape across blue zones".into(),
                cs(&[
                    (&[b, 30, t - b - 60, 30], HSTEM),
                    (&[300, b], RMOVETO),
                    (&[110, 0, 90, 90, 0, hh - 90], RRCURVETO),
                    (&[0, rest - 90, -90, 90, -110, 0], RRCURVETO),
                    (&[-110, 0, -90, -90, 0, -(rest - 90)], RRCURVETO),
                    (&[0, -(hh - 90), 90, -90, 110, 0], RRCURVETO),
                    (&[], ENDCHAR),
                ]),
            ));
        }
    }
    out
}

// ---- DICT encoding ---------------------------------------------------------------------------------

fn dict_int5(v: i32) -> Vec<u8> {
    let mut o = vec![29];
    o.extend_from_slice(&v.to_be_bytes());
    o
}

fn dict_int(v: i32) -> Vec<u8> {
    if (-107..=107).contains(&v) {
        vec![(v + 139) as u8]
    } else if (108..=1131).contains(&v) {
        let w = v - 108;
        vec![(w >> 8) as u8 + 247, (w & 0xFF) as u8]
    } else if (-1131..=-108).contains(&v) {
        let w = -v - 108;
        vec![(w >> 8) as u8 + 251, (w & 0xFF) as u8]
    } else if (-32768..=32767).contains(&v) {
        let mut o = vec![28];
        o.extend_from_slice(&(v as i16).to_be_bytes());
        o
    } else {
        dict_int5(v)
    }
}

/// DICT real number from its decimal text (digits, '.', '-')
fn dict_real(text: &str) -> Vec<u8> {
    let mut nibbles: Vec<u8> = vec![];
    let chars: Vec<char> = text.chars().collect();
    let mut i = 0;
    while i < chars.len() {
        let ch = chars[i];
        nibbles.push(match ch {
            '0'..='9' => ch as u8 - b'0',
            '.' => 0xA,
            'E' if chars.get(i + 1) == Some(&'-') => {
                i += 1;
                0xC
            }
            'E' => 0xB,
            '-' => 0xE,
            _ => panic!("bad real"),
        });
        i += 1;
    }
    nibbles.push(0xF);
    if nibbles.len() % 2 == 1 {
        nibbles.push(0xF);
    }
    let mut o = vec![30];
    for p in nibbles.chunks(2) {
        o.push((p[0] << 4) | p[1]);
    }
    o
}

fn delta_array(vals: &[i32]) -> Vec<u8> {
    let mut o = vec![];
    let mut prev = 0;
    for v in vals {
        o.extend(dict_int(*v - prev));
        prev = *v;
    }
    o
}

#[derive(Clone, Debug)]
pub struct PrivateSpec {
    pub name: &'static str,
    pub blue_values: Option<Vec<i32>>,
    pub other_blues: Option<Vec<i32>>,
    pub family_blues: Option<Vec<i32>>,
    pub family_other_blues: Option<Vec<i32>>,
    pub blue_scale: Option<&'static str>,
    pub blue_shift: Option<i32>,
    pub blue_fuzz: Option<i32>,
    pub std_hw: Option<i32>,
    pub std_vw: Option<i32>,
    pub force_bold: Option<i32>,
    pub language_group: Option<i32>,
    /// raw DICT bytes appended (StemSnapH/V, ExpansionFactor ...)
    pub extra: Vec<u8>,
    /// (defaultWidthX, nominalWidthX)
    pub widths: Option<(i32, i32)>,
}

fn base_spec() -> PrivateSpec {
    PrivateSpec {
        name: "base",
        blue_values: Some(vec![-12, 0, 500, 512, 700, 712]),
        other_blues: Some(vec![-217, -205]),
        family_blues: None,
        family_other_blues: None,
        blue_scale: None,
        blue_shift: None,
        blue_fuzz: None,
        std_hw: Some(50),
        std_vw: Some(80),
        force_bold: None,
        language_group: None,
        extra: vec![],
        widths: None,
    }
}

pub fn private_specs() -> Vec<PrivateSpec> {
    let b = base_spec;
    let mut v = vec![b()];
    let mut add = |name: &'static str, f: &dyn Fn(&mut PrivateSpec)| {
        let mut s = b();
        s.name = name;
        f(&mut s);
        v.push(s);
    };
    add("BlueScale 0.0625", &|s| s.blue_scale = Some("0.0625"));
    add("BlueScale 0.5", &|s| s.blue_scale = Some("0.5"));
    add("BlueScale 0.001", &|s| s.blue_scale = Some("0.001"));
    add("BlueScale 0", &|s| s.blue_scale = Some("0"));
    add("BlueShift 0", &|s| s.blue_shift = Some(0));
    add("BlueShift 100", &|s| s.blue_shift = Some(100));
    add("BlueFuzz 0", &|s| s.blue_fuzz = Some(0));
    add("BlueFuzz 10", &|s| s.blue_fuzz = Some(10));
    add("FamilyBlues equal", &|s| s.family_blues = s.blue_values.clone());
    add("FamilyBlues +1", &|s| s.family_blues = Some(vec![-11, 1, 501, 513, 701, 713]));
    add("FamilyBlues far", &|s| s.family_blues = Some(vec![-30, -18, 480, 492, 680, 692]));
    add("FamilyOtherBlues equal", &|s| s.family_other_blues = s.other_blues.clone());
    add("FamilyOtherBlues +1", &|s| s.family_other_blues = Some(vec![-216, -204]));
    add("FamilyOtherBlues near baseline", &|s| {
        s.family_other_blues = Some(vec![-205, -193]);
        s.family_blues = s.blue_values.clone();
        s.blue_scale = Some("0.0625");
    });
    add("Family both +3", &|s| {
        s.family_blues = Some(vec![-9, 3, 503, 515, 703, 715]);
        s.family_other_blues = Some(vec![-214, -202]);
    });
    add("StdHW 0", &|s| s.std_hw = Some(0));
    add("StdHW 1", &|s| s.std_hw = Some(1));
    add("StdHW 500", &|s| s.std_hw = Some(500));
    add("StdVW 0", &|s| s.std_vw = Some(0));
    add("StdVW 1", &|s| s.std_vw = Some(1));
    add("StdVW 500", &|s| s.std_vw = Some(500));
    add("ForceBold 1", &|s| s.force_bold = Some(1));
    add("LanguageGroup 1", &|s| s.language_group = Some(1));
    add("no BlueValues", &|s| {
        s.blue_values = None;
        s.other_blues = None;
    });
    add("no blues, LanguageGroup 1", &|s| {
        s.blue_values = None;
        s.other_blues = None;
        s.language_group = Some(1);
    });
    add("odd BlueValues", &|s| s.blue_values = Some(vec![-12, 0, 500]));
    add("overlapping zones", &|s| s.blue_values = Some(vec![-12, 0, -5, 10, 500, 512]));
    add("seven zones", &|s| {
        s.blue_values = Some(vec![-12, 0, 100, 105, 200, 205, 300, 305, 400, 405, 500, 512, 700, 712])
    });
    add("no OtherBlues", &|s| s.other_blues = None);
    // Private DICT extras
    add("StemSnapH StemSnapV", &|s| {
        let mut e = delta_array(&[50, 60, 100]);
        e.extend_from_slice(&[12, 12]);
        e.extend(delta_array(&[80, 90]));
        e.extend_from_slice(&[12, 13]);
        s.extra = e;
    });
    add("ExpansionFactor 0.5", &|s| {
        let mut e = dict_real("0.5");
        e.extend_from_slice(&[12, 18]);
        s.extra = e;
    });
    add("OtherBlues 10 values", &|s| {
        s.other_blues = Some(vec![-417, -405, -367, -355, -317, -305, -267, -255, -217, -205]);
        s.blue_values = Some(vec![-12, 0, 100, 105, 200, 205, 300, 305, 400, 405, 500, 512, 700, 712]);
    });
    // DICT real number syntax (exponents, leading dot) and integer operand encodings
    add("BlueScale 39625E-6", &|s| s.blue_scale = Some("39625E-6"));
    add("BlueScale .0625", &|s| s.blue_scale = Some(".0625"));
    add("BlueScale 0.00625E1", &|s| s.blue_scale = Some("0.00625E1"));
    add("blues at DICT integer encoding boundaries", &|s| {
        s.blue_values = Some(vec![-108, 0, 500, 607, 1739, 1740]);
        s.other_blues = Some(vec![-1240, -1239]);
        s.family_blues = Some(vec![-108, 0, 500, 608, 1739, 1740]);
    });
    if ENABLE_FRACTIONAL_PRIVATE {
        add("BlueShift 7.5", &|s| {
            let mut e = dict_real("7.5");
            e.extend_from_slice(&[12, 10]);
            s.extra = e;
        });
        add("BlueFuzz 1.5", &|s| {
            let mut e = dict_real("1.5");
            e.extend_from_slice(&[12, 11]);
            s.extra = e;
        });
        add("fractional BlueValues", &|s| {
            s.blue_values = None;
            // -12.5 0 500.5 512.5 700 712.75 as deltas
            let mut e = vec![];
            for t in ["-12.5", "12.5", "500.5", "12", "187.5", "12.75"] {
                e.extend(dict_real(t));
            }
            e.push(6);
            s.extra = e;
        });
    }
    add("inverted zone", &|s| s.blue_values = Some(vec![-12, 0, 512, 500, 700, 712]));
    v
}

fn private_dict(s: &PrivateSpec) -> Vec<u8> {
    let mut o = vec![];
    let mut arr = |vals: &Option<Vec<i32>>, op: &[u8], o: &mut Vec<u8>| {
        if let Some(v) = vals {
            o.extend(delta_array(v));
            o.extend_from_slice(op);
        }
    };
    arr(&s.blue_values, &[6], &mut o);
    arr(&s.other_blues, &[7], &mut o);
    arr(&s.family_blues, &[8], &mut o);
    arr(&s.family_other_blues, &[9], &mut o);
    if let Some(t) = s.blue_scale {
        o.extend(dict_real(t));
        o.extend_from_slice(&[12, 9]);
    }
    let mut int = |v: Option<i32>, op: &[u8], o: &mut Vec<u8>| {
        if let Some(v) = v {
            o.extend(dict_int(v));
            o.extend_from_slice(op);
        }
    };
    int(s.blue_shift, &[12, 10], &mut o);
    int(s.blue_fuzz, &[12, 11], &mut o);
    int(s.std_hw, &[10], &mut o);
    int(s.std_vw, &[11], &mut o);
    int(s.force_bold, &[12, 14], &mut o);
    int(s.language_group, &[12, 17], &mut o);
    o.extend_from_slice(&s.extra);
    match s.widths {
        None => {
            // defaultWidthX 600 (charstrings carry no width)
            o.extend(dict_int(600));
            o.push(20);
        }
        Some((d, n)) => {
            o.extend(dict_int(d));
            o.push(20);
            o.extend(dict_int(n));
            o.push(21);
        }
    }
    o
}

fn index(items: &[Vec<u8>]) -> Vec<u8> {
    let mut o = vec![];
    o.extend_from_slice(&(items.len() as u16).to_be_bytes());
    if items.is_empty() {
        return o;
    }
    o.push(4);
    let mut off = 1u32;
    o.extend_from_slice(&off.to_be_bytes());
    for it in items {
        off += it.len() as u32;
        o.extend_from_slice(&off.to_be_bytes());
    }
    for it in items {
        o.extend_from_slice(it);
    }
    o
}

pub fn cff_table(spec: &PrivateSpec, charstrings: &[Vec<u8>]) -> Vec<u8> {
    let n = charstrings.len();
    let header = vec![1u8, 0, 4, 4];
    let name = index(&[b"SynthCFF".to_vec()]);
    let strings = index(&[]);
    let gsubrs = index(&[]);
    // charset format 2: one range covering glyphs 1..n-1 with SIDs 1..
    let mut charset = vec![2u8];
    charset.extend_from_slice(&1u16.to_be_bytes());
    charset.extend_from_slice(&((n - 2) as u16).to_be_bytes());
    let private = private_dict(spec);
    // Top DICT: FontBBox(5) charset(15) CharStrings(17) Private(18); all offsets as 5-byte ints
    let top_len = (4 * 5 + 1) + (5 + 1) + (5 + 1) + (5 + 5 + 1);
    let top_index_len = 2 + 1 + 8 + top_len;
    let charset_off = header.len() + name.len() + top_index_len + strings.len() + gsubrs.len();
    let private_off = charset_off + charset.len();
    let charstrings_off = private_off + private.len();
    let mut top = vec![];
    for v in [-100, -300, 1100, 1100] {
        top.extend(dict_int5(v));
    }
    top.push(5);
    top.extend(dict_int5(charset_off as i32));
    top.push(15);
    top.extend(dict_int5(charstrings_off as i32));
    top.push(17);
    top.extend(dict_int5(private.len() as i32));
    top.extend(dict_int5(private_off as i32));
    top.push(18);
    assert_eq!(top.len(), top_len);
    let top_index = index(&[top]);
    assert_eq!(top_index.len(), top_index_len);
    let cs_index = index(charstrings);
    [header, name, top_index, strings, gsubrs, charset, private, cs_index].concat()
}

pub fn build_font(spec: &PrivateSpec, charstrings: &[Vec<u8>]) -> Vec<u8> {
    sfnt(1000, charstrings.len(), cff_table(spec, charstrings))
}

fn sfnt(upem: u16, n: usize, cff: Vec<u8>) -> Vec<u8> {
    let mut head = vec![];
    head.extend_from_slice(&0x0001_0000u32.to_be_bytes());
    head.extend_from_slice(&0x0001_0000u32.to_be_bytes());
    head.extend_from_slice(&0u32.to_be_bytes());
    head.extend_from_slice(&0x5F0F_3CF5u32.to_be_bytes());
    head.extend_from_slice(&0x0003u16.to_be_bytes());
    head.extend_from_slice(&upem.to_be_bytes());
    head.extend_from_slice(&[0; 16]);
    for v in [-100i16, -300, 1100, 1100] {
        head.extend_from_slice(&v.to_be_bytes());
    }
    head.extend_from_slice(&[0, 0, 0, 6, 0, 2, 0, 0, 0, 0]);
    let mut hhea = vec![];
    hhea.extend_from_slice(&0x0001_0000u32.to_be_bytes());
    hhea.extend_from_slice(&800i16.to_be_bytes());
    hhea.extend_from_slice(&(-200i16).to_be_bytes());
    hhea.extend_from_slice(&0i16.to_be_bytes());
    hhea.extend_from_slice(&600u16.to_be_bytes());
    hhea.extend_from_slice(&[0; 6]);
    hhea.extend_from_slice(&1i16.to_be_bytes());
    hhea.extend_from_slice(&[0; 2 + 2 + 8]);
    hhea.extend_from_slice(&0i16.to_be_bytes());
    hhea.extend_from_slice(&(n as u16).to_be_bytes());
    let mut maxp = vec![0, 0, 0x50, 0];
    maxp.extend_from_slice(&(n as u16).to_be_bytes());
    let mut hmtx = vec![];
    for _ in 0..n {
        hmtx.extend_from_slice(&600u16.to_be_bytes());
        hmtx.extend_from_slice(&0i16.to_be_bytes());
    }
    let mut fb = FontBuilder::new();
    fb.add_raw(Tag::new(b"head"), head);
    fb.add_raw(Tag::new(b"hhea"), hhea);
    fb.add_raw(Tag::new(b"maxp"), maxp);
    fb.add_raw(Tag::new(b"hmtx"), hmtx);
    fb.add_raw(Tag::new(b"CFF "), cff);
    let mut bytes = fb.build();
    // FontBuilder always writes the TrueType sfnt version; FreeType selects its CFF driver by the
    // 'OTTO' tag (skrifa does not care). Checksums are not verified by either engine.
    bytes[0..4].copy_from_slice(b"OTTO");
    bytes
}

pub fn describe() -> String {
    let cs = charstrings();
    let mut counts: std::collections::BTreeMap<String, usize> = Default::default();
    for (c, _) in &cs {
        *counts.entry(c.clone()).or_default() += 1;
    }
    let extra: Vec<String> = extra_fonts()
        .iter()
        .map(|f| {
            let mut c: std::collections::BTreeMap<&str, usize> = Default::default();
            for k in &f.classes {
                *c.entry(k.as_str()).or_default() += 1;
            }
            format!("{} ({} glyphs: {:?})", f.name, f.classes.len(), c)
        })
        .collect();
    format!(
        "one font per Private DICT variant {:?}; {} charstrings per font by class: {:?}; extra fonts: {:?}",
        private_specs().iter().map(|s| s.name).collect::<Vec<_>>(),
        cs.len(),
        counts,
        extra
    )
}

// ---- extended families: operators, number encodings, widths, masks, subroutines, CID, unitsPerEm -------

const HMOVETO: &[u8] = &[22];
const VMOVETO: &[u8] = &[4];
const VSTEMHM: &[u8] = &[23];
const HINTMASK: &[u8] = &[19];
const CNTRMASK: &[u8] = &[20];
const CALLSUBR: &[u8] = &[10];
const CALLGSUBR: &[u8] = &[29];
const RETURN: &[u8] = &[11];

/// Subroutine nesting depth 11 exceeds the Type 2 limit of 10 (FreeType allows 16): not a valid font.
const ENABLE_NEST_11: bool = false;
/// endchar with 4 operands = implied seac (deprecated but valid): charstring.rs has a TODO, skrifa draws nothing
const ENABLE_SEAC: bool = true;
/// Disagreement on the unchanged repository (see the comment at the use site)
const ENABLE_FIRST_ZONE_INVERTED: bool = true;
/// Top DICT / Font DICT FontMatrix (skrifa's cff/mod.rs does not read FontMatrix)
const ENABLE_FONT_MATRIX: bool = true;
/// Real (fractional) values for BlueShift / BlueFuzz / BlueValues in the Private DICT
const ENABLE_FRACTIONAL_PRIVATE: bool = true;
/// Valid input on which skrifa and FreeType disagree: skrifa's HintMap holds 96 edges (hint.rs `MAX_HINTS`),
/// FreeType's 192 (`CF2_MAX_HINT_EDGES`), so the 49th and later simultaneously active stems are dropped.
const ENABLE_OVER_48_ACTIVE_STEMS: bool = true;

/// charstring byte builder
struct B(Vec<u8>);
impl B {
    fn new() -> Self {
        B(vec![])
    }
    fn n(mut self, v: &[i32]) -> Self {
        for x in v {
            self.0.extend(num(*x));
        }
        self
    }
    fn n28(mut self, v: i16) -> Self {
        self.0.push(28);
        self.0.extend_from_slice(&v.to_be_bytes());
        self
    }
    /// 16.16 operand (opcode 255)
    fn fx(mut self, bits: i32) -> Self {
        self.0.push(255);
        self.0.extend_from_slice(&bits.to_be_bytes());
        self
    }
    fn op(mut self, o: &[u8]) -> Self {
        self.0.extend_from_slice(o);
        self
    }
    /// two more relative segments and endchar: a wrong end point shifts them
    fn tail(self) -> Vec<u8> {
        self.n(&[37, 23]).op(RLINETO).n(&[-19, 45]).op(RLINETO).op(ENDCHAR).0
    }
    /// a 300 x h bar drawn with one alternating hlineto
    fn bar(self, h: i32) -> Self {
        self.n(&[300, h, -300]).op(HLINETO)
    }
}

fn pre() -> B {
    B::new().n(&[0, 50]).op(HSTEM).n(&[100, 80]).op(VSTEM).n(&[100, 0]).op(RMOVETO)
}

const SEQ_A: [i32; 18] = [40, 25, 33, -17, 52, 21, 28, 36, -14, 47, 19, 31, 44, 23, -11, 39, 26, 34];
const SEQ_B: [i32; 18] = [-30, 45, 0, 27, -41, -16, 38, 0, 22, -35, 29, -12, 18, -26, 43, 0, -24, 32];

fn ones_mask(total: usize, pad_ones: bool) -> Vec<u8> {
    let nb = total.div_ceil(8);
    let mut m = vec![0u8; nb];
    for i in 0..(if pad_ones { nb * 8 } else { total }) {
        m[i / 8] |= 0x80 >> (i % 8);
    }
    m
}

/// Glyph classes exercising the charstring interpreter itself (independent of most Private DICT values)
pub fn ops_charstrings() -> Vec<(String, Vec<u8>)> {
    let mut out: Vec<(String, Vec<u8>)> = vec![("empty".into(), ENDCHAR.to_vec())];
    // 1 path operators
    let shapes: [(&str, &[u8], &[usize]); 10] = [
        ("rlineto multi", RLINETO, &[2, 4, 6, 8]),
        ("hlineto alternating", HLINETO, &[1, 2, 3, 4, 5]),
        ("vlineto alternating", VLINETO, &[1, 2, 3, 4, 5]),
        ("rrcurveto multi", RRCURVETO, &[6, 12, 18]),
        ("hhcurveto", &[27], &[4, 5, 8, 9]),
        ("vvcurveto", &[26], &[4, 5, 8, 9]),
        ("hvcurveto", &[31], &[4, 5, 8, 9, 12, 13]),
        ("vhcurveto", &[30], &[4, 5, 8, 9, 12, 13]),
        ("rcurveline", &[24], &[8, 14]),
        ("rlinecurve", &[25], &[8, 10, 12]),
    ];
    for seq in [SEQ_A, SEQ_B] {
        for (name, op, counts) in shapes {
            for n in counts {
                out.push((name.to_string(), pre().n(&seq[..*n]).op(op).tail()));
            }
        }
    }
    for a in [-50, 0, 1, 100] {
        for b in [-50, 0, 1, 120] {
            let c = B::new()
                .n(&[0, 50])
                .op(HSTEM)
                .n(&[100, 80])
                .op(VSTEM)
                .n(&[a + 100])
                .op(HMOVETO)
                .bar(50)
                .n(&[b])
                .op(VMOVETO)
                .n(&[200, 10, 0, 50])
                .op(RLINETO)
                .n(&[a])
                .op(HMOVETO)
                .n(&[b + 7])
                .op(VMOVETO)
                .n(&[60, 5])
                .op(RLINETO)
                .tail();
            out.push(("hmoveto vmoveto".into(), c));
        }
    }
    for x in [-100, -50, -1] {
        let c = B::new().n(&[-20, 20]).op(HSTEM).n(&[x, 80]).op(VSTEM).n(&[x, -20]).op(RMOVETO).n(&[80, 400, -80]).op(HLINETO).tail();
        out.push(("stems at negative coordinates".into(), c));
    }
    // degenerate segments (skrifa's NopFilteringSink / FreeType's glyph builder drop them)
    let degenerate: Vec<B> = vec![
        // moveto directly followed by moveto
        pre().n(&[50, 50]).op(RMOVETO).bar(50),
        // zero-length line right after the moveto
        pre().n(&[0, 0]).op(RLINETO).bar(50),
        // zero-length line mid-path
        pre().n(&[300]).op(HLINETO).n(&[0, 0]).op(RLINETO).n(&[50, -300]).op(VLINETO),
        pre().n(&[300, 0, 50, 0]).op(HLINETO),
        // contour explicitly returning to its start
        pre().n(&[300, 50, -300, -50]).op(HLINETO),
        // ... and continuing from there
        pre().n(&[300, 50, -300, -50, 100]).op(HLINETO),
        // line back to the start point right away
        pre().n(&[300, 0, -300, 0]).op(RLINETO).bar(50),
        // zero-length curve first / mid-path / back to start
        pre().n(&[0, 0, 0, 0, 0, 0]).op(RRCURVETO).bar(50),
        pre().n(&[300]).op(HLINETO).n(&[0, 0, 0, 0, 0, 0]).op(RRCURVETO).n(&[50, -300]).op(VLINETO),
        pre().n(&[100, 0, 100, 50, 100, 0, -100, 20, -100, -20, -100, -50]).op(RRCURVETO),
        // second contour that is only a moveto plus zero-length line, then a third real contour
        pre().bar(50).n(&[10, 100]).op(RMOVETO).n(&[0, 0]).op(RLINETO).n(&[10, 100]).op(RMOVETO).bar(30),
        // second contour starting where the first started
        pre().bar(50).n(&[0, -50]).op(RMOVETO).bar(20),
        // sub-unit line (1/65536) and half-unit line
        pre().fx(1).fx(0).op(RLINETO).bar(50),
        pre().fx(0x8000).fx(0).op(RLINETO).bar(50),
        pre().n(&[300]).op(HLINETO).fx(0).fx(0x7FFF).op(RLINETO).n(&[50, -300]).op(VLINETO),
    ];
    for b in degenerate {
        out.push(("degenerate segments".into(), b.tail()));
    }
    // the same without the two trailing segments: contour ends on the degenerate part
    out.push(("degenerate segments".into(), pre().n(&[300, 50, -300, -50]).op(HLINETO).op(ENDCHAR).0));
    out.push(("degenerate segments".into(), pre().bar(50).n(&[10, 100]).op(RMOVETO).op(ENDCHAR).0));
    out.push(("degenerate segments".into(), pre().op(ENDCHAR).0));
    out.push(("degenerate segments".into(), pre().n(&[0, 0]).op(RLINETO).op(ENDCHAR).0));
    // 2 number encodings
    for v in [-1132, -1131, -108, -107, 107, 108, 1131, 1132] {
        out.push((
            "number encoding boundary in coordinates".into(),
            pre().n(&[v, 50, 30, v]).op(RLINETO).tail(),
        ));
        let c = B::new().n(&[v, 20]).op(HSTEM).n(&[100, v.abs()]).op(VSTEM).n(&[100, v]).op(RMOVETO).bar(20).tail();
        out.push(("number encoding boundary in stems".into(), c));
    }
    for v in [-107i16, 0, 100, 108, 1131, 1132, -1200] {
        let c = B::new()
            .n28(0)
            .n28(50)
            .op(HSTEM)
            .fx(100 << 16)
            .fx(80 << 16)
            .op(VSTEM)
            .n28(100)
            .fx(0)
            .op(RMOVETO)
            .n28(v)
            .fx(50 << 16)
            .fx((v as i32) << 16)
            .n28(30)
            .op(RLINETO)
            .tail();
        out.push(("non-minimal number encoding".into(), c));
    }
    for fr in [0x8000, 0x4000, -0x8000, 1, 0xFFFF, -1, 0x7FFF, 0x8001] {
        for base in [0, 500] {
            let c = B::new()
                .n(&[base, 50])
                .op(HSTEM)
                .fx((100 << 16) + fr)
                .fx((base << 16) + fr)
                .op(RMOVETO)
                .fx((300 << 16) + fr)
                .fx(fr)
                .fx(-fr)
                .fx((50 << 16) - fr)
                .op(RLINETO)
                .fx((-300 << 16) + fr)
                .op(HLINETO)
                .tail();
            out.push(("16.16 operands in coordinates".into(), c));
            let c = B::new()
                .fx((base << 16) + fr)
                .fx((50 << 16) + fr)
                .op(HSTEM)
                .fx((100 << 16) + fr)
                .fx((80 << 16) - fr)
                .op(VSTEM)
                .n(&[100, base])
                .op(RMOVETO)
                .bar(50)
                .tail();
            out.push(("16.16 operands in stems".into(), c));
        }
    }
    // 3 width operand before every possible first operator
    for w in [None, Some(-50), Some(0), Some(123)] {
        let wb = || match w {
            None => B::new(),
            Some(w) => B::new().n(&[w]),
        };
        let mut push = |name: &str, c: Vec<u8>| out.push((format!("width before {name}"), c));
        push("hstem", wb().n(&[0, 50]).op(HSTEM).n(&[100, 80]).op(VSTEM).n(&[100, 0]).op(RMOVETO).bar(50).tail());
        push("hstem", wb().n(&[0, 50, 100, 50]).op(HSTEM).n(&[100, 0]).op(RMOVETO).bar(50).tail());
        push("vstem", wb().n(&[100, 80]).op(VSTEM).n(&[100, 0]).op(RMOVETO).bar(50).tail());
        push("vstem", wb().n(&[100, 80, 140, 80]).op(VSTEM).n(&[100, 0]).op(RMOVETO).bar(50).tail());
        push(
            "hstemhm",
            wb().n(&[0, 50]).op(HSTEMHM).n(&[100, 80]).op(VSTEMHM).op(HINTMASK).op(&[0xC0]).n(&[100, 0]).op(RMOVETO).bar(50).tail(),
        );
        push("vstemhm", wb().n(&[100, 80]).op(VSTEMHM).op(HINTMASK).op(&[0x80]).n(&[100, 0]).op(RMOVETO).bar(50).tail());
        push("hintmask", wb().n(&[100, 80]).op(HINTMASK).op(&[0x80]).n(&[100, 0]).op(RMOVETO).bar(50).tail());
        push(
            "hintmask",
            wb().n(&[100, 80, 140, 80]).op(HINTMASK).op(&[0x40]).n(&[100, 0]).op(RMOVETO).bar(50).tail(),
        );
        push(
            "cntrmask",
            wb().n(&[100, 80]).op(CNTRMASK).op(&[0x80]).op(HINTMASK).op(&[0x80]).n(&[100, 0]).op(RMOVETO).bar(50).tail(),
        );
        push("rmoveto", wb().n(&[100, 10]).op(RMOVETO).bar(50).tail());
        push("hmoveto", wb().n(&[100]).op(HMOVETO).bar(50).tail());
        push("vmoveto", wb().n(&[100]).op(VMOVETO).bar(50).tail());
        push("endchar", wb().op(ENDCHAR).0);
    }
    // 10 implied seac: endchar with adx ady bchar achar (StandardEncoding codes 65 'A' = SID 34 = glyph 34,
    // 66 'B' = glyph 35 with this font's charset)
    if ENABLE_SEAC {
        for w in [None, Some(55)] {
            let b = match w {
                None => B::new(),
                Some(w) => B::new().n(&[w]),
            };
            out.push(("endchar with 4 operands (implied seac)".into(), b.n(&[150, 40, 65, 66]).op(ENDCHAR).0));
        }
    }
    // 4 hint masks: total stem counts at the mask byte-count boundaries
    for total in [7usize, 8, 9, 15, 16, 17] {
        for mode in ["vstemhm", "implicit vstems before hintmask", "implicit vstems before cntrmask"] {
            for variant in 0..2 {
                let nh = total / 2;
                let nv = total - nh;
                let mut hargs = vec![0, 20];
                for _ in 1..nh {
                    hargs.extend([20, 20]);
                }
                let mut vargs = vec![100, 20];
                for _ in 1..nv {
                    vargs.extend([20, 20]);
                }
                let nb = total.div_ceil(8);
                let alt = |b: u8| vec![b; nb];
                let mut first = vec![0u8; nb];
                first[0] = 0x80;
                let mut lastbit = vec![0u8; nb];
                lastbit[(total - 1) / 8] = 0x80 >> ((total - 1) % 8);
                let masks: [Vec<u8>; 3] = if variant == 0 {
                    [ones_mask(total, false), vec![0u8; nb], alt(0xAA)]
                } else {
                    [alt(0x55), ones_mask(total, true), lastbit.clone()]
                };
                let mut b = B::new().n(&hargs).op(HSTEMHM);
                match mode {
                    "vstemhm" => {
                        b = b.n(&vargs).op(VSTEMHM);
                        if variant == 1 {
                            b = b.op(CNTRMASK).op(&first).op(CNTRMASK).op(&lastbit);
                        }
                        b = b.op(HINTMASK).op(&masks[0]);
                    }
                    "implicit vstems before hintmask" => {
                        b = b.n(&vargs).op(HINTMASK).op(&masks[0]);
                    }
                    _ => {
                        b = b.n(&vargs).op(CNTRMASK).op(&ones_mask(total.min(3), false).iter().chain(vec![0u8; nb].iter()).copied().take(nb).collect::<Vec<u8>>());
                        b = b.op(CNTRMASK).op(&lastbit).op(HINTMASK).op(&masks[0]);
                    }
                }
                b = b.n(&[100, 0]).op(RMOVETO).bar(20);
                b = b.op(HINTMASK).op(&masks[1]).n(&[0, 20]).op(RMOVETO).bar(20);
                b = b.op(HINTMASK).op(&masks[2]).n(&[0, 20]).op(RMOVETO).bar(20);
                b = b.op(HINTMASK).op(&masks[0]).n(&[20, 20, 0, 200, -20, 0]).op(RLINETO);
                out.push((format!("hint masks ({mode})"), b.tail()));
            }
        }
    }
    // stem count around the hint limit (96)
    // (97 stems exceed the Type 2 limit of 96 stem hints: FreeType rejects the hintmask; not a valid font)
    for total in [47usize, 48, 49, 50, 95, 96] {
        for variant in 0..2 {
            // all stems active at once: more than 48 stems = more than 96 hint-map edges
            let many_active = variant == 0 && total > 48;
            if many_active && !ENABLE_OVER_48_ACTIVE_STEMS {
                continue;
            }
            let mut b = B::new();
            let mut done = 0;
            while done < total {
                let k = (total - done).min(24);
                let mut args = vec![done as i32 * 10 - 100, 5];
                for _ in 1..k {
                    args.extend([5, 5]);
                }
                b = b.n(&args).op(HSTEMHM);
                done += k;
            }
            let mut m = ones_mask(total, false);
            if variant == 1 {
                for x in m.iter_mut() {
                    *x &= 0x11;
                }
                let l = m.len() - 1;
                m[l] = ones_mask(total, false)[l];
            }
            b = b.op(HINTMASK).op(&m).n(&[100, -100]).op(RMOVETO).bar(5).n(&[0, 935]).op(RMOVETO).bar(25);
            let class = if many_active { "more than 48 simultaneously active stems" } else { "stem count at hint limit" };
            out.push((class.into(), b.tail()));
        }
    }
    out
}

fn index_os(items: &[Vec<u8>], off_size: u8) -> Vec<u8> {
    let mut o = vec![];
    o.extend_from_slice(&(items.len() as u16).to_be_bytes());
    if items.is_empty() {
        return o;
    }
    let total: usize = 1 + items.iter().map(|i| i.len()).sum::<usize>();
    assert!(off_size == 4 || total < (1usize << (8 * off_size as usize)), "offSize too small");
    o.push(off_size);
    let mut off = 1u32;
    let put = |o: &mut Vec<u8>, v: u32| o.extend_from_slice(&v.to_be_bytes()[4 - off_size as usize..]);
    put(&mut o, off);
    for it in items {
        off += it.len() as u32;
        put(&mut o, off);
    }
    for it in items {
        o.extend_from_slice(it);
    }
    o
}

pub struct FdSpec {
    /// Private DICT without the Subrs entry
    pub private: Vec<u8>,
    pub subrs: Vec<Vec<u8>>,
    pub subrs_off_size: u8,
}

pub enum FdSelect {
    Format0(Vec<u8>),
    /// (first glyph, fd) ranges; the sentinel is the glyph count
    Format3(Vec<(u16, u8)>),
}

pub struct CffSpec {
    pub fds: Vec<FdSpec>,
    pub gsubrs: Vec<Vec<u8>>,
    pub gsubrs_off_size: u8,
    pub charstrings: Vec<Vec<u8>>,
    /// CID-keyed when Some
    pub cid: Option<FdSelect>,
    /// raw Top DICT entries (FontMatrix)
    pub top_extra: Vec<u8>,
    /// raw entries for every Font DICT (FontMatrix)
    pub fd_extra: Vec<u8>,
}

fn cff_table_ex(spec: &CffSpec) -> Vec<u8> {
    let n = spec.charstrings.len();
    let header = vec![1u8, 0, 4, 4];
    let name = index(&[b"SynthCFF".to_vec()]);
    let strings = if spec.cid.is_some() { index(&[b"Adobe".to_vec(), b"Identity".to_vec()]) } else { index(&[]) };
    let gsubrs = index_os(&spec.gsubrs, spec.gsubrs_off_size);
    let mut charset = vec![2u8];
    charset.extend_from_slice(&1u16.to_be_bytes());
    charset.extend_from_slice(&((n - 2) as u16).to_be_bytes());
    // private blobs: Private DICT (+ Subrs offset = dict size) immediately followed by the local Subrs INDEX
    let mut blobs: Vec<(usize, Vec<u8>)> = vec![];
    for fd in &spec.fds {
        let mut p = fd.private.clone();
        if !fd.subrs.is_empty() {
            let total = p.len() + 6;
            p.extend(dict_int5(total as i32));
            p.push(19);
        }
        let plen = p.len();
        if !fd.subrs.is_empty() {
            p.extend(index_os(&fd.subrs, fd.subrs_off_size));
        }
        blobs.push((plen, p));
    }
    let fdselect: Vec<u8> = match &spec.cid {
        None => vec![],
        Some(FdSelect::Format0(v)) => {
            assert_eq!(v.len(), n);
            let mut o = vec![0u8];
            o.extend_from_slice(v);
            o
        }
        Some(FdSelect::Format3(r)) => {
            let mut o = vec![3u8];
            o.extend_from_slice(&(r.len() as u16).to_be_bytes());
            for (first, fd) in r {
                o.extend_from_slice(&first.to_be_bytes());
                o.push(*fd);
            }
            o.extend_from_slice(&(n as u16).to_be_bytes());
            o
        }
    };
    let is_cid = spec.cid.is_some();
    let top_len = spec.top_extra.len() + if is_cid { 17 + 21 + 6 + 6 + 7 + 7 } else { 21 + 6 + 6 + 11 };
    let top_index_len = 2 + 1 + 8 + top_len;
    let nfd = spec.fds.len();
    let fdarray_len = if is_cid { 2 + 1 + 4 * (nfd + 1) + (11 + spec.fd_extra.len()) * nfd } else { 0 };
    let charset_off = header.len() + name.len() + top_index_len + strings.len() + gsubrs.len();
    let fdselect_off = charset_off + charset.len();
    let fdarray_off = fdselect_off + fdselect.len();
    let mut private_offs = vec![];
    let mut off = fdarray_off + fdarray_len;
    for (_, b) in &blobs {
        private_offs.push(off);
        off += b.len();
    }
    let charstrings_off = off;
    let mut top = vec![];
    if is_cid {
        top.extend(dict_int5(391));
        top.extend(dict_int5(392));
        top.extend(dict_int5(0));
        top.extend_from_slice(&[12, 30]);
    }
    top.extend_from_slice(&spec.top_extra);
    for v in [-100, -300, 1100, 1100] {
        top.extend(dict_int5(v));
    }
    top.push(5);
    top.extend(dict_int5(charset_off as i32));
    top.push(15);
    top.extend(dict_int5(charstrings_off as i32));
    top.push(17);
    let mut fdarray = vec![];
    if is_cid {
        top.extend(dict_int5(fdarray_off as i32));
        top.extend_from_slice(&[12, 36]);
        top.extend(dict_int5(fdselect_off as i32));
        top.extend_from_slice(&[12, 37]);
        let dicts: Vec<Vec<u8>> = (0..nfd)
            .map(|i| {
                let mut d = spec.fd_extra.clone();
                d.extend(dict_int5(blobs[i].0 as i32));
                d.extend(dict_int5(private_offs[i] as i32));
                d.push(18);
                d
            })
            .collect();
        fdarray = index(&dicts);
        assert_eq!(fdarray.len(), fdarray_len);
    } else {
        top.extend(dict_int5(blobs[0].0 as i32));
        top.extend(dict_int5(private_offs[0] as i32));
        top.push(18);
    }
    assert_eq!(top.len(), top_len);
    let top_index = index(&[top]);
    let mut o = [header, name, top_index, strings, gsubrs, charset, fdselect, fdarray].concat();
    for (_, b) in blobs {
        o.extend(b);
    }
    assert_eq!(o.len(), charstrings_off);
    o.extend(index(&spec.charstrings));
    o
}

pub struct ExtraFont {
    pub name: String,
    pub bytes: Vec<u8>,
    /// one per glyph, without the "CFF " prefix
    pub classes: Vec<String>,
    pub in_quick: bool,
}

fn bias(count: usize) -> i32 {
    if count < 1240 {
        107
    } else if count < 33900 {
        1131
    } else {
        32768
    }
}

fn special_indices(count: usize) -> Vec<usize> {
    let b = bias(count) as usize;
    let mut v: Vec<usize> = vec![0, 1, b - 1, b, b + 1, count - 2, count - 1];
    v.retain(|i| *i < count);
    v.sort();
    v.dedup();
    v
}

/// `count` subroutines, all a bare `return` except the special ones: a distinct line each
fn bias_subrs(count: usize, sign: i32) -> Vec<Vec<u8>> {
    let mut v = vec![RETURN.to_vec(); count];
    for (k, i) in special_indices(count).into_iter().enumerate() {
        v[i] = B::new().n(&[10 + 3 * k as i32, sign * (20 + k as i32)]).op(RLINETO).op(RETURN).0;
    }
    v
}

fn bias_font(nlocal: usize, nglobal: usize, los: u8, gos: u8) -> ExtraFont {
    bias_font_ex(nlocal, nglobal, los, gos, 1000, vec![])
}

fn bias_font_ex(nlocal: usize, nglobal: usize, los: u8, gos: u8, upem: u16, top_extra: Vec<u8>) -> ExtraFont {
    let mut cs: Vec<(String, Vec<u8>)> = vec![("empty".into(), ENDCHAR.to_vec())];
    for i in special_indices(nlocal) {
        cs.push((
            format!("callsubr at bias boundary ({nlocal} subrs)"),
            pre().n(&[i as i32 - bias(nlocal)]).op(CALLSUBR).tail(),
        ));
    }
    for i in special_indices(nglobal) {
        cs.push((
            format!("callgsubr at bias boundary ({nglobal} subrs)"),
            pre().n(&[i as i32 - bias(nglobal)]).op(CALLGSUBR).tail(),
        ));
    }
    let spec = CffSpec {
        fds: vec![FdSpec { private: private_dict(&base_spec()), subrs: bias_subrs(nlocal, 1), subrs_off_size: los }],
        gsubrs: bias_subrs(nglobal, -1),
        gsubrs_off_size: gos,
        charstrings: cs.iter().map(|c| c.1.clone()).collect(),
        cid: None,
        top_extra,
        fd_extra: vec![],
    };
    ExtraFont {
        name: format!("subrs local {nlocal} global {nglobal}"),
        bytes: sfnt(upem, cs.len(), cff_table_ex(&spec)),
        classes: cs.into_iter().map(|c| c.0).collect(),
        in_quick: true,
    }
}

fn subr_feature_font() -> ExtraFont {
    let call = |i: i32| B::new().n(&[i - 107]).op(CALLSUBR);
    let gcall = |i: i32| B::new().n(&[i - 107]).op(CALLGSUBR);
    let mut local: Vec<Vec<u8>> = vec![];
    let mut global: Vec<Vec<u8>> = vec![];
    local.push(B::new().n(&[10, 20]).op(RLINETO).op(RETURN).0); // 0
    global.push(B::new().n(&[-10, 20]).op(RLINETO).op(RETURN).0);
    for j in 1..=10 {
        local.push(call(j + 1).op(RETURN).0); // 1..=10: chain
        // the global chain alternates between global and local subroutines
        global.push(if j % 2 == 0 { gcall(j + 1).op(RETURN).0 } else { call(j + 1).op(RETURN).0 });
    }
    local.push(B::new().n(&[15, 25]).op(RLINETO).op(RETURN).0); // 11
    global.push(B::new().n(&[-15, 25]).op(RLINETO).op(RETURN).0);
    local.push(B::new().n(&[30, 40]).op(RLINETO).op(ENDCHAR).0); // 12 endchar in subr
    global.push(call(0).op(RETURN).0); // g12 calls local 0
    local.push(B::new().n(&[0, 50]).op(HSTEM).n(&[100, 80]).op(VSTEM).op(RETURN).0); // 13 hints (takes width)
    local.push(B::new().n(&[0, 50]).op(HSTEMHM).n(&[100, 80]).op(HINTMASK).op(&[0xC0]).op(RETURN).0); // 14
    local.push(B::new().n(&[50, 60]).op(RETURN).0); // 15 leaves operands
    local.push(B::new().op(RLINETO).op(RETURN).0); // 16 consumes the caller's operands
    local.push(B::new().n(&[12, 34]).op(RLINETO).0); // 17 no return
    local.push(gcall(0).op(RETURN).0); // 18 calls global 0
    local.push(B::new().op(HINTMASK).op(&[0x40]).n(&[5, 5]).op(RLINETO).op(RETURN).0); // 19 switches hints mid-path
    local.push(vec![]); // 20 empty
    let p = |b: B| B(pre().0.into_iter().chain(b.0).collect());
    let mut cs: Vec<(String, Vec<u8>)> = vec![("empty".into(), ENDCHAR.to_vec())];
    cs.push(("callsubr".into(), p(call(0)).tail()));
    cs.push(("callsubr".into(), p(call(0)).n(&[1, 2]).op(RLINETO).0.into_iter().chain(call(11).tail()).collect()));
    cs.push(("callgsubr".into(), p(gcall(0)).tail()));
    for (depth, j) in [(9, 3), (10, 2), (11, 1)] {
        if depth == 11 && !ENABLE_NEST_11 {
            continue;
        }
        cs.push((format!("subr nesting depth {depth}"), p(call(j)).tail()));
        cs.push((format!("subr nesting depth {depth} (mixed global/local)"), p(gcall(j)).tail()));
    }
    cs.push(("endchar in subr".into(), p(call(12)).0));
    for w in [None, Some(77)] {
        let wb = match w {
            None => B::new(),
            Some(w) => B::new().n(&[w]),
        };
        cs.push(("hints in subr".into(), wb.n(&[13 - 107]).op(CALLSUBR).n(&[100, 0]).op(RMOVETO).bar(50).tail()));
    }
    cs.push(("hintmask in subr".into(), call(14).n(&[100, 0]).op(RMOVETO).bar(50).tail()));
    cs.push((
        "hintmask in subr".into(),
        call(14).n(&[100, 0]).op(RMOVETO).bar(50).n(&[19 - 107]).op(CALLSUBR).tail(),
    ));
    cs.push(("operands from subr".into(), p(call(15)).op(RLINETO).tail()));
    cs.push(("operands to subr".into(), p(B::new().n(&[50, 60, 16 - 107]).op(CALLSUBR)).tail()));
    cs.push(("subr without return".into(), p(call(17)).tail()));
    cs.push(("subr calls gsubr".into(), p(call(18)).tail()));
    cs.push(("empty subr".into(), p(call(20)).tail()));
    cs.push(("gsubr calls subr".into(), p(gcall(12)).tail()));
    let spec = CffSpec {
        fds: vec![FdSpec { private: private_dict(&base_spec()), subrs: local, subrs_off_size: 1 }],
        gsubrs: global,
        gsubrs_off_size: 1,
        charstrings: cs.iter().map(|c| c.1.clone()).collect(),
        cid: None,
        top_extra: vec![],
        fd_extra: vec![],
    };
    ExtraFont {
        name: "subr features".into(),
        bytes: sfnt(1000, cs.len(), cff_table_ex(&spec)),
        classes: cs.into_iter().map(|c| c.0).collect(),
        in_quick: true,
    }
}

fn font_matrix(m: [&str; 6]) -> Vec<u8> {
    let mut o = vec![];
    for t in m {
        o.extend(dict_real(t));
    }
    o.extend_from_slice(&[12, 7]);
    o
}

fn cid_font(format3: bool, upem: u16, matrix: Option<[&str; 6]>, fd_matrix: Option<[&str; 6]>) -> ExtraFont {
    // three Font DICTs: different blues / StdHW and different local Subrs counts (bias 107, bias 1131, none)
    let mut s1 = base_spec();
    s1.blue_values = Some(vec![-20, 0, 480, 500]);
    s1.std_hw = Some(1);
    let mut s2 = base_spec();
    s2.blue_values = None;
    s2.other_blues = None;
    s2.language_group = Some(1);
    let sub = |count: usize, f: i32| -> Vec<Vec<u8>> {
        (0..count).map(|i| B::new().n(&[10 + 7 * f + (i % 5) as i32, 20 + f]).op(RLINETO).op(RETURN).0).collect()
    };
    let counts = [3usize, 1240, 0];
    let fds = vec![
        FdSpec { private: private_dict(&base_spec()), subrs: sub(3, 0), subrs_off_size: 1 },
        FdSpec { private: private_dict(&s1), subrs: sub(1240, 1), subrs_off_size: 2 },
        FdSpec { private: private_dict(&s2), subrs: vec![], subrs_off_size: 1 },
    ];
    // glyph ranges: FD 0: 0..=9, FD 1: 10..=19, FD 2: 20..=27, FD 0: 28..=35, FD 2: 36
    let ranges: Vec<(u16, u8)> = vec![(0, 0), (10, 1), (20, 2), (28, 0), (36, 2)];
    let n = 37usize;
    let fd_of = |g: usize| ranges.iter().rev().find(|r| r.0 as usize <= g).unwrap().1;
    let mut cs: Vec<(String, Vec<u8>)> = vec![("empty".into(), ENDCHAR.to_vec())];
    for g in 1..n {
        let fd = fd_of(g) as usize;
        let k = g % 4;
        let c = if k < 2 {
            let y0 = [499, 500, 512, -12][(g / 2) % 4];
            let c = B::new().n(&[y0, 50]).op(HSTEM).n(&[100, 80]).op(VSTEM).n(&[100, y0]).op(RMOVETO).bar(50).tail();
            (format!("CID FD {fd} horizontal stem"), c)
        } else if counts[fd] > 0 {
            let idx = if k == 2 { 0 } else { counts[fd] - 1 };
            (format!("CID FD {fd} callsubr"), pre().n(&[idx as i32 - bias(counts[fd])]).op(CALLSUBR).tail())
        } else {
            (format!("CID FD {fd} callgsubr"), pre().n(&[(k as i32 - 2) - 107]).op(CALLGSUBR).tail())
        };
        cs.push(c);
    }
    let cid = if format3 {
        FdSelect::Format3(ranges.clone())
    } else {
        FdSelect::Format0((0..n).map(|g| fd_of(g)).collect())
    };
    let spec = CffSpec {
        fds,
        gsubrs: sub(2, 5),
        gsubrs_off_size: 1,
        charstrings: cs.iter().map(|c| c.1.clone()).collect(),
        cid: Some(cid),
        top_extra: matrix.map(font_matrix).unwrap_or_default(),
        fd_extra: fd_matrix.map(font_matrix).unwrap_or_default(),
    };
    ExtraFont {
        name: format!(
            "CID FDSelect format {}{}{}",
            if format3 { 3 } else { 0 },
            matrix.map(|m| format!(" FontMatrix {} upem {upem}", m[0])).unwrap_or_default(),
            fd_matrix.map(|m| format!(" FD FontMatrix {} upem {upem}", m[0])).unwrap_or_default()
        ),
        bytes: sfnt(upem, cs.len(), cff_table_ex(&spec)),
        classes: cs.into_iter().map(|c| c.0).collect(),
        in_quick: true,
    }
}

pub fn extra_fonts() -> Vec<ExtraFont> {
    let mut out = vec![];
    // operator / number / width / mask classes under three Private DICTs
    let ops = ops_charstrings();
    let programs: Vec<Vec<u8>> = ops.iter().map(|c| c.1.clone()).collect();
    let classes: Vec<String> = ops.iter().map(|c| c.0.clone()).collect();
    let mut lg1 = base_spec();
    lg1.language_group = Some(1);
    let mut wd = base_spec();
    wd.widths = Some((450, 300));
    for (name, spec) in [("ops base", base_spec()), ("ops LanguageGroup 1", lg1), ("ops nominalWidthX 300 defaultWidthX 450", wd)] {
        out.push(ExtraFont {
            name: name.into(),
            bytes: build_font(&spec, &programs),
            classes: classes.clone(),
            in_quick: true,
        });
    }
    out.push(subr_feature_font());
    out.push(bias_font(1239, 1240, 2, 3));
    out.push(bias_font(1240, 1239, 3, 2));
    out.push(bias_font(33899, 33900, 2, 4));
    out.push(bias_font(33900, 33899, 3, 2));
    out.push(cid_font(false, 1000, None, None));
    out.push(cid_font(true, 1000, None, None));
    if ENABLE_FONT_MATRIX {
        let m = |s: &'static str| [s, "0", "0", s, "0", "0"];
        out.push(cid_font(true, 2000, Some(m("0.0005")), None));
        out.push(cid_font(true, 2000, None, Some(m("0.0005"))));
        out.push(cid_font(false, 2048, Some(m("0.00048828125")), None));
        out.push(cid_font(false, 1000, Some(m("0.001")), Some(m("1"))));
        let mut f = bias_font_ex(5, 5, 1, 1, 2000, font_matrix(m("0.0005")));
        f.name = "FontMatrix 0.0005 upem 2000".into();
        out.push(f);
        let mut f = bias_font_ex(5, 5, 1, 1, 1000, font_matrix(m("0.001")));
        f.name = "FontMatrix 0.001 upem 1000".into();
        out.push(f);
    }
    // unitsPerEm other than 1000 (no FontMatrix: FreeType then takes head.unitsPerEm for an sfnt-wrapped CFF)
    let base = charstrings();
    let sel: Vec<(String, Vec<u8>)> = base.iter().enumerate().filter(|(i, _)| *i == 0 || i % 5 == 1).map(|(_, c)| c.clone()).collect();
    // LanguageGroup 1 em-box hints: two zones, first entirely below ICF_BOTTOM (-120), second entirely above
    // ICF_TOP (880); each of the four values on either side of its threshold
    let mut embox = sel.clone();
    for y0 in [-140, -121, -120, -119, 0, 400, 860, 879, 880, 881] {
        for h in [20, 50] {
            let c = B::new().n(&[y0, h]).op(HSTEM).n(&[100, 80]).op(VSTEM).n(&[100, y0]).op(RMOVETO).bar(h).tail();
            embox.push(("stem at em-box edge".into(), c));
        }
    }
    for (lg, blues) in [
        (1, [-130, -121, 881, 890]),
        (1, [-130, -120, 881, 890]),
        (1, [-120, -121, 881, 890]),
        (1, [-130, -121, 880, 890]),
        (1, [-130, -121, 881, 880]),
        (0, [-130, -121, 881, 890]),
    ] {
        // first pair bottom > top: FreeType rejects the pair and keeps treating the NEXT pair as a top zone
        // (psblues.c tests the BlueValues index `i == 0`); skrifa's hint.rs build_zones tests the index among
        // the accepted zones (`zone_ix == 0`) and makes the next pair the bottom zone
        let first_inverted = blues[0] > blues[1];
        if first_inverted && !ENABLE_FIRST_ZONE_INVERTED {
            continue;
        }
        let mut sp = base_spec();
        sp.language_group = Some(lg);
        sp.blue_values = Some(blues.to_vec());
        sp.other_blues = None;
        let programs: Vec<Vec<u8>> = embox.iter().map(|c| c.1.clone()).collect();
        out.push(ExtraFont {
            name: format!("em box LanguageGroup {lg} BlueValues {blues:?}"),
            bytes: build_font(&sp, &programs),
            classes: embox
                .iter()
                .map(|c| if first_inverted { format!("{} (first BlueValues pair inverted)", c.0) } else { c.0.clone() })
                .collect(),
            in_quick: true,
        });
    }
    for upem in [2048u16, 250] {
        let programs: Vec<Vec<u8>> = sel.iter().map(|c| c.1.clone()).collect();
        out.push(ExtraFont {
            name: format!("unitsPerEm {upem}"),
            bytes: sfnt(upem, programs.len(), cff_table(&base_spec(), &programs)),
            classes: sel.iter().map(|c| c.0.clone()).collect(),
            in_quick: true,
        });
    }
    out
}
