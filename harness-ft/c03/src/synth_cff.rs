//! Synthetic CFF family for C03: a hand-assembled minimal CFF table inside an `OTTO` font (FontBuilder),
//! one font per Private DICT variant (hint parameters at boundary values), every font with the same
//! charstrings: stems at blue-zone boundary positions, edge (ghost) hints, zero-width and overlapping
//! stems with hintmask, cntrmask, the four flex operators, and round shapes with over/undershoot around the
//! blue zones. Compared with FreeType in the 5 hinted modes (FreeType's CFF hinter / skrifa's port) and
//! unhinted, over the ppem grid. The glyph class is part of the violation identity.

use font_types::Tag;
use write_fonts::FontBuilder;

/// Type 2 charstring number
fn num(v: i32) -> Vec<u8> {
    if (-107..=107).contains(&v) {
        vec![(v + 139) as u8]
    } else if (108..=1131).contains(&v) {
        let w = v - 108;
        vec![(w >> 8) as u8 + 247, (w & 0xFF) as u8]
    } else if (-1131..=-108).contains(&v) {
        let w = -v - 108;
        vec![(w >> 8) as u8 + 251, (w & 0xFF) as u8]
    } else {
        let mut o = vec![28];
        o.extend_from_slice(&(v as i16).to_be_bytes());
        o
    }
}

fn cs(parts: &[(&[i32], &[u8])]) -> Vec<u8> {
    let mut o = vec![];
    for (nums, op) in parts {
        for n in *nums {
            o.extend(num(*n));
        }
        o.extend_from_slice(op);
    }
    o
}

const HSTEM: &[u8] = &[1];
const VSTEM: &[u8] = &[3];
const RLINETO: &[u8] = &[5];
const HLINETO: &[u8] = &[6];
const VLINETO: &[u8] = &[7];
const RRCURVETO: &[u8] = &[8];
const ENDCHAR: &[u8] = &[14];
const HSTEMHM: &[u8] = &[18];
const RMOVETO: &[u8] = &[21];
const FLEX: &[u8] = &[12, 35];
const HFLEX: &[u8] = &[12, 34];
const HFLEX1: &[u8] = &[12, 36];
const FLEX1: &[u8] = &[12, 37];

const Y_ALPHABET: [i32; 16] = [-13, -12, -11, -1, 0, 1, 250, 499, 500, 501, 511, 512, 513, 699, 700, 712];

/// (class, charstring); glyph 0 (.notdef) is `endchar`
pub fn charstrings() -> Vec<(String, Vec<u8>)> {
    let mut out: Vec<(String, Vec<u8>)> = vec![("empty".into(), ENDCHAR.to_vec())];
    // A horizontal bars: hstem at every boundary position × stem height
    for y0 in Y_ALPHABET {
        for h in [0, 1, 20, 50, 51, 100] {
            out.push((
                "horizontal stem".into(),
                cs(&[
                    (&[y0, h], HSTEM),
                    (&[100, 300], VSTEM),
                    (&[100, y0], RMOVETO),
                    (&[300], HLINETO),
                    (&[h], VLINETO),
                    (&[-300], HLINETO),
                    (&[], ENDCHAR),
                ]),
            ));
        }
    }
    // A' stems whose top (bottom) edge lies BlueShift ± 2 units inside a top (bottom) zone: the
    // "at least one pixel of overshoot" rule switches exactly at BlueShift (default 7)
    for t in [505, 506, 507, 508, 509, 705, 706, 707, 708, 709] {
        out.push((
            "stem edge at BlueShift".into(),
            cs(&[
                (&[t - 50, 50], HSTEM),
                (&[100, t - 50], RMOVETO),
                (&[300], HLINETO),
                (&[50], VLINETO),
                (&[-300], HLINETO),
                (&[], ENDCHAR),
            ]),
        ));
    }
    for b in [-9, -8, -7, -6, -5] {
        out.push((
            "stem edge at BlueShift".into(),
            cs(&[
                (&[b, 50], HSTEM),
                (&[100, b], RMOVETO),
                (&[300], HLINETO),
                (&[50], VLINETO),
                (&[-300], HLINETO),
                (&[], ENDCHAR),
            ]),
        ));
    }
    // B edge (ghost) hints −20 / −21 on a 40-unit bar
    for y in Y_ALPHABET {
        for (pos, w) in [(y + 40, -20), (y + 21, -21), (y, -20), (y, -21)] {
            out.push((
                "edge hint".into(),
                cs(&[
                    (&[pos, w], HSTEM),
                    (&[100, y], RMOVETO),
                    (&[300], HLINETO),
                    (&[40], VLINETO),
                    (&[-300], HLINETO),
                    (&[], ENDCHAR),
                ]),
            ));
        }
    }
    // C vertical stems
    for x in [0, 1, 99, 100] {
        for w in [0, 1, 79, 80, 81, 200] {
            out.push((
                "vertical stem".into(),
                cs(&[
                    (&[0, 700], HSTEM),
                    (&[x, w], VSTEM),
                    (&[x, 0], RMOVETO),
                    (&[w], HLINETO),
                    (&[700], VLINETO),
                    (&[-w], HLINETO),
                    (&[], ENDCHAR),
                ]),
            ));
        }
    }
    // D two (possibly overlapping / zero-width) stems selected by hintmask
    for (y1, h1) in [(20, 50), (50, 50), (49, 2), (0, 50), (25, 0), (120, 30)] {
        for mask in [0x80u8, 0x40, 0xC0] {
            let mut c = cs(&[(&[0, 50, y1 - 50, h1], HSTEMHM)]);
            c.extend_from_slice(&[19, mask]);
            c.extend(cs(&[
                (&[100, 0], RMOVETO),
                (&[300], HLINETO),
                (&[50], VLINETO),
                (&[-300], HLINETO),
            ]));
            c.extend_from_slice(&[19, mask ^ 0xC0 | 0x40]);
            c.extend(cs(&[
                (&[0, y1 - 50], RMOVETO),
                (&[300], HLINETO),
                (&[h1], VLINETO),
                (&[-300], HLINETO),
                (&[], ENDCHAR),
            ]));
            out.push(("overlapping stems with hintmask".into(), c));
        }
    }
    // E three stems with a counter mask
    for y in [199, 200, 201, 225] {
        let mut c = cs(&[(&[0, 50, y - 50, 50, 400 - y - 50, 50], HSTEMHM)]);
        c.extend_from_slice(&[20, 0xE0]);
        for (dy, first) in [(0, true), (y, false), (400 - y, false)] {
            let _ = first;
            c.extend(cs(&[
                (&[if dy == 0 { 100 } else { 0 }, if dy == 0 { 0 } else { dy - 50 }], RMOVETO),
                (&[300], HLINETO),
                (&[50], VLINETO),
                (&[-300], HLINETO),
            ]));
        }
        c.extend_from_slice(ENDCHAR);
        out.push(("cntrmask".into(), c));
    }
    // F flex operators on the baseline and on a blue zone
    for base in [0, 500] {
        for fh in [0, 1, -1, 10, 50] {
            let variants: [(&str, Vec<i32>, &[u8]); 4] = [
                ("flex", vec![50, 0, 50, fh, 50, 0, 50, 0, 50, -fh, 50, 0, 50], FLEX),
                ("hflex", vec![50, 50, fh, 50, 50, 50, 50], HFLEX),
                ("hflex1", vec![50, 0, 50, fh, 50, 50, 50, -fh, 50], HFLEX1),
                ("flex1", vec![50, 0, 50, fh, 50, 0, 50, 0, 50, -fh, 50], FLEX1),
            ];
            for (name, args, op) in variants {
                let mut c = cs(&[(&[base, 100], HSTEM), (&[100, base], RMOVETO)]);
                c.extend(cs(&[(&args, op)]));
                c.extend(cs(&[(&[100], VLINETO), (&[-300], HLINETO), (&[], ENDCHAR)]));
                out.push((name.into(), c));
            }
        }
    }
    // F' flex operand sub-family. Every flex here is followed by two more relative segments, so a wrong
    // flex end point shifts the rest of the path.
    let tail: [(&[i32], &[u8]); 3] = [(&[37, 23], RLINETO), (&[-19, 45], RLINETO), (&[], ENDCHAR)];
    // flex1: the last operand is dx or dy depending on whether |dx| > |dy| accumulated over the first
    // five points (a tie counts as "dy"): sums on both sides of, and exactly on, the tie in all four
    // sign combinations, on the axes and at zero; last operand of either sign
    for (sx, sy) in [
        (250, 100),
        (100, 250),
        (200, 200),
        (200, -200),
        (-200, 200),
        (-200, -200),
        (0, 200),
        (200, 0),
        (0, 0),
        (210, 200),
        (200, 210),
        (-190, 200),
    ] {
        for d6 in [50, -50] {
            // the five deltas: weights 3,2,0,2,3 (x) and 1,3,2,3,1 (y), in tenths of the sum
            let dx: Vec<i32> = [3, 2, 0, 2, 3].iter().map(|w| sx * w / 10).collect();
            let dy: Vec<i32> = [1, 3, 2, 3, 1].iter().map(|w| sy * w / 10).collect();
            let mut args = vec![];
            for i in 0..5 {
                args.push(dx[i]);
                args.push(dy[i]);
            }
            args.push(d6);
            let mut c = cs(&[(&[300, 250], RMOVETO), (&args, FLEX1)]);
            c.extend(cs(&tail));
            out.push(("flex1 by accumulated direction".into(), c));
        }
    }
    // flex: flex depth operand around 50 (hundredths of a device pixel) × flex height, on the baseline
    // and on a blue zone
    for base in [0, 500] {
        for fd in [0, 1, 49, 50, 51, 100] {
            for fh in [0, 1, 2, 5] {
                let args = vec![50, 0, 50, fh, 50, 0, 50, 0, 50, -fh, 50, 0, fd];
                let mut c = cs(&[(&[base, 100], HSTEM), (&[100, base], RMOVETO), (&args, FLEX)]);
                c.extend(cs(&tail));
                out.push(("flex depth".into(), c));
            }
        }
    }
    // hflex / hflex1 operand alphabets
    for base in [0, 500] {
        for dy2 in [0, 1, -1, 20, -20] {
            let mut c = cs(&[
                (&[base, 100], HSTEM),
                (&[100, base], RMOVETO),
                (&[50, 50, dy2, 50, 50, 50, 50], HFLEX),
            ]);
            c.extend(cs(&tail));
            out.push(("hflex operands".into(), c));
        }
        for (dy1, dy2, dy5) in [(0, 20, -20), (10, 10, -20), (-10, 30, -20), (5, 5, 5), (0, 0, 0)] {
            let mut c = cs(&[
                (&[base, 100], HSTEM),
                (&[100, base], RMOVETO),
                (&[50, dy1, 50, dy2, 50, 50, 50, dy5, 50], HFLEX1),
            ]);
            c.extend(cs(&tail));
            out.push(("hflex1 operands".into(), c));
        }
    }
    // G round shapes with undershoot b and overshoot t
    for b in [-13, -12, -6, -1, 0, 1] {
        for t in [499, 500, 506, 512, 513] {
            let hh = (t - b) / 2;
            let rest = (t - b) - hh;
            out.push((
                "round shape across blue zones".into(),
                cs(&[
                    (&[b, 30, t - b - 60, 30], HSTEM),
                    (&[300, b], RMOVETO),
                    (&[110, 0, 90, 90, 0, hh - 90], RRCURVETO),
                    (&[0, rest - 90, -90, 90, -110, 0], RRCURVETO),
                    (&[-110, 0, -90, -90, 0, -(rest - 90)], RRCURVETO),
                    (&[0, -(hh - 90), 90, -90, 110, 0], RRCURVETO),
                    (&[], ENDCHAR),
                ]),
            ));
        }
    }
    out
}

// ---- DICT encoding ---------------------------------------------------------------------------------

fn dict_int5(v: i32) -> Vec<u8> {
    let mut o = vec![29];
    o.extend_from_slice(&v.to_be_bytes());
    o
}

fn dict_int(v: i32) -> Vec<u8> {
    if (-107..=107).contains(&v) {
        vec![(v + 139) as u8]
    } else {
        dict_int5(v)
    }
}

/// DICT real number from its decimal text (digits, '.', '-')
fn dict_real(text: &str) -> Vec<u8> {
    let mut nibbles: Vec<u8> = vec![];
    for ch in text.chars() {
        nibbles.push(match ch {
            '0'..='9' => ch as u8 - b'0',
            '.' => 0xA,
            '-' => 0xE,
            _ => panic!("bad real"),
        });
    }
    nibbles.push(0xF);
    if nibbles.len() % 2 == 1 {
        nibbles.push(0xF);
    }
    let mut o = vec![30];
    for p in nibbles.chunks(2) {
        o.push((p[0] << 4) | p[1]);
    }
    o
}

fn delta_array(vals: &[i32]) -> Vec<u8> {
    let mut o = vec![];
    let mut prev = 0;
    for v in vals {
        o.extend(dict_int(*v - prev));
        prev = *v;
    }
    o
}

#[derive(Clone, Debug)]
pub struct PrivateSpec {
    pub name: &'static str,
    pub blue_values: Option<Vec<i32>>,
    pub other_blues: Option<Vec<i32>>,
    pub family_blues: Option<Vec<i32>>,
    pub family_other_blues: Option<Vec<i32>>,
    pub blue_scale: Option<&'static str>,
    pub blue_shift: Option<i32>,
    pub blue_fuzz: Option<i32>,
    pub std_hw: Option<i32>,
    pub std_vw: Option<i32>,
    pub force_bold: Option<i32>,
    pub language_group: Option<i32>,
}

fn base_spec() -> PrivateSpec {
    PrivateSpec {
        name: "base",
        blue_values: Some(vec![-12, 0, 500, 512, 700, 712]),
        other_blues: Some(vec![-217, -205]),
        family_blues: None,
        family_other_blues: None,
        blue_scale: None,
        blue_shift: None,
        blue_fuzz: None,
        std_hw: Some(50),
        std_vw: Some(80),
        force_bold: None,
        language_group: None,
    }
}

pub fn private_specs() -> Vec<PrivateSpec> {
    let b = base_spec;
    let mut v = vec![b()];
    let mut add = |name: &'static str, f: &dyn Fn(&mut PrivateSpec)| {
        let mut s = b();
        s.name = name;
        f(&mut s);
        v.push(s);
    };
    add("BlueScale 0.0625", &|s| s.blue_scale = Some("0.0625"));
    add("BlueScale 0.5", &|s| s.blue_scale = Some("0.5"));
    add("BlueScale 0.001", &|s| s.blue_scale = Some("0.001"));
    add("BlueScale 0", &|s| s.blue_scale = Some("0"));
    add("BlueShift 0", &|s| s.blue_shift = Some(0));
    add("BlueShift 100", &|s| s.blue_shift = Some(100));
    add("BlueFuzz 0", &|s| s.blue_fuzz = Some(0));
    add("BlueFuzz 10", &|s| s.blue_fuzz = Some(10));
    add("FamilyBlues equal", &|s| s.family_blues = s.blue_values.clone());
    add("FamilyBlues +1", &|s| s.family_blues = Some(vec![-11, 1, 501, 513, 701, 713]));
    add("FamilyBlues far", &|s| s.family_blues = Some(vec![-30, -18, 480, 492, 680, 692]));
    add("FamilyOtherBlues equal", &|s| s.family_other_blues = s.other_blues.clone());
    add("FamilyOtherBlues +1", &|s| s.family_other_blues = Some(vec![-216, -204]));
    add("FamilyOtherBlues near baseline", &|s| {
        s.family_other_blues = Some(vec![-205, -193]);
        s.family_blues = s.blue_values.clone();
        s.blue_scale = Some("0.0625");
    });
    add("Family both +3", &|s| {
        s.family_blues = Some(vec![-9, 3, 503, 515, 703, 715]);
        s.family_other_blues = Some(vec![-214, -202]);
    });
    add("StdHW 0", &|s| s.std_hw = Some(0));
    add("StdHW 1", &|s| s.std_hw = Some(1));
    add("StdHW 500", &|s| s.std_hw = Some(500));
    add("StdVW 0", &|s| s.std_vw = Some(0));
    add("StdVW 1", &|s| s.std_vw = Some(1));
    add("StdVW 500", &|s| s.std_vw = Some(500));
    add("ForceBold 1", &|s| s.force_bold = Some(1));
    add("LanguageGroup 1", &|s| s.language_group = Some(1));
    add("no BlueValues", &|s| {
        s.blue_values = None;
        s.other_blues = None;
    });
    add("no blues, LanguageGroup 1", &|s| {
        s.blue_values = None;
        s.other_blues = None;
        s.language_group = Some(1);
    });
    add("odd BlueValues", &|s| s.blue_values = Some(vec![-12, 0, 500]));
    add("overlapping zones", &|s| s.blue_values = Some(vec![-12, 0, -5, 10, 500, 512]));
    add("seven zones", &|s| {
        s.blue_values = Some(vec![-12, 0, 100, 105, 200, 205, 300, 305, 400, 405, 500, 512, 700, 712])
    });
    add("no OtherBlues", &|s| s.other_blues = None);
    v
}

fn private_dict(s: &PrivateSpec) -> Vec<u8> {
    let mut o = vec![];
    let mut arr = |vals: &Option<Vec<i32>>, op: &[u8], o: &mut Vec<u8>| {
        if let Some(v) = vals {
            o.extend(delta_array(v));
            o.extend_from_slice(op);
        }
    };
    arr(&s.blue_values, &[6], &mut o);
    arr(&s.other_blues, &[7], &mut o);
    arr(&s.family_blues, &[8], &mut o);
    arr(&s.family_other_blues, &[9], &mut o);
    if let Some(t) = s.blue_scale {
        o.extend(dict_real(t));
        o.extend_from_slice(&[12, 9]);
    }
    let mut int = |v: Option<i32>, op: &[u8], o: &mut Vec<u8>| {
        if let Some(v) = v {
            o.extend(dict_int(v));
            o.extend_from_slice(op);
        }
    };
    int(s.blue_shift, &[12, 10], &mut o);
    int(s.blue_fuzz, &[12, 11], &mut o);
    int(s.std_hw, &[10], &mut o);
    int(s.std_vw, &[11], &mut o);
    int(s.force_bold, &[12, 14], &mut o);
    int(s.language_group, &[12, 17], &mut o);
    // defaultWidthX 600 (charstrings carry no width)
    o.extend(dict_int(600));
    o.push(20);
    o
}

fn index(items: &[Vec<u8>]) -> Vec<u8> {
    let mut o = vec![];
    o.extend_from_slice(&(items.len() as u16).to_be_bytes());
    if items.is_empty() {
        return o;
    }
    o.push(4);
    let mut off = 1u32;
    o.extend_from_slice(&off.to_be_bytes());
    for it in items {
        off += it.len() as u32;
        o.extend_from_slice(&off.to_be_bytes());
    }
    for it in items {
        o.extend_from_slice(it);
    }
    o
}

pub fn cff_table(spec: &PrivateSpec, charstrings: &[Vec<u8>]) -> Vec<u8> {
    let n = charstrings.len();
    let header = vec![1u8, 0, 4, 4];
    let name = index(&[b"SynthCFF".to_vec()]);
    let strings = index(&[]);
    let gsubrs = index(&[]);
    // charset format 2: one range covering glyphs 1..n-1 with SIDs 1..
    let mut charset = vec![2u8];
    charset.extend_from_slice(&1u16.to_be_bytes());
    charset.extend_from_slice(&((n - 2) as u16).to_be_bytes());
    let private = private_dict(spec);
    // Top DICT: FontBBox(5) charset(15) CharStrings(17) Private(18); all offsets as 5-byte ints
    let top_len = (4 * 5 + 1) + (5 + 1) + (5 + 1) + (5 + 5 + 1);
    let top_index_len = 2 + 1 + 8 + top_len;
    let charset_off = header.len() + name.len() + top_index_len + strings.len() + gsubrs.len();
    let private_off = charset_off + charset.len();
    let charstrings_off = private_off + private.len();
    let mut top = vec![];
    for v in [-100, -300, 1100, 1100] {
        top.extend(dict_int5(v));
    }
    top.push(5);
    top.extend(dict_int5(charset_off as i32));
    top.push(15);
    top.extend(dict_int5(charstrings_off as i32));
    top.push(17);
    top.extend(dict_int5(private.len() as i32));
    top.extend(dict_int5(private_off as i32));
    top.push(18);
    assert_eq!(top.len(), top_len);
    let top_index = index(&[top]);
    assert_eq!(top_index.len(), top_index_len);
    let cs_index = index(charstrings);
    [header, name, top_index, strings, gsubrs, charset, private, cs_index].concat()
}

pub fn build_font(spec: &PrivateSpec, charstrings: &[Vec<u8>]) -> Vec<u8> {
    let n = charstrings.len();
    let mut head = vec![];
    head.extend_from_slice(&0x0001_0000u32.to_be_bytes());
    head.extend_from_slice(&0x0001_0000u32.to_be_bytes());
    head.extend_from_slice(&0u32.to_be_bytes());
    head.extend_from_slice(&0x5F0F_3CF5u32.to_be_bytes());
    head.extend_from_slice(&0x0003u16.to_be_bytes());
    head.extend_from_slice(&1000u16.to_be_bytes());
    head.extend_from_slice(&[0; 16]);
    for v in [-100i16, -300, 1100, 1100] {
        head.extend_from_slice(&v.to_be_bytes());
    }
    head.extend_from_slice(&[0, 0, 0, 6, 0, 2, 0, 0, 0, 0]);
    let mut hhea = vec![];
    hhea.extend_from_slice(&0x0001_0000u32.to_be_bytes());
    hhea.extend_from_slice(&800i16.to_be_bytes());
    hhea.extend_from_slice(&(-200i16).to_be_bytes());
    hhea.extend_from_slice(&0i16.to_be_bytes());
    hhea.extend_from_slice(&600u16.to_be_bytes());
    hhea.extend_from_slice(&[0; 6]);
    hhea.extend_from_slice(&1i16.to_be_bytes());
    hhea.extend_from_slice(&[0; 2 + 2 + 8]);
    hhea.extend_from_slice(&0i16.to_be_bytes());
    hhea.extend_from_slice(&(n as u16).to_be_bytes());
    let mut maxp = vec![0, 0, 0x50, 0];
    maxp.extend_from_slice(&(n as u16).to_be_bytes());
    let mut hmtx = vec![];
    for _ in 0..n {
        hmtx.extend_from_slice(&600u16.to_be_bytes());
        hmtx.extend_from_slice(&0i16.to_be_bytes());
    }
    let mut fb = FontBuilder::new();
    fb.add_raw(Tag::new(b"head"), head);
    fb.add_raw(Tag::new(b"hhea"), hhea);
    fb.add_raw(Tag::new(b"maxp"), maxp);
    fb.add_raw(Tag::new(b"hmtx"), hmtx);
    fb.add_raw(Tag::new(b"CFF "), cff_table(spec, charstrings));
    let mut bytes = fb.build();
    // FontBuilder always writes the TrueType sfnt version; FreeType selects its CFF driver by the
    // 'OTTO' tag (skrifa does not care). Checksums are not verified by either engine.
    bytes[0..4].copy_from_slice(b"OTTO");
    bytes
}

pub fn describe() -> String {
    let cs = charstrings();
    let mut counts: std::collections::BTreeMap<String, usize> = Default::default();
    for (c, _) in &cs {
        *counts.entry(c.clone()).or_default() += 1;
    }
    format!(
        "one font per Private DICT variant {:?}; {} charstrings per font by class: {:?}",
        private_specs().iter().map(|s| s.name).collect::<Vec<_>>(),
        cs.len(),
        counts
    )
}
