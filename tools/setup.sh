#!/bin/bash
# Builds every registered check binary offline from files on disk (run once after a fresh restore).
set -e
ROOT="$(cd "$(dirname "$0")/.." && pwd)"
export CARGO_NET_OFFLINE=true
cd "$ROOT/harness"
for id in $(cat "$ROOT/tools/built.txt"); do
  lc="$(echo "$id" | tr 'A-Z' 'a-z')"
  case "$id" in
    C03) (cd "$ROOT/harness-ft" && CARGO_TARGET_DIR="$ROOT/target/ft" cargo build --offline --release -p c03) ;;
    C20) CARGO_TARGET_DIR="$ROOT/target" cargo build --offline --profile strict -p "$lc" ;;
    *)   CARGO_TARGET_DIR="$ROOT/target" cargo build --offline --release -p "$lc" ;;
  esac
done
if [ -f "$ROOT/shim/getrandom_shim.c" ]; then
  cc -shared -fPIC -O2 -o "$ROOT/shim/getrandom_shim.so" "$ROOT/shim/getrandom_shim.c"
fi
echo setup ok
