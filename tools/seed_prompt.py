#!/usr/bin/env python3
"""prints the prompt for a seeding sub-agent: tools/seed_prompt.py C05 1 [hint]"""
import json, sys
pid, n = sys.argv[1], sys.argv[2]
hint = sys.argv[3] if len(sys.argv) > 3 else ""
p = [json.loads(l) for l in open('/verif/properties.jsonl') if json.loads(l)['id'] == pid][0]
wt = f"/tmp/seed-{pid}-{n}"
print(f"""You are helping to evaluate a verification effort by seeding ONE realistic bug into a Rust code base.

Work ONLY inside the git worktree {wt} (a checkout of the open-source repository googlefonts/fontations: Rust crates for parsing, writing, subsetting and rendering OpenType fonts, plus incremental font transfer). Do not read or write anything under /verif or /repo. The sandbox is offline (use `--offline` with cargo). The machine is shared with other jobs, so builds may be slow; be patient and use `CARGO_TARGET_DIR={wt}/target` (the default) only.

THE PROPERTY that the code base is supposed to satisfy:
  Title: {p['title']}
  Statement: {p['statement']}
  Quantified over: {p['quantifier']['text']}
  Main code involved: {', '.join(p['anchors']['files'][:12])}

YOUR TASK: make a small change to the library source (not to tests, not to test data) that BREAKS this property while the code still compiles and the complete existing test suite still passes, and that needs something specific in order to manifest — a particular interleaving, a boundary value, a fault at a particular point, a multi-step sequence of operations, an unusual input, or two cooperating sites that each look fine alone — NOT something that ordinary use would expose at once. It should look like a mistake a maintainer could plausibly make in a refactor (off-by-one at a boundary, a dropped reset/clear, a swapped comparison, a missing checked/wrapping operation, a stale cache, a wrong sort key …), 1–15 changed lines, not blatant sabotage. {hint}

Steps:
 1. Read the relevant code and pick the change. Prefer a spot that the existing unit tests do not pin down.
 2. Apply it. Run the existing suite and confirm it passes completely:
      cd {wt} && cargo nextest run --workspace --no-fail-fast --offline 2>&1 | tail -15
    (expected: 1222 tests run: 1222 passed; if nextest is unavailable use `cargo test --workspace --offline`). If any test fails, choose a different change.
 3. Write a demonstration: a new integration test file or a tiny example program placed under {wt}/_seed/demo/ (it may be a small standalone cargo project with `[workspace]` in its Cargo.toml and path dependencies on the crates in {wt}; copy {wt}/Cargo.lock next to its Cargo.toml so it resolves offline) that FAILS with your change and PASSES without it. Verify both directions yourself (e.g. `git stash` / `git stash pop` on the library change, or `git diff > p.diff; git checkout -- <files>; run; git apply p.diff`).
 4. Deliverables, all under {wt}/_seed/ :
      patch.diff   — `git diff` of the library change only (must apply with `git apply` to a clean checkout of the same commit; do NOT include _seed/ in it)
      demo/        — the demonstration sources, plus demo/RUN.md with the exact command and the expected pass/fail output
      README.md    — which property it breaks and why, what exactly is needed for it to manifest, the test-suite result you observed (counts), and the demo results with and without the change
    Leave the library change APPLIED in the worktree when you finish. Do not git-commit.

Your final message: a 10-line summary (file/function changed, what it needs to manifest, suite result, demo result with/without).""")
