#!/opt/veriftools/pyvenv/bin/python
import json, jsonschema, glob, sys
jsonschema.validate(json.load(open('/verif/MANIFEST.json')), json.load(open('/root/.vp/MANIFEST.schema.json')))
es = json.load(open('/root/.vp/EVIDENCE.schema.json'))
for f in sorted(glob.glob('/verif/evidence/*.json')):
    jsonschema.validate(json.load(open(f)), es)
    print('ok', f)
print('manifest ok')
