#!/bin/bash
# Runs the repository's pinned test suite with the verification guard OFF (plain cargo, no RUSTFLAGS).
cd /repo
unset RUSTFLAGS
if [ -f /w/lib/nextest.toml ]; then
  cargo nextest run --workspace --no-fail-fast --tool-config-file pb:/w/lib/nextest.toml --profile pb --test-threads 8 --offline
else
  cargo nextest run --workspace --no-fail-fast --test-threads 8 --offline || cargo test --workspace --no-fail-fast --offline
fi
