#!/bin/bash
# tools/mutant_run.sh <repo-worktree> <Cxx> <quick|thorough|--replay file>
# Runs a check against a scratch copy/worktree of the repository instead of /repo (for trying
# property-breaking edits without touching /repo). The harness is copied into
# <worktree>/.verif/harness with every "/repo/" path dependency rewritten to the worktree; build output
# goes to <worktree>/.verif/target; evidence/replays go to <worktree>/.verif/{evidence,replays};
# known_findings.json is copied from /verif. Remove the worktree when done (it contains everything).
set -eu
WT="$(cd "$1" && pwd)"; id="$2"; shift 2
SRC="$(cd "$(dirname "$0")/.." && pwd)"
V="$WT/.verif"
mkdir -p "$V"
rsync -a --delete --exclude target "$SRC/harness" "$SRC/harness-ft" "$V/" 2>/dev/null || rsync -a --delete --exclude target "$SRC/harness" "$V/"
# restrict the copied workspace to the crates this check needs (other checks may be mid-edit)
lc="$(echo "$id" | tr 'A-Z' 'a-z')"
if [ -d "$V/harness/checks/$lc" ]; then
  mem="\"vcore\", \"checks/$lc\""
  for dep in $(grep -o 'path = "\.\./c[0-9]*"' "$V/harness/checks/$lc/Cargo.toml" | grep -o 'c[0-9]*'); do mem="$mem, \"checks/$dep\""; done
  sed -i "s#^members = .*#members = [$mem]#" "$V/harness/Cargo.toml"
fi
cp "$SRC/known_findings.json" "$V/"
cp "$SRC/check" "$V/check"
mkdir -p "$V/shim"; cp "$SRC"/shim/*.c "$V/shim/" 2>/dev/null || true
grep -rl --include=Cargo.toml --include=build.rs --include='*.rs' '/repo/' "$V/harness" "$V/harness-ft" 2>/dev/null | while read -r f; do
  sed -i "s#/repo/#$WT/#g" "$f"
done
export VERIF_REPO="$WT"
export VERIF_TARGET_DIR="$V/target"
exec "$V/check" "$id" "$@"
