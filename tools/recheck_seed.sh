#!/bin/bash
# tools/recheck_seed.sh <seed dir name under /verif/seeded, e.g. C17-1> <check ids...>
# Re-runs checks against a fresh scratch worktree of /repo HEAD with the stored seed patch applied and
# appends the result to seeded/<id>/meta.json ("rechecks"). Removes the worktree afterwards.
set -u
seed="$1"; shift
WT=/tmp/recheck-$seed
git -C /repo worktree remove --force "$WT" >/dev/null 2>&1
git -C /repo worktree add --detach "$WT" HEAD >/dev/null 2>&1 || exit 2
git -C "$WT" apply /verif/seeded/$seed/patch.diff || { echo "patch does not apply"; git -C /repo worktree remove --force "$WT"; exit 2; }
for c in "$@"; do
  o=$(/verif/tools/mutant_run.sh "$WT" "$c" quick 2>&1); e=$?
  v=$(echo "$o" | grep -c '^VIOLATION'); first=$(echo "$o" | grep -A1 '^VIOLATION' | sed -n 2p | cut -c1-200)
  echo "recheck $seed: check $c quick exit=$e violation_lines=$v :: $first" | tee -a /verif/seeded/$seed/confirm.log
  python3 - "$seed" "$c" "$e" "$v" "$(git -C /repo rev-parse --short HEAD)" "$(git -C /verif rev-parse --short HEAD)" <<'PY'
import json,sys
seed,c,e,v,rc,vc=sys.argv[1:]
p=f'/verif/seeded/{seed}/meta.json'
d=json.load(open(p))
d.setdefault('rechecks',[]).append({"check":c,"tier":"quick","exit":int(e),"violation_lines":int(v),"repo_head":rc,"verif_head":vc})
json.dump(d,open(p,'w'),indent=1)
PY
done
git -C /repo worktree remove --force "$WT"
