#!/usr/bin/env python3
"""Regenerates /verif/MANIFEST.json from tools/manifest_src.json (one place to edit)."""
import json, os, sys
root = os.path.dirname(os.path.dirname(os.path.abspath(__file__)))
src = json.load(open(os.path.join(root, "tools", "manifest_src.json")))
props = [json.loads(l) for l in open(os.path.join(root, "properties.jsonl"))]
ids = [p["id"] for p in props]
checks = []
built = []
for pid in ids:
    c = src["checks"].get(pid)
    if not c or not c.get("claimed", False):
        continue
    # a check may keep its own up-to-date wording next to its source (written by whoever maintains it)
    for d in ("harness/checks", "harness-ft"):
        ov = os.path.join(root, d, pid.lower(), "manifest_text.json")
        if os.path.exists(ov):
            o = json.load(open(ov))
            c = dict(c, **{k: o[k] for k in ("text", "note", "technique") if k in o})
    built.append(pid)
    checks.append({
        "property_id": pid,
        "quick_cmd": f"./check {pid} quick",
        "thorough_cmd": f"./check {pid} thorough",
        "evidence_file": f"/verif/evidence/{pid}.json",
        "replay_cmd_template": f"./check {pid} --replay {{path}}",
        "engine": c.get("engine", "vcore"),
        "level_claimed": {
            "category": "model_checking",
            "text": c["text"],
            "design_ref": c.get("design_ref", f"DESIGN.md section 3 {pid}"),
        },
        "level_note": c["note"],
        "technique": c["technique"],
    })
na = []
for pid in ids:
    if pid not in built:
        reason = src["checks"].get(pid, {}).get("na_reason", "check not built yet in this session (planned: see DESIGN.md section 3); not claimed until it runs green on the unchanged tree")
        na.append({"property_id": pid, "reason": reason})
setup_pkgs = " ".join(f"-p {p.lower()}" for p in built if p not in ("C03", "C20"))
setup = "cd /verif && ./tools/setup.sh"
m = {
    "version": 1,
    "setup_cmd": setup,
    "hooks": src["hooks"],
    "engines": src["engines"],
    "checks": checks,
    "notes": src["notes"],
    "not_applicable": na,
}
json.dump(m, open(os.path.join(root, "MANIFEST.json"), "w"), indent=1)
open(os.path.join(root, "tools", "built.txt"), "w").write("\n".join(built) + "\n")
print("claimed:", " ".join(built))
print("not_applicable:", " ".join(x["property_id"] for x in na))
