#!/bin/bash
# tools/confirm_seed.sh <CNN> <n> "<demo command run inside _seed/demo>"  [check ids to run, default CNN]
# Confirms a seeded bug in /tmp/seed-CNN-n: patch applies to clean HEAD, suite passes with it, demo fails with
# and passes without; then runs our check(s) against the patched worktree and stores everything in /verif/seeded.
set -u
id="$1"; n="$2"; demo="$3"; shift 3
checks="${*:-$id}"
WT=/tmp/seed-$id-$n; S=$WT/_seed; OUT=/verif/seeded/$id-$n
cd "$WT" || exit 2
log=$S/confirm.log; : > "$log"
git checkout -q -- . ; git checkout -q --detach "$(git -C /repo rev-parse HEAD)"; git apply --check "$S/patch.diff" || { echo "patch does not apply to clean tree"; exit 2; }
echo "== demo WITHOUT patch" | tee -a "$log"
(cd "$S/demo" && CARGO_TARGET_DIR=$WT/target bash -c "$demo") >>"$log" 2>&1; without=$?
git apply "$S/patch.diff"
echo "== demo WITH patch" | tee -a "$log"
(cd "$S/demo" && CARGO_TARGET_DIR=$WT/target bash -c "$demo") >>"$log" 2>&1; with=$?
echo "== suite WITH patch" | tee -a "$log"
suite=$(cargo nextest run --workspace --no-fail-fast --offline 2>&1 | grep -E "Summary|tests run" | tail -1); echo "$suite" | tee -a "$log"
echo "demo exit without=$without with=$with" | tee -a "$log"
res=""
for c in $checks; do
  o=$(/verif/tools/mutant_run.sh "$WT" "$c" quick 2>&1); e=$?
  v=$(echo "$o" | grep -c '^VIOLATION'); first=$(echo "$o" | grep -A2 '^VIOLATION' | head -3 | tr '\n' ' ')
  echo "check $c quick: exit=$e violation_lines=$v :: $first" | tee -a "$log"
  res="$res{\"check\":\"$c\",\"tier\":\"quick\",\"exit\":$e,\"violation_lines\":$v},"
done
mkdir -p "$OUT"; cp -r "$S/patch.diff" "$S/README.md" "$S/demo" "$OUT/" 2>/dev/null; cp "$log" "$OUT/confirm.log"
rm -rf "$OUT/demo/target"
cat > "$OUT/meta.json" <<J
{"property":"$id","seed":"$id-$n","base_commit":"$(git rev-parse --short HEAD)","suite_with_patch":"$suite","demo_cmd":"$demo","demo_exit_without_patch":$without,"demo_exit_with_patch":$with,"checks_run":[${res%,}],"needs_to_manifest":"see README.md"}
J
echo "stored in $OUT"
