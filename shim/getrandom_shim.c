/* LD_PRELOAD seam for the hash-seed source of Rust's std (C07).
 *
 * std::collections::HashMap's RandomState takes its per-thread keys from getrandom(2) (through the
 * libc symbol, looked up dynamically) or getentropy(3). This shim answers both from the decimal
 * environment variable VERIF_HASH_SEED with a splitmix64 stream, so the harness *decides* the seed
 * (same seed => same keys => same iteration orders; different seed => different keys).
 *
 * Build: cc -shared -fPIC -O2 -o getrandom_shim.so getrandom_shim.c
 */
#define _GNU_SOURCE
#include <stddef.h>
#include <stdlib.h>
#include <sys/types.h>

static void verif_fill(void *buf, size_t len)
{
    const char *s = getenv("VERIF_HASH_SEED");
    unsigned long long seed = s ? strtoull(s, NULL, 10) : 0ULL;
    unsigned long long x = seed * 0x9E3779B97F4A7C15ULL + 0x0123456789ABCDEFULL;
    unsigned long long cur = 0;
    unsigned char *p = (unsigned char *)buf;
    for (size_t i = 0; i < len; i++) {
        if ((i & 7) == 0) {
            unsigned long long z;
            x += 0x9E3779B97F4A7C15ULL;
            z = x;
            z = (z ^ (z >> 30)) * 0xBF58476D1CE4E5B9ULL;
            z = (z ^ (z >> 27)) * 0x94D049BB133111EBULL;
            cur = z ^ (z >> 31);
        }
        p[i] = (unsigned char)(cur >> (8 * (i & 7)));
    }
}

ssize_t getrandom(void *buf, size_t buflen, unsigned int flags)
{
    (void)flags;
    verif_fill(buf, buflen);
    return (ssize_t)buflen;
}

int getentropy(void *buf, size_t len)
{
    verif_fill(buf, len);
    return 0;
}
